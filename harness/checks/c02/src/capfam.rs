//! Driver 6: capacity boundary families.
//!
//! For every fixed capacity in the code under test (CFF hint map 192 edges (96 before fix 3a05afb) / 96 stem hints / 12 mask bytes,
//! CFF operand stack 48 / CFF2 513, subr nesting limit 10, TrueType value stack / storage / function and
//! instruction definitions / call stack 32 / twilight points / loop counter / jump targets / cvt length, and
//! the maxp-declared glyph sizes) a *structured* family sweeps the relevant count across the capacity —
//! something token sequences of length ≤ 3 can never reach. Every family is a fixed, fully enumerated
//! list of synthesised fonts (`items`); a case is one family instance (a batch; `"only"`/`"from"` select
//! items as in the other batch drivers) and `describe` names an item for reports.
//!
//! Families (see the functions for the exact ranges):
//!  * `cffstems`  (format cff|cff2 × dir h|v|both × mode × layout): n ∈ 0..=110 ∪ {200} stem pairs
//!                × ghost hints g ∈ 0..=3 (widths −20/−21) placed first/last/interleaved; modes: plain stem
//!                operators, *hm + hintmask all-ones / alternating / one byte short, cntrmask + hintmask;
//!                layouts: ordered, overlapping, unsorted (the latter two for n ∈ 90..=100). Drawn with the CFF
//!                hinter at 13.5 and 1000 ppem and unhinted.
//!  * `cffmisc`   (format): k operands then every operator for k = stack limit −2..=+2; subr call chains of
//!                depth 8..=12 (local, global, alternating); `endchar` with 4/5 seac-style arguments.
//!  * `cff2blend` CFF2 variation stores whose region count sweeps {0,1,15,16,17,18,32,64} across the 16 precomputed
//!                blend scalars, with `blend` of 1 and 2 values, vsindex switching between a 1-region and the large
//!                sub-table, blended BlueValues in the Private DICT, deltas per value = regions −1/=/+1; drawn
//!                unhinted and hinted at the default location and at wght +0.5.
//!  * `cffdict`   (format): Private DICT BlueValues / OtherBlues / FamilyBlues / FamilyOtherBlues / StemSnapH / StemSnapV
//!                with operand counts around their capacities (14, 10, 14, 10, 12, 12) and the operand stack, and
//!                real numbers with digit strings around the 32-byte parse buffer.
//!  * `tt`        (group ∈ TT_GROUPS): value-stack depth, storage index, FDEF/IDEF counts, call depth and
//!                LOOPCALL counts, twilight point index, SLOOP counts, jump targets, truncated pushes, cvt index
//!                — each at capacity −1 / = / +1 (and 0 / negative / huge), in fpgm, prep and glyph programs.
//!  * `glyf`      point, contour, composite point, component count and component depth at the maxp values ± 1,
//!                run through the whole skrifa driver (plan "min": caller memory included).
//!  * `scratch`   (part × lo..=hi) the size of the library-allocated draw scratch buffer swept over every value a glyph
//!                of 1..=4000 real / claimed points or 1..=1000 components can produce, across the stack buckets
//!                512/1024/2048/4096/8192/16384 of `outline::memory::with_temporary_memory`; see section (5).
//!
//! Oracle: as everywhere in C02 — every call returns, none panics.

use crate::cffprog::num;
use crate::skdrv::{Acc, HashPen};
use crate::sup::{set_sub, CaseOut};
use crate::ttprog::{pushb, pushw};
use crate::{cff2prog, cffprog, glyfgraph, skdrv, ttprog};
use font_types::GlyphId16;
use read_fonts::tables::glyf::{Anchor, CurvePoint, Transform};
use read_fonts::FontRef;
use serde_json::{json, Value};
use skrifa::instance::{LocationRef, NormalizedCoord, Size};
use skrifa::outline::{DrawSettings, Engine, HintingInstance, HintingOptions, Target};
use skrifa::raw::types::GlyphId;
use skrifa::MetadataProvider;
use vcore::Fnv;
use write_fonts::tables::glyf::{Bbox, Component, ComponentFlags, CompositeGlyph, Contour, Glyph, SimpleGlyph};

pub const ST_CFF: usize = 27;

pub enum Kind {
    Cff,
    /// CFF2 at the default location and at wght = +0.5
    CffVar,
    Tt,
    Glyf,
    /// scratch-size sweep: draw glyph `gid` with library-allocated and exactly-sized caller memory
    Scratch,
}

pub struct Item {
    pub desc: String,
    pub font: Vec<u8>,
}

// ---------------------------------------------------------------------------------------------
// (1) CFF / CFF2 stem hints
// ---------------------------------------------------------------------------------------------

pub const STEM_MODES: [&str; 5] = [
    "stem operators",
    "stemhm + hintmask all ones",
    "stemhm + hintmask alternating",
    "stemhm + hintmask one byte short",
    "stemhm + cntrmask + hintmask",
];
pub const STEM_LAYOUTS: [&str; 3] = ["ordered, disjoint", "overlapping", "unsorted"];
pub const STEM_DIRS: [&str; 3] = ["h", "v", "both"];
pub const PLACEMENTS: [&str; 3] = ["first", "last", "interleaved"];

/// (position, width) list in listing order
fn stem_list(n: usize, g: usize, placement: usize, layout: usize) -> Vec<(i32, i32)> {
    let mut stems: Vec<(i32, i32)> = (0..n as i32)
        .map(|i| match layout {
            1 => (100 + 2 * i, 5),
            _ => (100 + 8 * i, 3),
        })
        .collect();
    if layout == 2 {
        for pair in stems.chunks_mut(2) {
            pair.reverse();
        }
    }
    let top = 100 + 8 * n as i32;
    let ghost_w = |k: usize| if k % 2 == 0 { -20 } else { -21 };
    match placement {
        0 => {
            let mut v: Vec<(i32, i32)> = (0..g).map(|k| (30 + 25 * k as i32, ghost_w(k))).collect();
            v.extend(stems);
            v
        }
        1 => {
            stems.extend((0..g).map(|k| (top + 30 + 25 * k as i32, ghost_w(k))));
            stems
        }
        _ => {
            let mut out = vec![];
            let mut next = 0;
            for (i, s) in stems.iter().enumerate() {
                out.push(*s);
                while next < g && i + 1 == ((next + 1) * n) / (g + 1) {
                    out.push((s.0 + 6, ghost_w(next)));
                    next += 1;
                }
            }
            for k in next..g {
                out.push((top + 30 + 25 * k as i32, ghost_w(k)));
            }
            out
        }
    }
}

fn encode_stems(list: &[(i32, i32)], op: u8, out: &mut Vec<u8>) {
    // 24 pairs = 48 operands per operator: exactly the CFF stack limit; every operator restarts at 0
    for chunk in list.chunks(24) {
        let mut u = 0;
        for (pos, w) in chunk {
            out.extend(num(pos - u));
            out.extend(num(*w));
            u = pos + w;
        }
        out.push(op);
    }
}

pub fn stems_charstring(n: usize, dir: usize, g: usize, placement: usize, mode: usize, layout: usize, cff2: bool) -> Vec<u8> {
    let list = stem_list(n, g, placement, layout);
    let hm = mode != 0;
    let mut cs = vec![];
    let mut total = 0;
    if dir == 0 || dir == 2 {
        encode_stems(&list, if hm { 18 } else { 1 }, &mut cs);
        total += list.len();
    }
    if dir == 1 || dir == 2 {
        encode_stems(&list, if hm { 23 } else { 3 }, &mut cs);
        total += list.len();
    }
    let bytes = total.div_ceil(8);
    match mode {
        1 => {
            cs.push(19);
            cs.extend(vec![0xFF; bytes]);
        }
        2 => {
            cs.push(19);
            cs.extend(vec![0xAA; bytes]);
        }
        3 => {
            cs.push(19);
            cs.extend(vec![0xFF; bytes.saturating_sub(1)]);
        }
        4 => {
            cs.push(20);
            cs.extend(vec![0xFF; bytes]);
            cs.push(19);
            cs.extend(vec![0xFF; bytes]);
        }
        _ => {}
    }
    for v in [100, 100] {
        cs.extend(num(v));
    }
    cs.push(21); // rmoveto
    for v in [300, 0, -150, 400] {
        cs.extend(num(v));
    }
    cs.push(5); // rlineto
    if hm && mode != 3 {
        // a second mask in the middle of the path re-builds the hint map
        cs.push(19);
        cs.extend(vec![0x55; bytes]);
        for v in [-150, -400] {
            cs.extend(num(v));
        }
        cs.push(5);
    }
    if !cff2 {
        cs.push(14); // endchar
    }
    cs
}

fn stem_counts(layout: usize) -> Vec<usize> {
    if layout == 0 {
        let mut v: Vec<usize> = (0..=110).collect();
        v.push(200);
        v
    } else {
        (90..=100).collect()
    }
}

fn items_cffstems(spec: &Value) -> Option<(Kind, Vec<Item>)> {
    let cff2 = spec["format"].as_str()? == "cff2";
    let dir = spec["dir"].as_u64()? as usize;
    let mode = spec["mode"].as_u64()? as usize;
    let layout = spec["layout"].as_u64()? as usize;
    if dir > 2 || mode > 4 || layout > 2 {
        return None;
    }
    let p1 = cffprog::Parts::new();
    let p2 = cff2prog::Parts::new();
    let mut out = vec![];
    for n in stem_counts(layout) {
        for g in 0..=3usize {
            for placement in 0..3usize {
                if g == 0 && placement > 0 {
                    continue;
                }
                let cs = stems_charstring(n, dir, g, placement, mode, layout, cff2);
                out.push(Item {
                    desc: format!("n={n} pairs, {g} ghost hints {}, charstring {}", PLACEMENTS[placement], vcore::hex(&cs)),
                    font: if cff2 { p2.build(&cs) } else { p1.build(&cs) },
                });
            }
        }
    }
    Some((Kind::Cff, out))
}

// ---------------------------------------------------------------------------------------------
// (2) CFF operand stack, subr nesting, seac
// ---------------------------------------------------------------------------------------------

fn items_cffmisc(spec: &Value) -> Option<(Kind, Vec<Item>)> {
    let cff2 = spec["format"].as_str()? == "cff2";
    let p1 = cffprog::Parts::new();
    let p2 = cff2prog::Parts::new();
    let build = |cs: &[u8]| if cff2 { p2.build(cs) } else { p1.build(cs) };
    let mut out = vec![];
    // k operands then each operator token
    let limit: usize = if cff2 { 513 } else { 48 };
    let ops: Vec<Vec<u8>> = cffprog::tokens().into_iter().filter(|t| t[0] <= 31 && t[0] != 28).collect();
    for k in limit - 2..=limit + 2 {
        for op in &ops {
            for val in [1i32, -107] {
                let mut cs = vec![];
                for _ in 0..k {
                    cs.extend(num(val));
                }
                cs.extend_from_slice(op);
                if !cff2 {
                    cs.push(14);
                }
                out.push(Item {
                    desc: format!("{k} operands of {val} then operator {}", vcore::hex(op)),
                    font: build(&cs),
                });
            }
        }
    }
    // subr call chains: depth d means d nested calls below the charstring
    for d in 8..=12usize {
        for kind in 0..3usize {
            let call = |global: bool, i: usize| {
                let mut v = num(i as i32 - 107);
                v.push(if global { 29 } else { 10 });
                v
            };
            let leaf = {
                let mut v = vec![];
                for x in [100, 0] {
                    v.extend(num(x));
                }
                v.push(5);
                if !cff2 {
                    v.push(11);
                }
                v
            };
            // kind 0: local chain, 1: global chain, 2: alternating (local i calls global i+1, global i calls local i+1)
            let chain = |to_global: bool| -> Vec<Vec<u8>> {
                (0..d)
                    .map(|i| {
                        if i + 1 == d {
                            leaf.clone()
                        } else {
                            let mut v = call(to_global, i + 1);
                            if !cff2 {
                                v.push(11);
                            }
                            v
                        }
                    })
                    .collect()
            };
            let l = chain(kind == 2);
            let gl = chain(kind == 1);
            let mut cs = vec![];
            for x in [100, 100] {
                cs.extend(num(x));
            }
            cs.push(21);
            cs.extend(call(kind == 1, 0));
            if !cff2 {
                cs.push(14);
            }
            let table = if cff2 {
                cff2prog::cff2_table_with(&cs, &gl, &l)
            } else {
                cffprog::cff_table_with(&cs, &gl, &l)
            };
            out.push(Item {
                desc: format!("subr chain depth {d}, {}", ["local", "global", "alternating local/global"][kind]),
                font: if cff2 { p2.build_with_table(table) } else { p1.build_with_table(table) },
            });
        }
    }
    // seac-style endchar
    if !cff2 {
        for with_width in [false, true] {
            for b in [0, 1, 65, 255] {
                for a in [0, 1, 65, 255] {
                    let mut cs = vec![];
                    if with_width {
                        cs.extend(num(500));
                    }
                    for x in [10, 20, b, a] {
                        cs.extend(num(x));
                    }
                    cs.push(14);
                    out.push(Item {
                        desc: format!("seac endchar adx=10 ady=20 bchar={b} achar={a} width_arg={with_width}"),
                        font: build(&cs),
                    });
                }
            }
        }
    }
    Some((Kind::Cff, out))
}

// ---------------------------------------------------------------------------------------------
// (2b) CFF2 blend: region counts across the 16-entry precomputed scalar cache
// ---------------------------------------------------------------------------------------------

/// Region counts of the large ItemVariationData (MAX_PRECOMPUTED_SCALARS = 16 in read-fonts' BlendState)
pub const BLEND_REGION_COUNTS: [usize; 8] = [0, 1, 15, 16, 17, 18, 32, 64];
pub const BLEND_CHARSTRINGS: [&str; 4] = ["blend 1 value", "blend 2 values", "vsindex small then blend", "blend large, vsindex small, blend again"];
pub const BLEND_PRIVATE: [&str; 3] = ["no blend in Private DICT", "BlueValues blended against the large store", "Private vsindex 1 + BlueValues blended against the small store"];

/// VariationStore: ivd0 = N regions (large), ivd1 = 1 region (small), ivd2 = N regions.
fn items_cff2blend(_spec: &Value) -> Option<(Kind, Vec<Item>)> {
    let parts = cff2prog::Parts::new();
    let mut out = vec![];
    let nums = |vs: &[i32]| vs.iter().flat_map(|v| num(*v)).collect::<Vec<u8>>();
    let outline = {
        let mut t = nums(&[100]);
        t.push(21); // rmoveto (x already on the stack)
        t.extend(nums(&[300, 0, -150, 400]));
        t.push(5);
        t
    };
    for n in BLEND_REGION_COUNTS {
        for (ci, cname) in BLEND_CHARSTRINGS.iter().enumerate() {
            for (pi, pname) in BLEND_PRIVATE.iter().enumerate() {
                for slack in [0i32, -1, 1] {
                    // number of deltas actually supplied per blended value
                    let k = (n as i32 + slack).max(0) as usize;
                    let blend = |values: usize, k: usize| {
                        let mut v = nums(&vec![100; values]);
                        v.extend(nums(&vec![7; values * k]));
                        v.extend(num(values as i32));
                        v.push(16);
                        v
                    };
                    let mut cs = vec![];
                    match ci {
                        0 => cs.extend(blend(1, k)),
                        1 => {
                            cs.extend(blend(2, k));
                            cs.push(21); // rmoveto with the two blended values
                            cs.extend(nums(&[100]));
                        }
                        2 => {
                            cs.extend(num(1));
                            cs.push(15); // vsindex -> small store
                            cs.extend(blend(1, (1 + slack).max(0) as usize));
                        }
                        _ => {
                            cs.extend(blend(1, k));
                            cs.extend(num(1));
                            cs.push(15);
                            cs.extend(blend(1, 1));
                            cs.push(21);
                            cs.extend(nums(&[100]));
                        }
                    }
                    cs.extend(outline.clone());
                    let mut private = vec![];
                    match pi {
                        1 => {
                            private.extend(nums(&[-20, 20]));
                            private.extend(nums(&vec![3; 2 * k]));
                            private.extend(num(2));
                            private.push(23); // blend
                            private.push(6); // BlueValues
                        }
                        2 => {
                            private.extend(num(1));
                            private.push(22); // vsindex
                            private.extend(nums(&[-20, 20]));
                            private.extend(nums(&vec![3; 2 * (1 + slack).max(0) as usize]));
                            private.extend(num(2));
                            private.push(23);
                            private.push(6);
                        }
                        _ => {}
                    }
                    let table = cff2prog::cff2_table_full(&cs, &[], &[], &private, cff2prog::var_store_with(&[n, 1, n]));
                    out.push(Item {
                        desc: format!("{n} regions; {cname}; {pname}; deltas per value = regions{slack:+}; charstring {}", vcore::hex(&cs)),
                        font: parts.build_with_table(table),
                    });
                }
            }
        }
    }
    Some((Kind::CffVar, out))
}

// ---------------------------------------------------------------------------------------------
// (2c) Private DICT arrays and numbers across their fixed capacities
// ---------------------------------------------------------------------------------------------

/// (name, operator bytes, capacity in operands)
pub const DICT_ARRAYS: [(&str, &[u8], usize); 6] = [
    ("BlueValues", &[6], 14),
    ("OtherBlues", &[7], 10),
    ("FamilyBlues", &[8], 14),
    ("FamilyOtherBlues", &[9], 10),
    ("StemSnapH", &[12, 12], 12),
    ("StemSnapV", &[12, 13], 12),
];

fn items_cffdict(spec: &Value) -> Option<(Kind, Vec<Item>)> {
    let cff2 = spec["format"].as_str()? == "cff2";
    let p1 = cffprog::Parts::new();
    let p2 = cff2prog::Parts::new();
    let mut cs = vec![];
    for v in [100, 100] {
        cs.extend(num(v));
    }
    cs.push(21);
    for v in [300, 0, -150, 400] {
        cs.extend(num(v));
    }
    cs.push(5);
    if !cff2 {
        cs.push(14);
    }
    let build = |private: &[u8]| {
        if cff2 {
            p2.build_with_table(cff2prog::cff2_table_full(&cs, &[], &[], private, cff2prog::var_store_with(&[1])))
        } else {
            p1.build_with_table(cffprog::cff_table_full(&cs, &[], &[], private))
        }
    };
    let mut out = vec![];
    // delta-encoded arrays of c operands, c around the capacity of each array (and around the operand stack)
    for (name, op, cap) in DICT_ARRAYS {
        let mut counts = vec![0, 1, 2, cap - 2, cap - 1, cap, cap + 1, cap + 2, 40, 47, 48, 49];
        counts.sort();
        counts.dedup();
        for c in counts {
            let mut p = vec![];
            for i in 0..c {
                p.extend(num(if i == 0 { -20 } else { 10 }));
            }
            p.extend_from_slice(op);
            out.push(Item {
                desc: format!("Private DICT {name} with {c} operands (capacity {cap})"),
                font: build(&p),
            });
        }
    }
    // all arrays at capacity + 1 together (blue zones: 7 + 5 = 12)
    {
        let mut p = vec![];
        for (_, op, cap) in DICT_ARRAYS {
            for i in 0..cap + 1 {
                p.extend(num(if i == 0 { -20 } else { 10 }));
            }
            p.extend_from_slice(op);
        }
        out.push(Item {
            desc: "every Private DICT array one operand over its capacity".into(),
            font: build(&p),
        });
    }
    // real numbers: digit strings around the 32-byte parse buffer, as BlueScale (12 9)
    for digits in [1usize, 29, 30, 31, 32, 33, 34, 64, 200] {
        for form in 0..3 {
            // nibbles: form 0 "0.ddd…", form 1 "ddd…E-5", form 2 "-ddd….5"
            let mut nib: Vec<u8> = vec![];
            match form {
                0 => {
                    nib.extend([0, 0xa]);
                    nib.extend(vec![3; digits]);
                }
                1 => {
                    nib.extend(vec![7; digits]);
                    nib.extend([0xc, 5]);
                }
                _ => {
                    nib.push(0xe);
                    nib.extend(vec![9; digits]);
                    nib.extend([0xa, 5]);
                }
            }
            nib.push(0xf);
            if nib.len() % 2 == 1 {
                nib.push(0xf);
            }
            let mut p = vec![30u8];
            for pair in nib.chunks(2) {
                p.push(pair[0] << 4 | pair[1]);
            }
            p.extend([12, 9]);
            out.push(Item {
                desc: format!("Private DICT BlueScale as a real number with {digits} digits, form {form}"),
                font: build(&p),
            });
        }
    }
    Some((Kind::Cff, out))
}

// ---------------------------------------------------------------------------------------------
// (3) TrueType interpreter capacities
// ---------------------------------------------------------------------------------------------

pub const TT_GROUPS: [&str; 9] = ["stack", "storage", "defs", "calls", "twilight", "sloop", "jumps", "truncated", "cvt"];

fn npushb(v: &[u8]) -> Vec<u8> {
    let mut o = vec![0x40, v.len() as u8];
    o.extend_from_slice(v);
    o
}
fn npushw(v: &[i16]) -> Vec<u8> {
    let mut o = vec![0x41, v.len() as u8];
    for w in v {
        o.extend_from_slice(&w.to_be_bytes());
    }
    o
}

/// lim = [maxZones, maxTwilightPoints, maxStorage, maxFunctionDefs, maxInstructionDefs, maxStackElements, maxSizeOfInstructions]
fn items_tt(spec: &Value) -> Option<(Kind, Vec<Item>)> {
    let group = spec["group"].as_str()?;
    let parts = ttprog::FontParts::new();
    let mut out: Vec<Item> = vec![];
    let small: [u16; 7] = [2, 4, 8, 4, 2, 32, 64];
    // a program placed in each of the three slots (the other two hold the defaults)
    let mut in_slots = |out: &mut Vec<Item>, desc: String, prog: &[u8], lim: &[u16; 7], slots: &[usize]| {
        for &slot in slots {
            out.push(Item {
                desc: format!("{desc}; slot={} maxp={lim:?} program={}", ttprog::SLOTS[slot], vcore::hex(prog)),
                font: parts.build(slot, prog, lim),
            });
        }
    };
    let all = [0usize, 1, 2];
    match group {
        "stack" => {
            let ops: [(&str, &[u8]); 10] = [
                ("none", &[]),
                ("DUP", &[0x20]),
                ("DEPTH", &[0x24]),
                ("CINDEX", &[0x25]),
                ("MINDEX", &[0x26]),
                ("SWAP", &[0x23]),
                ("POP", &[0x21]),
                ("CLEAR", &[0x22]),
                ("ROLL", &[0x8A]),
                ("PUSHB 0", &[0xB0, 0]),
            ];
            let s = 32usize;
            for d in [s - 1, s, s + 1] {
                for top in [0i64, 1, d as i64 - 1, d as i64, d as i64 + 1, -1] {
                    for (name, op) in ops {
                        let mut vals = vec![1i16; d];
                        vals[d - 1] = top as i16;
                        let mut p = npushw(&vals);
                        p.extend_from_slice(op);
                        in_slots(&mut out, format!("stack limit {s}: push {d} values (top {top}) then {name}"), &p, &small, &all);
                    }
                }
            }
            for s in [254u16, 255, 256] {
                let lim = [2, 4, 8, 4, 2, s, 600];
                for (name, op) in ops {
                    for word in [false, true] {
                        let mut p = if word { npushw(&[1i16; 255]) } else { npushb(&[1u8; 255]) };
                        p.extend_from_slice(op);
                        in_slots(&mut out, format!("stack limit {s}: NPUSH{} of 255 values then {name}", if word { "W" } else { "B" }), &p, &lim, &all);
                    }
                }
            }
        }
        "storage" => {
            for st in [0u16, 1, 8] {
                let lim = [2, 4, st, 4, 2, 32, 64];
                for idx in [st as i32 - 1, st as i32, st as i32 + 1, -1, 0x7FFF] {
                    let mut w = pushw(&[idx as i16, 5]);
                    w.push(0x42); // WS
                    in_slots(&mut out, format!("maxStorage {st}: WS index {idx}"), &w, &lim, &all);
                    let mut r = pushw(&[idx as i16]);
                    r.push(0x43); // RS
                    in_slots(&mut out, format!("maxStorage {st}: RS index {idx}"), &r, &lim, &all);
                }
            }
        }
        "defs" => {
            // function definitions: ids 0..k, then one extra id, under maxFunctionDefs = 4
            for f in [0u16, 1, 4] {
                let lim = [2, 4, 8, f, 2, 32, 64];
                for k in [f.saturating_sub(1), f, f + 1] {
                    for extra in [f as i32 - 1, f as i32, f as i32 + 1, -1, 0x7FFF] {
                        let mut fp = vec![];
                        for id in 0..k {
                            fp.extend(pushb(&[id as u8]));
                            fp.extend([0x2C, 0x2D]); // FDEF ENDF
                        }
                        fp.extend(pushw(&[extra as i16]));
                        fp.extend([0x2C, 0x2D]);
                        // prep calls the extra id
                        let mut prep = pushw(&[extra as i16]);
                        prep.push(0x2B);
                        out.push(Item {
                            desc: format!("maxFunctionDefs {f}: define ids 0..{k} and {extra}, then CALL {extra}; fpgm={}", vcore::hex(&fp)),
                            font: parts.build3(&fp, &prep, &prep, &lim),
                        });
                    }
                }
            }
            // instruction definitions under maxInstructionDefs = 2
            for i in [0u16, 1, 2] {
                let lim = [2, 4, 8, 4, i, 32, 64];
                for k in [i.saturating_sub(1), i, i + 1, i + 2] {
                    let mut fp = vec![];
                    for j in 0..k {
                        fp.extend(pushb(&[0x91 + j as u8]));
                        fp.extend([0x89, 0x2D]); // IDEF ENDF
                    }
                    let prep: Vec<u8> = (0..k.max(1)).map(|j| 0x91 + j as u8).collect();
                    out.push(Item {
                        desc: format!("maxInstructionDefs {i}: define {k} instructions and execute them; fpgm={}", vcore::hex(&fp)),
                        font: parts.build3(&fp, &prep, &prep, &lim),
                    });
                }
            }
        }
        "calls" => {
            let lim = [2, 4, 8, 40, 2, 64, 600];
            for d in [30usize, 31, 32, 33, 34] {
                let mut fp = vec![];
                for i in 0..d {
                    fp.extend(pushb(&[i as u8]));
                    fp.push(0x2C);
                    fp.extend(pushb(&[i as u8 + 1]));
                    fp.extend([0x2B, 0x2D]);
                }
                fp.extend(pushb(&[d as u8]));
                fp.extend([0x2C, 0x2D]);
                let mut call0 = pushb(&[0]);
                call0.push(0x2B);
                out.push(Item {
                    desc: format!("CALL chain of depth {d} (call stack limit 32) from prep and glyph"),
                    font: parts.build3(&fp, &call0, &call0, &lim),
                });
                // the chain entered from inside fpgm itself
                let mut fp2 = fp.clone();
                fp2.extend(call0.clone());
                out.push(Item {
                    desc: format!("CALL chain of depth {d} entered from fpgm"),
                    font: parts.build3(&fp2, &ttprog::DEFAULT_CALL, &ttprog::DEFAULT_CALL, &lim),
                });
            }
            for count in [0i16, 1, -1, 2, 299, 300, 301, 0x7FFF, -0x8000] {
                for f in [1i16, 0, 2] {
                    let mut p = pushw(&[count, f]);
                    p.push(0x2A); // LOOPCALL
                    in_slots(&mut out, format!("LOOPCALL count {count} of function {f} (0 self-recursive, 1 empty, 2 POP)"), &p, &small, &[1, 2]);
                }
            }
        }
        "twilight" => {
            for t in [0u16, 1, 4] {
                let lim = [2, t, 8, 4, 2, 32, 64];
                for idx in [t as i32 - 1, t as i32, t as i32 + 1, -1, 0x7FFF] {
                    let pre = {
                        let mut p = pushb(&[0]);
                        p.push(0x16); // SZPS: all zone pointers to the twilight zone
                        p
                    };
                    let progs: [(&str, Vec<u8>); 4] = [
                        ("MIAP[0] point idx cvt 1", [pushw(&[idx as i16, 1]), vec![0x3E]].concat()),
                        ("GC[0]", [pushw(&[idx as i16]), vec![0x46]].concat()),
                        ("MDAP[1]", [pushw(&[idx as i16]), vec![0x2F]].concat()),
                        ("SCFS", [pushw(&[idx as i16, 64]), vec![0x48]].concat()),
                    ];
                    for (name, p) in progs {
                        let prog = [pre.clone(), p].concat();
                        in_slots(&mut out, format!("maxTwilightPoints {t}: {name} on twilight point {idx}"), &prog, &lim, &[1, 2]);
                    }
                }
            }
        }
        "sloop" => {
            // glyph 1 has 3 points + 4 phantom points = 7
            for count in [0i16, -1, 1, 6, 7, 8, 9, 0x7FFF, -0x8000] {
                let points: Vec<u8> = (0..9).collect();
                let ops: [(&str, u8, bool); 5] = [("FLIPPT", 0x80, false), ("ALIGNRP", 0x3C, false), ("SHP[0]", 0x32, false), ("SHPIX", 0x38, true), ("IP", 0x39, false)];
                for (name, op, amount) in ops {
                    let mut p = npushb(&points);
                    if amount {
                        p.extend(pushb(&[64]));
                    }
                    p.extend(pushw(&[count]));
                    p.push(0x17); // SLOOP
                    p.push(op);
                    in_slots(&mut out, format!("SLOOP {count} then {name} with 9 point indices (7 points exist)"), &p, &small, &[1, 2]);
                }
            }
        }
        "jumps" => {
            // layout: PUSHW off [PUSHB cond] J* NOP NOP NOP ; offsets are relative to the jump instruction
            for (name, op, cond) in [("JMPR", 0x1Cu8, None), ("JROT 1", 0x78, Some(1u8)), ("JROT 0", 0x78, Some(0)), ("JROF 0", 0x79, Some(0)), ("JROF 1", 0x79, Some(1))] {
                let jpos: i32 = if cond.is_some() { 5 } else { 3 };
                let len = jpos + 4;
                for target in [-2i32, -1, 0, 1, jpos - 1, jpos, jpos + 1, len - 1, len, len + 1, len + 2] {
                    let off = target - jpos;
                    let mut p = pushw(&[off as i16]);
                    if let Some(c) = cond {
                        p.extend(pushb(&[c]));
                    }
                    p.push(op);
                    p.extend([0x4F, 0x4F, 0x4F]);
                    in_slots(&mut out, format!("{name} to byte {target} of a {len}-byte program"), &p, &small, &all);
                }
                for off in [0x7FFFi16, -0x8000] {
                    let mut p = pushw(&[off]);
                    if let Some(c) = cond {
                        p.extend(pushb(&[c]));
                    }
                    p.push(op);
                    in_slots(&mut out, format!("{name} offset {off}"), &p, &small, &all);
                }
            }
        }
        "truncated" => {
            let progs: [&[u8]; 14] = [
                &[0xB0],
                &[0xB7, 1, 2, 3],
                &[0xB7, 1, 2, 3, 4, 5, 6, 7],
                &[0xB8],
                &[0xB8, 0],
                &[0xBF, 0, 1, 0],
                &[0x40],
                &[0x40, 5, 1, 2],
                &[0x40, 255],
                &[0x41],
                &[0x41, 2, 0, 1, 0],
                &[0x41, 255, 0],
                &[0xB0, 1, 0x40, 200, 9],
                &[0x2C],
            ];
            for p in progs {
                in_slots(&mut out, "instruction stream ends inside an instruction".to_string(), p, &small, &all);
            }
        }
        "cvt" => {
            // the cvt table has 4 entries
            for idx in [3i16, 4, 5, -1, 0x7FFF] {
                let progs: [(&str, Vec<u8>); 6] = [
                    ("RCVT", [pushw(&[idx]), vec![0x45]].concat()),
                    ("WCVTP", [pushw(&[idx, 64]), vec![0x44]].concat()),
                    ("WCVTF", [pushw(&[idx, 64]), vec![0x70]].concat()),
                    ("MIAP[1] point 0", [pushw(&[0, idx]), vec![0x3F]].concat()),
                    ("MIRP[0] point 1", [pushw(&[0]), vec![0x10], pushw(&[1, idx]), vec![0xE0]].concat()),
                    ("DELTAC1", [pushw(&[0x48, idx, 1]), vec![0x73]].concat()),
                ];
                for (name, p) in progs {
                    in_slots(&mut out, format!("cvt length 4: {name} with cvt index {idx}"), &p, &small, &[1, 2]);
                }
            }
        }
        _ => return None,
    }
    Some((Kind::Tt, out))
}

// ---------------------------------------------------------------------------------------------
// (4) glyf sizes at the maxp values
// ---------------------------------------------------------------------------------------------

fn simple(points: usize, contours: usize, instr: &[u8]) -> Glyph {
    // `points` points split over `contours` contours (each contour at least 1 point)
    let mut cs = vec![];
    let mut left = points;
    for c in 0..contours {
        let take = if c + 1 == contours { left } else { (points / contours).max(1).min(left) };
        left -= take;
        let pts: Vec<CurvePoint> = (0..take).map(|i| CurvePoint::new(10 * (i as i16 + 1) + 100 * c as i16, if i % 2 == 0 { 0 } else { 50 }, true)).collect();
        let contour: Contour = pts.into();
        cs.push(contour);
    }
    Glyph::Simple(SimpleGlyph {
        bbox: Bbox { x_min: 0, y_min: 0, x_max: 500, y_max: 100 },
        contours: cs,
        instructions: instr.to_vec(),
    })
}

/// One contour of `points` on-curve points in a zig-zag whose coordinates stay small for any count
/// (`simple` computes 10 * i in i16, which overflows beyond 3275 points).
fn simple_any(points: usize, instr: &[u8]) -> Glyph {
    let pts: Vec<CurvePoint> = (0..points).map(|i| CurvePoint::new(10 * (i % 300) as i16, if i % 2 == 0 { 0 } else { 50 + (i / 300) as i16 }, true)).collect();
    let contour: Contour = pts.into();
    Glyph::Simple(SimpleGlyph {
        bbox: Bbox { x_min: 0, y_min: 0, x_max: 2990, y_max: 100 },
        contours: vec![contour],
        instructions: instr.to_vec(),
    })
}

fn comp_of(gids: &[u16]) -> Glyph {
    let mk = |g: u16| Component::new(GlyphId16::new(g), Anchor::Offset { x: 5, y: 5 }, Transform::default(), ComponentFlags::default());
    let bb = Bbox { x_min: 0, y_min: 0, x_max: 600, y_max: 200 };
    let mut c = CompositeGlyph::new(mk(gids[0]), bb);
    for g in &gids[1..] {
        c.add_component(mk(*g), bb);
    }
    Glyph::Composite(c)
}

fn items_glyf(_spec: &Value) -> Option<(Kind, Vec<Item>)> {
    let mut out = vec![];
    let base: [u16; 13] = [8, 2, 16, 4, 2, 4, 8, 4, 2, 32, 64, 2, 2];
    // simple glyphs: points vs maxPoints = 8, contours vs maxContours = 2
    for p in [7usize, 8, 9, 16] {
        for c in [1usize, 2, 3] {
            for instr in [&[][..], &[0x4F][..]] {
                let glyphs = vec![Glyph::Empty, simple(p, c, instr)];
                out.push(Item {
                    desc: format!("simple glyph with {p} points in {c} contours, {} instruction bytes; maxPoints 8, maxContours 2", instr.len()),
                    font: glyfgraph::build_with_maxp(&glyphs, &base),
                });
            }
        }
    }
    // composites: k components of a 4-point glyph; maxCompositePoints, maxComponentElements at k*4, k ± 1
    for k in [1usize, 2, 3] {
        for mcp in [4 * k - 1, 4 * k, 4 * k + 1] {
            for mce in [k - 1, k, k + 1] {
                let mut m = base;
                m[2] = mcp as u16;
                m[11] = mce as u16;
                let glyphs = vec![Glyph::Empty, simple(4, 1, &[]), comp_of(&vec![1u16; k])];
                out.push(Item {
                    desc: format!("composite of {k} x 4-point glyph; maxCompositePoints {mcp}, maxComponentElements {mce}"),
                    font: glyfgraph::build_with_maxp(&glyphs, &m),
                });
            }
        }
    }
    // nesting: chain of d composites above a simple glyph; maxComponentDepth d ± 1
    for d in [1usize, 2, 3] {
        for mcd in [d - 1, d, d + 1] {
            let mut m = base;
            m[12] = mcd as u16;
            let mut glyphs = vec![Glyph::Empty, simple(4, 1, &[])];
            for i in 0..d {
                glyphs.push(comp_of(&[1 + i as u16]));
            }
            out.push(Item {
                desc: format!("composite nesting depth {d}; maxComponentDepth {mcd}"),
                font: glyfgraph::build_with_maxp(&glyphs, &m),
            });
        }
    }
    // all limits zero
    let glyphs = vec![Glyph::Empty, simple(4, 1, &[0x4F]), comp_of(&[1, 1])];
    out.push(Item {
        desc: "all maxp limits zero".into(),
        font: glyfgraph::build_with_maxp(&glyphs, &[0; 13]),
    });
    Some((Kind::Glyf, out))
}

// ---------------------------------------------------------------------------------------------
// (5) scratch-size sweep of the library-allocated draw path (`outline::memory::with_temporary_memory`)
// ---------------------------------------------------------------------------------------------
//
// `OutlineGlyph::draw` without caller memory sizes its own scratch buffer from `draw_memory_size` and picks
// a stack bucket (512 / 1024 / 2048 / 4096 / 8192 / 16384 bytes) or the heap. The sweep makes that size take
// every value reachable by a glyph of 1..=4000 points (17 bytes per point unhinted, 25 hinted, 33 / 41 with
// variations; 19 per 1-point component), so every bucket bound is crossed with all the sizes just below and
// above it. Parts (each item is one font; the glyph drawn is `scratch_gid(part)`):
//  * `real`     hand-built font, glyph 1 = simple glyph with N real points, one instruction byte, N in lo..=hi
//  * `claimed`  hand-built font, glyph 1 = 8-point simple glyph whose last endPtsOfContours entry is patched
//               to N-1 (the size is computed from the claim before the point data is found to be short)
//  * `comp1`    glyph 2 = composite of k components of a 1-point glyph, k in lo..=hi
//  * `comp16`   glyph 2 = composite of k components of a 16-point glyph, k in lo..=hi
//  * `var`      corpus font SCRATCH_VAR_SEED (glyf + gvar), its first simple glyph with a contour, last
//               endPtsOfContours patched to N-1; drawn at the default location and at all axes +0.5
pub const SCRATCH_PARTS: [(&str, usize, usize); 5] = [("real", 4000, 250), ("claimed", 4000, 1000), ("comp1", 1000, 250), ("comp16", 250, 125), ("var", 4000, 1000)];
pub const SCRATCH_VAR_SEED: &str = "font-test-data/test_data/ttf/vazirmatn_var_trimmed.ttf";
pub const SCRATCH_BOUNDS: [usize; 6] = [512, 1024, 2048, 4096, 8192, 16384];
const SCRATCH_CLASS_COUNTERS: [&str; 7] = [
    "scratch_lib_alloc_le_512",
    "scratch_lib_alloc_le_1024",
    "scratch_lib_alloc_le_2048",
    "scratch_lib_alloc_le_4096",
    "scratch_lib_alloc_le_8192",
    "scratch_lib_alloc_le_16384",
    "scratch_lib_alloc_heap",
];

fn rd16(d: &[u8], o: usize) -> Option<usize> {
    Some(u16::from_be_bytes([*d.get(o)?, *d.get(o + 1)?]) as usize)
}
fn rd32(d: &[u8], o: usize) -> Option<usize> {
    Some(u32::from_be_bytes([*d.get(o)?, *d.get(o + 1)?, *d.get(o + 2)?, *d.get(o + 3)?]) as usize)
}

/// (gid, file offset of the last endPtsOfContours entry) of the first simple glyph with >= 1 contour at or
/// after `from_gid`. Own loca/glyf walk, independent of the code under test.
fn first_simple_glyph(font: &[u8], from_gid: usize) -> Option<(u32, usize)> {
    let dir = crate::fontcase::table_dir(font);
    let tab = |t: &str| dir.iter().find(|(n, _, _)| n == t).map(|(_, o, l)| (*o, *l));
    let (head, _) = tab("head")?;
    let (loca, loca_len) = tab("loca")?;
    let (glyf, _) = tab("glyf")?;
    let long = rd16(font, head + 50)? == 1;
    let n = if long { loca_len / 4 } else { loca_len / 2 }.saturating_sub(1);
    let at = |i: usize| if long { rd32(font, loca + 4 * i) } else { rd16(font, loca + 2 * i).map(|x| 2 * x) };
    for gid in from_gid..n {
        let (a, b) = (at(gid)?, at(gid + 1)?);
        if b < a + 12 {
            continue;
        }
        let nc = rd16(font, glyf + a)?;
        if (1..0x8000).contains(&nc) {
            return Some((gid as u32, glyf + a + 10 + 2 * (nc - 1)));
        }
    }
    None
}

fn claim_points(font: &[u8], pos: usize, n: usize) -> Vec<u8> {
    let mut f = font.to_vec();
    f[pos..pos + 2].copy_from_slice(&((n - 1) as u16).to_be_bytes());
    f
}

fn scratch_gid(part: &str) -> u32 {
    match part {
        "comp1" | "comp16" => 2,
        "var" => crate::fontcase::seed_bytes(SCRATCH_VAR_SEED).and_then(|f| first_simple_glyph(f, 1)).map(|x| x.0).unwrap_or(0),
        _ => 1,
    }
}

fn items_scratch(spec: &Value) -> Option<(Kind, Vec<Item>)> {
    let part = spec["part"].as_str()?;
    let (lo, hi) = (spec["lo"].as_u64()? as usize, spec["hi"].as_u64()? as usize);
    let max = SCRATCH_PARTS.iter().find(|p| p.0 == part)?.1;
    if lo < 1 || hi > max || lo > hi {
        return None;
    }
    // generous maxp so that no declared limit interferes with the sweep
    let maxp: [u16; 13] = [4096, 1024, 4096, 1024, 2, 4, 8, 4, 2, 32, 64, 1024, 4];
    let mut out = vec![];
    match part {
        "real" => {
            for n in lo..=hi {
                out.push(Item {
                    desc: format!("simple glyph with {n} real points (1 contour, 1 instruction byte)"),
                    font: glyfgraph::build_with_maxp(&[Glyph::Empty, simple_any(n, &[0x4F])], &maxp),
                });
            }
        }
        "claimed" | "var" => {
            let seed: Vec<u8> = if part == "var" {
                crate::fontcase::seed_bytes(SCRATCH_VAR_SEED)?.to_vec()
            } else {
                glyfgraph::build_with_maxp(&[Glyph::Empty, simple(8, 1, &[0x4F])], &maxp)
            };
            let (gid, pos) = first_simple_glyph(&seed, 1)?;
            for n in lo..=hi {
                out.push(Item {
                    desc: format!("{}: last endPtsOfContours of glyph {gid} (file offset {pos}) set to {} = {n} claimed points", if part == "var" { SCRATCH_VAR_SEED } else { "hand-built 8-point glyph" }, n - 1),
                    font: claim_points(&seed, pos, n),
                });
            }
        }
        "comp1" | "comp16" => {
            let p = if part == "comp1" { 1 } else { 16 };
            for k in lo..=hi {
                out.push(Item {
                    desc: format!("composite of {k} components of a {p}-point glyph"),
                    font: glyfgraph::build_with_maxp(&[Glyph::Empty, simple(p, 1, &[]), comp_of(&vec![1u16; k])], &maxp),
                });
            }
        }
        _ => return None,
    }
    Some((Kind::Scratch, out))
}

/// One item of the scratch sweep: at every location, draw `gid` unhinted (both path styles), hinted by the
/// interpreter and by the auto-hinter, each once without caller memory and once with caller memory of exactly
/// `draw_memory_size` bytes (two alignments). Oracle: every call returns (Ok and Err are both fine).
fn exercise_scratch(acc: &mut Acc, font_bytes: &[u8], gid: u32, two_locations: bool) {
    use skrifa::outline::{pen::PathStyle, Hinting};
    let Some(Ok(font)) = acc.call(1, || FontRef::new(font_bytes)) else {
        acc.count("font_rejected");
        return;
    };
    let oc = font.outline_glyphs();
    let Some(Some(g)) = acc.call(3, || oc.get(GlyphId::new(gid))) else {
        acc.count("glyph_absent");
        return;
    };
    let mut h = Fnv::new();
    let mut any_ok = false;
    let sizes = acc.call(3, || (g.draw_memory_size(Hinting::None), g.draw_memory_size(Hinting::Embedded)));
    let Some((size_un, size_h)) = sizes else { return };
    h.u64(size_un as u64);
    h.u64(size_h as u64);
    let class = |sz: usize| SCRATCH_BOUNDS.iter().position(|b| sz <= *b).unwrap_or(6);
    let locs: Vec<Vec<NormalizedCoord>> = if two_locations {
        let axes = font.axes().len();
        vec![vec![], vec![NormalizedCoord::from_f32(0.5); axes]]
    } else {
        vec![vec![]]
    };
    let mut obs = |acc: &mut Acc, h: &mut Fnv, r: Option<(Result<(), skrifa::outline::DrawError>, HashPen)>| {
        let Some((r, pen)) = r else {
            h.byte(3);
            return;
        };
        match r {
            Ok(()) => {
                acc.count("draw_ok");
                any_ok |= pen.n > 0;
                h.byte(1);
                h.u64(pen.h.finish());
            }
            Err(e) => {
                acc.count("draw_err");
                h.byte(2);
                h.str(&format!("{e:?}"));
            }
        }
    };
    for loc in &locs {
        let lr = LocationRef::new(loc);
        // unhinted: library-allocated, then caller memory of exactly draw_memory_size
        for style in [PathStyle::FreeType, PathStyle::HarfBuzz] {
            acc.count(SCRATCH_CLASS_COUNTERS[class(size_un)]);
            let r = acc.call(4, || {
                let mut pen = HashPen::default();
                let r = g.draw(DrawSettings::unhinted(Size::new(16.0), lr).with_path_style(style), &mut pen);
                (r.map(|_| ()), pen)
            });
            obs(acc, &mut h, r);
            for align in [0usize, 1] {
                let mut mem = skdrv::Mem::new(size_un, align);
                acc.count("draws_with_caller_memory");
                let r = acc.call(4, || {
                    let mut pen = HashPen::default();
                    let r = g.draw(DrawSettings::unhinted(Size::new(16.0), lr).with_path_style(style).with_memory(Some(mem.slice())), &mut pen);
                    (r.map(|_| ()), pen)
                });
                obs(acc, &mut h, r);
            }
        }
        // hinted: interpreter (Hinting::Embedded size) and auto (Hinting::None size)
        for (engine, st_new, st_draw, sz) in [(Engine::Interpreter, 5usize, 8usize, size_h), (Engine::Auto(None), 6, 9, size_un)] {
            let inst = acc.call(st_new, || HintingInstance::new(&oc, Size::new(16.0), lr, HintingOptions { engine, target: Target::default() }));
            let Some(Ok(inst)) = inst else {
                h.byte(9);
                continue;
            };
            acc.count("instance_ok");
            acc.count(SCRATCH_CLASS_COUNTERS[class(sz)]);
            let r = acc.call(st_draw, || {
                let mut pen = HashPen::default();
                let r = g.draw(DrawSettings::hinted(&inst, false), &mut pen);
                (r.map(|_| ()), pen)
            });
            obs(acc, &mut h, r);
            let mut mem = skdrv::Mem::new(sz, 0);
            acc.count("draws_with_caller_memory");
            let r = acc.call(st_draw, || {
                let mut pen = HashPen::default();
                let r = g.draw(DrawSettings::hinted(&inst, false).with_memory(Some(mem.slice())), &mut pen);
                (r.map(|_| ()), pen)
            });
            obs(acc, &mut h, r);
        }
    }
    acc.observe(h.finish(), any_ok);
}

// ---------------------------------------------------------------------------------------------
// driver
// ---------------------------------------------------------------------------------------------

pub fn items(spec: &Value) -> Option<(Kind, Vec<Item>)> {
    match spec["family"].as_str()? {
        "cffstems" => items_cffstems(spec),
        "cffmisc" => items_cffmisc(spec),
        "cff2blend" => items_cff2blend(spec),
        "cffdict" => items_cffdict(spec),
        "tt" => items_tt(spec),
        "glyf" => items_glyf(spec),
        "scratch" => items_scratch(spec),
        _ => None,
    }
}

/// Human-readable description of item `only` of a case.
pub fn describe(spec: &Value) -> String {
    let Some(idx) = spec["only"].as_u64() else {
        return String::new();
    };
    items(spec)
        .and_then(|(_, v)| v.get(idx as usize).map(|i| i.desc.chars().take(700).collect()))
        .unwrap_or_default()
}

fn exercise_cff(acc: &mut Acc, font_bytes: &[u8], two_locations: bool) {
    let locs: Vec<Vec<NormalizedCoord>> = if two_locations {
        vec![vec![], vec![NormalizedCoord::from_f32(0.5)]]
    } else {
        vec![vec![]]
    };
    for loc in &locs {
        exercise_cff_at(acc, font_bytes, loc);
    }
}

fn exercise_cff_at(acc: &mut Acc, font_bytes: &[u8], loc: &[NormalizedCoord]) {
    let Some(Ok(font)) = acc.call(ST_CFF, || FontRef::new(font_bytes)) else {
        acc.count("font_rejected");
        return;
    };
    let oc = font.outline_glyphs();
    let Some(g) = oc.get(GlyphId::new(1)) else {
        acc.count("glyph_absent");
        return;
    };
    let mut h = Fnv::new();
    let mut any_ok = false;
    let r = acc.call(ST_CFF, || {
        let mut pen = HashPen::default();
        let r = g.draw(DrawSettings::unhinted(Size::unscaled(), LocationRef::new(loc)), &mut pen);
        (r.map(|_| ()), pen)
    });
    let mut obs = |acc: &mut Acc, h: &mut Fnv, r: Option<(Result<(), skrifa::outline::DrawError>, HashPen)>| {
        let Some((r, pen)) = r else { return };
        match r {
            Ok(()) => {
                acc.count("draw_ok");
                any_ok |= pen.n > 0;
                h.byte(1);
                h.u64(pen.h.finish());
            }
            Err(e) => {
                acc.count("draw_err");
                h.byte(2);
                h.str(&format!("{e:?}"));
            }
        }
    };
    obs(acc, &mut h, r);
    for ppem in [13.5f32, 1000.0] {
        let inst = acc.call(ST_CFF, || {
            HintingInstance::new(
                &oc,
                Size::new(ppem),
                LocationRef::new(loc),
                HintingOptions {
                    engine: Engine::Interpreter,
                    target: Target::default(),
                },
            )
        });
        if let Some(Ok(inst)) = inst {
            let r = acc.call(ST_CFF, || {
                let mut pen = HashPen::default();
                let r = g.draw(DrawSettings::hinted(&inst, true), &mut pen);
                (r.map(|_| ()), pen)
            });
            obs(acc, &mut h, r);
        } else {
            h.byte(9);
        }
    }
    acc.observe(h.finish(), any_ok);
}

/// `{"driver":"capfam","family":…,…,"only":idx?,"from":idx?}`
pub fn drive(spec: &Value) -> CaseOut {
    let Some((kind, list)) = items(spec) else {
        return crate::bad_case(format!("bad capfam case {spec}"));
    };
    let mut acc = Acc::new("capfam");
    let only = spec["only"].as_u64();
    let from = spec["from"].as_u64().unwrap_or(0);
    let plan = skdrv::Plan::named("min").unwrap();
    for (idx, item) in list.iter().enumerate() {
        let idx = idx as u64;
        if idx < from || only.map(|o| o != idx).unwrap_or(false) {
            continue;
        }
        set_sub(idx);
        acc.sub_override = Some(idx);
        acc.evals += 1;
        match kind {
            Kind::Cff => exercise_cff(&mut acc, &item.font, false),
            Kind::CffVar => exercise_cff(&mut acc, &item.font, true),
            Kind::Tt => ttprog::exercise(&mut acc, &item.font),
            Kind::Scratch => {
                let part = spec["part"].as_str().unwrap_or("");
                exercise_scratch(&mut acc, &item.font, scratch_gid(part), part == "var")
            }
            Kind::Glyf => {
                // the whole skrifa configuration driver (plan "min") on the synthesised font
                let out = skdrv::run(&item.font, &plan);
                acc.calls += out.calls;
                acc.evals += out.evals;
                for d in &out.digests {
                    acc.observe(*d, out.nontrivial.binary_search(d).is_ok());
                }
                for (k, n) in out.counters {
                    if let Some(k) = ["draw_ok", "draws_with_caller_memory", "instance_ok", "panics"].iter().find(|x| **x == k) {
                        *acc.counters.entry(k).or_insert(0) += n;
                    }
                }
                for mut v in out.viols {
                    v.sub = idx;
                    v.op = v.op.replacen("skrifa: ", "capfam: ", 1);
                    acc.viols.push(v);
                }
            }
        }
    }
    acc.finish()
}

pub fn gen_cases() -> Vec<Value> {
    let mut out = vec![];
    for format in ["cff", "cff2"] {
        for dir in 0..3 {
            for mode in 0..5 {
                for layout in 0..3 {
                    out.push(json!({"driver": "capfam", "family": "cffstems", "format": format, "dir": dir, "mode": mode, "layout": layout}));
                }
            }
        }
        out.push(json!({"driver": "capfam", "family": "cffmisc", "format": format}));
        out.push(json!({"driver": "capfam", "family": "cffdict", "format": format}));
    }
    out.push(json!({"driver": "capfam", "family": "cff2blend"}));
    for g in TT_GROUPS {
        out.push(json!({"driver": "capfam", "family": "tt", "group": g}));
    }
    out.push(json!({"driver": "capfam", "family": "glyf"}));
    for (part, max, chunk) in SCRATCH_PARTS {
        let mut lo = 1;
        while lo <= max {
            let hi = (lo + chunk - 1).min(max);
            out.push(json!({"driver": "capfam", "family": "scratch", "part": part, "lo": lo, "hi": hi}));
            lo = hi + 1;
        }
    }
    out
}

pub fn bounds() -> Value {
    json!({
        "cffstems": {"formats": ["cff", "cff2"], "dirs": STEM_DIRS, "modes": STEM_MODES, "layouts": STEM_LAYOUTS,
            "pairs_n": "0..=110 and 200 (ordered); 90..=100 (overlapping, unsorted)", "ghost_hints": "0..=3, widths -20/-21",
            "placements": PLACEMENTS, "hinted_ppem": [13.5, 1000.0], "capacities": "hint map 192 edges (96 stem pairs; 96 edges before fix 3a05afb), 96 stem hints, 12 mask bytes, 48 operands per stem operator"},
        "cffmisc": {"operand_counts": "stack limit (48 cff / 513 cff2) -2..=+2 before every operator", "subr_chain_depths": "8..=12 local/global/alternating (limit 10)", "seac_endchar": "bchar, achar in {0,1,65,255}, with and without width"},
        "cff2blend": {"region_counts_of_the_large_store": BLEND_REGION_COUNTS, "capacity": "16 precomputed blend scalars", "charstrings": BLEND_CHARSTRINGS,
            "private_dict": BLEND_PRIVATE, "deltas_per_value": "regions -1 / = / +1", "stores": "ivd0 = N regions, ivd1 = 1 region, ivd2 = N regions", "locations": ["default", "wght +0.5"]},
        "cffdict": {"arrays": DICT_ARRAYS.iter().map(|a| format!("{} (capacity {})", a.0, a.2)).collect::<Vec<_>>(), "operand_counts": "0,1,2, capacity-2..=+2, 40, 47, 48, 49",
            "real_numbers": "BlueScale with 1,29..34,64,200 digits in 3 forms (32-byte parse buffer)", "formats": ["cff", "cff2"]},
        "tt": {"groups": TT_GROUPS, "note": "each capacity at -1 / = / +1 plus 0, negative and huge values; fpgm, prep and glyph programs"},
        "scratch": {"parts": SCRATCH_PARTS.iter().map(|p| format!("{}: every count in 1..={} (cases of {})", p.0, p.1, p.2)).collect::<Vec<_>>(), "var_seed": SCRATCH_VAR_SEED,
            "size_class_bounds_crossed": SCRATCH_BOUNDS, "ppem": 16.0,
            "draws_per_item_and_location": "unhinted FreeType + HarfBuzz path styles, interpreter-hinted, auto-hinted; each without caller memory and with caller memory of exactly draw_memory_size",
            "locations": "default; part var also all axes +0.5"},
        "glyf": "points 7/8/9/16 vs maxPoints 8; contours 1/2/3 vs maxContours 2; k=1..3 components vs maxCompositePoints 4k±1 and maxComponentElements k±1; nesting d=1..3 vs maxComponentDepth d±1; all-zero maxp",
    })
}
