//! Driver 5: the klippa subsetter (plan construction + table subsetting) on hostile fonts.
//!
//! Not part of C02's statement (skrifa + IFT client): in C02 every finding of this driver is an
//! *observation* (counted and listed in the evidence, never a violation). It exists so that the strict
//! build (C20, whose statement names "subsetting-plan … operation on any input") drives the same code:
//! there an arithmetic-overflow / debug-assertion panic of this driver is a violation. Findings are
//! recognisable by the driver name: `Viol::op` starts with `"klippa: "`, the case has `"driver":"klippa"`,
//! the phase label is `"klippa"`.
//!
//! Per font case (seed + deviations as in `fontcase`) the product
//!     request ∈ {glyph ids {0,1,2}; the first 3 code points the font maps; everything (all code points +
//!               every glyph id below maxp.numGlyphs)}
//!   × flags ∈ {default, RETAIN_GIDS, NO_HINTING | NOTDEF_OUTLINE}
//! is run through `klippa::Plan::new` and `klippa::subset_font` with the command line tool's defaults for
//! drop tables, layout scripts/features, name ids and languages; an Ok result is re-parsed with FontRef::new.
//! Observed: returns (Ok or Err) within the CPU watchdog, does not panic or abort.

use crate::skdrv::Acc;
use crate::sup::CaseOut;
use klippa::{subset_font, Plan, SubsetFlags, DEFAULT_LAYOUT_FEATURES};
use read_fonts::collections::IntSet;
use read_fonts::types::{GlyphId, NameId, Tag};
use read_fonts::{FontRef, TableProvider};
use skrifa::MetadataProvider;
use vcore::Fnv;

pub const ST_PLAN: usize = 24;
pub const ST_SUBSET: usize = 25;

pub const REQUESTS: [&str; 3] = ["gids {0,1,2}", "first 3 mapped code points", "everything"];
pub const FLAG_SETS: [(&str, u16); 3] = [
    ("default", 0),
    ("RETAIN_GIDS", 0x0002),
    ("NO_HINTING|NOTDEF_OUTLINE", 0x0041),
];

/// Tables whose bytes steer the subsetting plan or are rewritten by it.
pub const TABLE_KINDS: [&str; 22] = [
    "cmap", "maxp", "glyf", "loca", "hmtx", "hhea", "head", "OS/2", "post", "name", "GSUB", "GPOS", "GDEF", "COLR",
    "CPAL", "fvar", "gvar", "HVAR", "avar", "STAT", "cvar", "MATH",
];

pub fn run(data: &[u8]) -> CaseOut {
    let mut acc = Acc::new("klippa");
    let Some(Ok(font)) = acc.call(ST_PLAN, || FontRef::new(data)) else {
        acc.count("fonts_rejected");
        return acc.finish();
    };
    // request ingredients, read through the (already C02-checked) skrifa / read-fonts accessors
    let first_chars: Vec<u32> = acc
        .call(ST_PLAN, || font.charmap().mappings().take(3).map(|(c, _)| c).collect())
        .unwrap_or_default();
    let nglyphs = acc
        .call(ST_PLAN, || font.maxp().map(|m| m.num_glyphs() as u32).unwrap_or(0))
        .unwrap_or(0);
    // the defaults of the klippa command line tool (same as hb-subset's)
    let mut drop_tables = IntSet::<Tag>::empty();
    for t in [
        b"morx", b"mort", b"kerx", b"kern", b"JSTF", b"DSIG", b"EBDT", b"EBLC", b"EBSC", b"SVG ", b"PCLT", b"LTSH",
        b"Feat", b"Glat", b"Gloc", b"Silf", b"Sill",
    ] {
        drop_tables.insert(Tag::new(t));
    }
    let mut name_ids = IntSet::<NameId>::empty();
    name_ids.insert_range(NameId::from(0)..=NameId::from(6));
    let mut name_languages = IntSet::<u16>::empty();
    name_languages.insert(0x0409);
    let mut layout_scripts = IntSet::<Tag>::empty();
    layout_scripts.invert();
    let mut layout_features = IntSet::<Tag>::empty();
    layout_features.extend(DEFAULT_LAYOUT_FEATURES.iter().copied());

    for (ri, _) in REQUESTS.iter().enumerate() {
        let mut gids = IntSet::<GlyphId>::empty();
        let mut unicodes = IntSet::<u32>::empty();
        match ri {
            0 => {
                for g in 0..3u32 {
                    gids.insert(GlyphId::new(g));
                }
            }
            1 => {
                for c in &first_chars {
                    unicodes.insert(*c);
                }
            }
            _ => {
                unicodes.invert();
                if nglyphs > 0 {
                    gids.insert_range(GlyphId::new(0)..=GlyphId::new(nglyphs - 1));
                }
            }
        }
        for (fi, (_, flags)) in FLAG_SETS.iter().enumerate() {
            acc.evals += 1;
            let mut h = Fnv::new();
            h.str("klippa");
            h.u64((ri * 3 + fi) as u64);
            let plan = acc.call(ST_PLAN, || {
                Plan::new(
                    &gids,
                    &unicodes,
                    &font,
                    SubsetFlags::from(*flags),
                    &drop_tables,
                    &layout_scripts,
                    &layout_features,
                    &name_ids,
                    &name_languages,
                )
            });
            let Some(plan) = plan else {
                h.str("plan panicked");
                acc.observe(h.finish(), false);
                continue;
            };
            match acc.call(ST_SUBSET, || subset_font(&font, &plan)) {
                None => {
                    h.str("subset panicked");
                    acc.observe(h.finish(), false);
                }
                Some(Err(e)) => {
                    acc.count("subset_err");
                    h.str(&format!("{e:?}"));
                    acc.observe(h.finish(), false);
                }
                Some(Ok(bytes)) => {
                    acc.count("subset_ok");
                    h.u64(bytes.len() as u64);
                    h.u64(vcore::digest_of(&bytes));
                    let ok = acc.call(ST_SUBSET, || FontRef::new(&bytes).is_ok()).unwrap_or(false);
                    h.byte(ok as u8);
                    acc.observe(h.finish(), ok);
                }
            }
        }
    }
    acc.finish()
}

/// Seeds of the klippa phase: glyf-flavoured corpus fonts of at most `max_size` bytes.
pub fn seed_filter(data: &[u8], max_size: usize) -> bool {
    data.len() <= max_size
        && data.get(0..4) != Some(b"ttcf")
        && crate::fontcase::table_dir(data).iter().any(|(t, _, _)| t == "glyf")
}
