//! Driver 2: exhaustive TrueType program enumeration (DESIGN C02 E.2, probe 17).
//!
//! A 3-glyph TrueType font is synthesised (glyf/loca through write-fonts' GlyfLocaBuilder, the font through
//! FontBuilder; head/hhea/maxp/hmtx/cvt are fixed-layout byte strings written here). One of its three
//! program slots — `fpgm`, `prep` or the instructions of glyph 1 — holds `prelude ++ sequence`, where
//! `sequence` ranges over *every* opcode string of length 1..=n over all 256 byte values (plus the empty one)
//! and `prelude` over `PRELUDES` (stack contents at the start of the sequence). The two other slots hold
//! fixed default programs (`DEFAULT_FPGM` defines a self-recursive function 0, an empty function 1 and a
//! popping function 2; the default prep and glyph programs call function 1). `maxp` limits come from
//! `MAXP_SETTINGS`. Every font is hinted with the interpreter at `SIZES × TARGETS` (HintingInstance::new runs
//! fpgm+prep) and glyphs 1 and 2 are drawn with pedantic ∈ {false,true}.
//!
//! A case is a batch: (slot, prelude, maxp, first opcode o1, n) = the programs [o1], [o1,x], [o1,x,y]…;
//! `SUB` holds the index of the program inside the batch, so a stall/abort names the exact program and the
//! replay case (`"only": index`) re-executes just that one.
//!
//! Oracle: every call returns within the watchdog (the interpreter's instruction budget makes each program
//! finite) and none panics.

use crate::skdrv::{Acc, HashPen};
use crate::sup::{set_sub, CaseOut};
use read_fonts::FontRef;
use serde_json::{json, Value};
use skrifa::instance::{LocationRef, Size};
use skrifa::outline::{DrawSettings, Engine, HintingInstance, HintingOptions, Target};
use skrifa::raw::types::GlyphId;
use skrifa::MetadataProvider;
use vcore::Fnv;
use read_fonts::tables::glyf::CurvePoint;
use write_fonts::tables::glyf::{Bbox, Contour, GlyfLocaBuilder, Glyph, SimpleGlyph};
use write_fonts::tables::loca::LocaFormat;
use write_fonts::{dump_table, FontBuilder};

pub const SLOTS: [&str; 3] = ["fpgm", "prep", "glyph"];

/// PUSHB[n-1] b…  /  PUSHW[n-1] w…
pub fn pushb(v: &[u8]) -> Vec<u8> {
    let mut o = vec![0xB0 + (v.len() as u8 - 1)];
    o.extend_from_slice(v);
    o
}
pub fn pushw(v: &[i16]) -> Vec<u8> {
    let mut o = vec![0xB8 + (v.len() as u8 - 1)];
    for w in v {
        o.extend_from_slice(&w.to_be_bytes());
    }
    o
}

/// Stack preludes (top of stack is the *last* value pushed). Point count of glyph 1 is 3 (+4 phantom = 7),
/// cvt length is 4: the small mixed prelude puts indices on, just inside and just outside those bounds.
/// Indices `0..N_BASE_PRELUDES` are the general preludes; the rest are the ppem-coupled delta preludes
/// (`delta_preludes`). The order is fixed: a case names its prelude by index.
pub fn preludes() -> Vec<(String, Vec<u8>)> {
    let mut v: Vec<(String, Vec<u8>)> = vec![
        ("empty stack".into(), vec![]),
        ("8 x 0".into(), pushb(&[0; 8])),
        ("8 x 1".into(), pushb(&[1; 8])),
        ("8 x -1".into(), pushw(&[-1; 8])),
        ("7,4,3,2,64,0,1,2 (point_count, cvt_len, indices)".into(), pushb(&[7, 4, 3, 2, 64, 0, 1, 2])),
        ("0x7FFF,-0x8000,-1,0,1,8,0x7FFF,-0x8000".into(), pushw(&[0x7FFF, -0x8000, -1, 0, 1, 8, 0x7FFF, -0x8000])),
    ];
    debug_assert_eq!(v.len(), N_BASE_PRELUDES);
    v.extend(delta_preludes());
    v
}

pub const N_BASE_PRELUDES: usize = 6;

/// Top-of-stack operands of the delta preludes (consumed by a preceding one-pop opcode such as SDS / SDB).
pub const DELTA_TOPS: [i16; 5] = [-1, 0, 6, 7, 0x7FFF];

/// Exception-pair configurations of the delta preludes: (pairs as (magnitude nibble m, index), count n).
/// Together they cover m in {0, 7, 8, 15}, index in {0, 1 (valid point and cvt index), 200 (out of range)}
/// and n in {1, 2}.
pub const DELTA_CONFIGS: [(&[(u8, i16)], i16); 3] = [
    (&[(15, 1), (0, 0)], 2),
    (&[(7, 200), (8, 1)], 2),
    (&[(8, 0)], 1),
];

/// **ppem-coupled delta preludes.** A DELTAP/DELTAC exception only fires when the high nibble of its
/// argument selects exactly the instance's ppem (`ppem == delta_base(9) + nibble` for DELTAx1). For every
/// hinting size of `SIZES` whose integer ppem lies in 9..=24 and every (configuration, top) of
/// `DELTA_CONFIGS x DELTA_TOPS` the prelude leaves on the stack, bottom to top:
///     arg_1, index_1, [arg_2, index_2,] n, top          with arg_i = ((ppem - 9) << 4) | m_i
/// so that `[X, DELTA*1]` executes a *firing* exception after X consumed `top` (X = SDS/SDB/… one-pop
/// opcodes; any other X simply explores a different behaviour), and `[DELTA*1, Y]`… see the count `top`.
pub fn delta_preludes() -> Vec<(String, Vec<u8>)> {
    let mut out = vec![];
    for size in SIZES {
        let ppem = size as i32; // the interpreter's integer ppem (HintingInstance: `ppem as i32`)
        if !(9..=24).contains(&ppem) {
            continue;
        }
        for (pairs, n) in DELTA_CONFIGS {
            for top in DELTA_TOPS {
                let mut vals: Vec<i16> = vec![];
                for (m, index) in pairs {
                    vals.push((((ppem - 9) << 4) as i16) | *m as i16);
                    vals.push(*index);
                }
                vals.push(n);
                vals.push(top);
                out.push((format!("delta@{ppem}ppem: (arg,index)x{} n={n} top={top}: {vals:?}", pairs.len()), pushw(&vals)));
            }
        }
    }
    out
}

/// Indices (into `preludes()`) of the ppem-coupled delta preludes.
pub fn delta_prelude_indices() -> Vec<usize> {
    (N_BASE_PRELUDES..N_BASE_PRELUDES + delta_preludes().len()).collect()
}

/// maxp limit settings: (name, [maxZones, maxTwilightPoints, maxStorage, maxFunctionDefs, maxInstructionDefs,
/// maxStackElements, maxSizeOfInstructions])
pub const MAXP_SETTINGS: [(&str, [u16; 7]); 3] = [
    ("small", [2, 4, 8, 4, 2, 32, 64]),
    ("zero", [0, 0, 0, 0, 0, 0, 0]),
    ("one", [1, 1, 1, 1, 1, 1, 1]),
];

/// FDEF 0 { PUSHB 0; CALL }  FDEF 1 { }  FDEF 2 { POP }
pub const DEFAULT_FPGM: [u8; 18] = [
    0xB0, 0, 0x2C, 0xB0, 0, 0x2B, 0x2D, // PUSHB 0 FDEF PUSHB 0 CALL ENDF
    0xB0, 1, 0x2C, 0x2D, // PUSHB 1 FDEF ENDF
    0xB0, 2, 0x2C, 0x21, 0x2D, // PUSHB 2 FDEF POP ENDF
    0x4F, 0x4F, // DEBUG DEBUG (ignored opcodes; keeps the table non-trivial at its end)
];
/// PUSHB 1 CALL
pub const DEFAULT_CALL: [u8; 3] = [0xB0, 1, 0x2B];

pub const SIZES: [f32; 2] = [13.5, 0.0];

pub fn targets() -> [Target; 2] {
    [Target::Mono, Target::default()]
}

fn be16(v: &mut Vec<u8>, x: u16) {
    v.extend_from_slice(&x.to_be_bytes())
}
fn bei16(v: &mut Vec<u8>, x: i16) {
    v.extend_from_slice(&x.to_be_bytes())
}

fn head(loca_long: bool) -> Vec<u8> {
    let mut v = vec![];
    v.extend_from_slice(&0x0001_0000u32.to_be_bytes());
    v.extend_from_slice(&0u32.to_be_bytes());
    v.extend_from_slice(&0u32.to_be_bytes());
    v.extend_from_slice(&0x5F0F_3CF5u32.to_be_bytes());
    be16(&mut v, 0);
    be16(&mut v, 1000);
    v.extend_from_slice(&[0; 16]);
    for b in [0i16, 0, 600, 700] {
        bei16(&mut v, b);
    }
    be16(&mut v, 0);
    be16(&mut v, 6);
    bei16(&mut v, 2);
    bei16(&mut v, loca_long as i16);
    bei16(&mut v, 0);
    v
}
fn hhea(n: u16) -> Vec<u8> {
    let mut v = vec![];
    v.extend_from_slice(&0x0001_0000u32.to_be_bytes());
    for x in [800i16, -200, 0] {
        bei16(&mut v, x);
    }
    be16(&mut v, 600);
    for x in [0i16, 0, 600, 1, 0, 0, 0, 0, 0, 0, 0] {
        bei16(&mut v, x);
    }
    be16(&mut v, n);
    v
}
fn maxp(n: u16, lim: &[u16; 7]) -> Vec<u8> {
    let mut v = vec![];
    v.extend_from_slice(&0x0001_0000u32.to_be_bytes());
    be16(&mut v, n);
    for x in [8u16, 2, 8, 2] {
        be16(&mut v, x);
    }
    for x in lim {
        be16(&mut v, *x);
    }
    be16(&mut v, 1);
    be16(&mut v, 1);
    v
}
fn hmtx(n: u16) -> Vec<u8> {
    let mut v = vec![];
    for _ in 0..n {
        be16(&mut v, 600);
        bei16(&mut v, 0);
    }
    v
}

fn contour(pts: &[(i16, i16, bool)]) -> Contour {
    let pts: Vec<CurvePoint> = pts.iter().map(|(x, y, on)| CurvePoint::new(*x, *y, *on)).collect();
    pts.into()
}

/// glyf + loca for: glyph 0 empty, glyph 1 triangle (3 points) with `prog1`, glyph 2 quad-ish (4 points, one
/// off-curve) with the default call program.
fn glyf_loca(prog1: &[u8]) -> (Vec<u8>, Vec<u8>, bool) {
    let g1 = SimpleGlyph {
        bbox: Bbox {
            x_min: 0,
            y_min: 0,
            x_max: 500,
            y_max: 700,
        },
        contours: vec![contour(&[(0, 0, true), (500, 0, true), (250, 700, true)])],
        instructions: prog1.to_vec(),
    };
    let g2 = SimpleGlyph {
        bbox: Bbox {
            x_min: 10,
            y_min: 10,
            x_max: 600,
            y_max: 600,
        },
        contours: vec![contour(&[(10, 10, true), (600, 10, true), (600, 600, false), (10, 600, true)])],
        instructions: DEFAULT_CALL.to_vec(),
    };
    let mut b = GlyfLocaBuilder::new();
    b.add_glyph(&Glyph::Empty).unwrap();
    b.add_glyph(&g1).unwrap();
    b.add_glyph(&g2).unwrap();
    let (glyf, loca, fmt) = b.build();
    (
        dump_table(&glyf).unwrap(),
        dump_table(&loca).unwrap(),
        matches!(fmt, LocaFormat::Long),
    )
}

pub struct FontParts {
    hhea: Vec<u8>,
    hmtx: Vec<u8>,
    cvt: Vec<u8>,
    default_glyf: (Vec<u8>, Vec<u8>, bool),
}

impl FontParts {
    pub fn new() -> Self {
        let mut cvt = vec![];
        for x in [0i16, 100, -100, 700] {
            bei16(&mut cvt, x);
        }
        FontParts {
            hhea: hhea(3),
            hmtx: hmtx(3),
            cvt,
            default_glyf: glyf_loca(&DEFAULT_CALL),
        }
    }
    /// The font with explicit fpgm, prep and glyph-1 programs.
    pub fn build3(&self, fpgm: &[u8], prep: &[u8], glyph: &[u8], lim: &[u16; 7]) -> Vec<u8> {
        let (glyf, loca, long) = glyf_loca(glyph);
        let mut fb = FontBuilder::new();
        use skrifa::Tag;
        fb.add_raw(Tag::new(b"head"), head(long));
        fb.add_raw(Tag::new(b"hhea"), self.hhea.clone());
        fb.add_raw(Tag::new(b"maxp"), maxp(3, lim));
        fb.add_raw(Tag::new(b"hmtx"), self.hmtx.clone());
        fb.add_raw(Tag::new(b"cvt "), self.cvt.clone());
        fb.add_raw(Tag::new(b"fpgm"), fpgm.to_vec());
        fb.add_raw(Tag::new(b"prep"), prep.to_vec());
        fb.add_raw(Tag::new(b"loca"), loca);
        fb.add_raw(Tag::new(b"glyf"), glyf);
        fb.build()
    }
    /// The font whose `slot` holds `program`.
    pub fn build(&self, slot: usize, program: &[u8], lim: &[u16; 7]) -> Vec<u8> {
        let own;
        let (glyf, loca, long) = if slot == 2 {
            own = glyf_loca(program);
            (&own.0, &own.1, own.2)
        } else {
            (&self.default_glyf.0, &self.default_glyf.1, self.default_glyf.2)
        };
        let mut fb = FontBuilder::new();
        use skrifa::Tag;
        fb.add_raw(Tag::new(b"head"), head(long));
        fb.add_raw(Tag::new(b"hhea"), self.hhea.clone());
        fb.add_raw(Tag::new(b"maxp"), maxp(3, lim));
        fb.add_raw(Tag::new(b"hmtx"), self.hmtx.clone());
        fb.add_raw(Tag::new(b"cvt "), self.cvt.clone());
        fb.add_raw(Tag::new(b"fpgm"), if slot == 0 { program.to_vec() } else { DEFAULT_FPGM.to_vec() });
        fb.add_raw(Tag::new(b"prep"), if slot == 1 { program.to_vec() } else { DEFAULT_CALL.to_vec() });
        fb.add_raw(Tag::new(b"loca"), loca.clone());
        fb.add_raw(Tag::new(b"glyf"), glyf.clone());
        fb.build()
    }
}

impl Default for FontParts {
    fn default() -> Self {
        Self::new()
    }
}

/// Number of programs in a batch with first opcode fixed and maximal length n (n >= 1), plus the empty
/// program when `with_empty`.
pub fn batch_len(n: u32) -> u64 {
    (0..n).map(|k| 256u64.pow(k)).sum()
}

/// The `idx`-th sequence of the batch of first opcode `o1`: [o1], then [o1,x] for x in 0..256, then [o1,x,y]…
pub fn batch_program(o1: u8, idx: u64) -> Vec<u8> {
    let mut len = 1u32;
    let mut base = 0u64;
    loop {
        let count = 256u64.pow(len - 1);
        if idx < base + count {
            let mut rest = idx - base;
            let mut tail = vec![0u8; (len - 1) as usize];
            for t in tail.iter_mut().rev() {
                *t = (rest % 256) as u8;
                rest /= 256;
            }
            let mut p = vec![o1];
            p.extend(tail);
            return p;
        }
        base += count;
        len += 1;
    }
}

pub const ST_NEW: usize = 13;
pub const ST_DRAW: usize = 14;

/// Hint one synthesised font in every configuration; returns a digest of all result shapes.
pub fn exercise(acc: &mut Acc, font_bytes: &[u8]) {
    let Some(Ok(font)) = acc.call(ST_NEW, || FontRef::new(font_bytes)) else {
        acc.count("font_rejected");
        return;
    };
    let oc = font.outline_glyphs();
    let g1 = oc.get(GlyphId::new(1));
    let g2 = oc.get(GlyphId::new(2));
    let mut h = Fnv::new();
    let mut any_ok = false;
    for (si, size) in SIZES.iter().enumerate() {
        for (ti, target) in targets().iter().enumerate() {
            let inst = acc.call(ST_NEW, || {
                HintingInstance::new(
                    &oc,
                    Size::new(*size),
                    LocationRef::default(),
                    HintingOptions {
                        engine: Engine::Interpreter,
                        target: *target,
                    },
                )
            });
            h.u64((si * 2 + ti) as u64);
            let inst = match inst {
                None => continue,
                Some(Err(e)) => {
                    acc.count("instance_err");
                    h.str(&format!("{e:?}"));
                    continue;
                }
                Some(Ok(i)) => i,
            };
            acc.count("instance_ok");
            h.byte(inst.is_enabled() as u8);
            for g in [&g1, &g2].into_iter().flatten() {
                for ped in [false, true] {
                    let r = acc.call(ST_DRAW, || {
                        let mut pen = HashPen::default();
                        let r = g.draw(DrawSettings::hinted(&inst, ped), &mut pen);
                        (r, pen)
                    });
                    let Some((r, pen)) = r else { continue };
                    match r {
                        Ok(m) => {
                            acc.count("draw_ok");
                            any_ok |= pen.n > 0;
                            h.byte(1);
                            h.u64(pen.h.finish());
                            h.u64(m.advance_width.map(f32::to_bits).unwrap_or(0) as u64);
                        }
                        Err(e) => {
                            acc.count("draw_err");
                            h.byte(2);
                            h.str(&format!("{e:?}"));
                        }
                    }
                }
            }
        }
    }
    acc.observe(h.finish(), any_ok);
}

/// `{"driver":"ttprog","slot":0..3,"prelude":i,"maxp":j,"o1":b,"n":len,"only":idx?}`
/// `"o1": null` is the batch holding only the empty sequence (the bare prelude).
pub fn drive(spec: &Value) -> CaseOut {
    let slot = spec["slot"].as_u64().unwrap_or(99) as usize;
    let pi = spec["prelude"].as_u64().unwrap_or(99) as usize;
    let mi = spec["maxp"].as_u64().unwrap_or(99) as usize;
    let n = spec["n"].as_u64().unwrap_or(1) as u32;
    let pre = preludes();
    if slot >= 3 || pi >= pre.len() || mi >= MAXP_SETTINGS.len() || n == 0 || n > 4 {
        return crate::bad_case(format!("bad ttprog case {spec}"));
    }
    let parts = FontParts::new();
    let mut acc = Acc::new("ttprog");
    let lim = &MAXP_SETTINGS[mi].1;
    let one = |acc: &mut Acc, idx: u64, seq: &[u8]| {
        set_sub(idx);
        acc.sub_override = Some(idx);
        let mut program = pre[pi].1.clone();
        program.extend_from_slice(seq);
        let font = parts.build(slot, &program, lim);
        acc.evals += 1;
        exercise(acc, &font);
    };
    match spec["o1"].as_u64() {
        None => one(&mut acc, 0, &[]),
        Some(o1) => {
            let o1 = o1 as u8;
            match spec["only"].as_u64() {
                Some(idx) => one(&mut acc, idx, &batch_program(o1, idx)),
                None => {
                    for idx in spec["from"].as_u64().unwrap_or(0)..batch_len(n) {
                        one(&mut acc, idx, &batch_program(o1, idx));
                    }
                }
            }
        }
    }
    acc.finish()
}

/// Case generator: slots × preludes[..np] × maxp[..nm] × (empty + 256 first opcodes), sequences up to length n.
pub fn gen_cases(n: u32, preludes_used: &[usize], maxp_used: &[usize]) -> Vec<Value> {
    let mut out = vec![];
    for slot in 0..3 {
        for &pi in preludes_used {
            for &mi in maxp_used {
                out.push(json!({"driver": "ttprog", "slot": slot, "prelude": pi, "maxp": mi, "o1": Value::Null, "n": n}));
                for o1 in 0..256 {
                    out.push(json!({"driver": "ttprog", "slot": slot, "prelude": pi, "maxp": mi, "o1": o1, "n": n}));
                }
            }
        }
    }
    out
}

/// The exact program bytes of a (possibly narrowed) case, for reports.
pub fn describe(spec: &Value) -> String {
    let pre = preludes();
    let pi = spec["prelude"].as_u64().unwrap_or(0) as usize;
    let mut p = pre.get(pi).map(|p| p.1.clone()).unwrap_or_default();
    if let (Some(o1), Some(idx)) = (spec["o1"].as_u64(), spec["only"].as_u64()) {
        p.extend(batch_program(o1 as u8, idx));
    }
    format!(
        "slot={} maxp={} program={}",
        SLOTS.get(spec["slot"].as_u64().unwrap_or(0) as usize).unwrap_or(&"?"),
        MAXP_SETTINGS.get(spec["maxp"].as_u64().unwrap_or(0) as usize).map(|m| m.0).unwrap_or("?"),
        vcore::hex(&p)
    )
}
