//! The real shared-brotli decoder (`BuiltInBrotliDecoder::decode`, the anchor shared-brotli-patch-decoder/src)
//! on hostile streams, dictionaries and output bounds. The IFT phases use the Noop / fail-at-k decoders only.
//!
//! Enumerated (fixed order): two known-good streams of the crate's own tests (with / without shared dictionary)
//!   part 0..=7  every position x every byte value 0..=255 x 4 dictionaries (none, the right one, empty, a wrong
//!               one of the same length), bound = exact output length            (index mod 8 = part)
//!   part 8      every prefix length 0..=len and 1..=4 appended bytes {00, FF} x 4 dictionaries x 7 bounds
//!   part 9      the intact streams x 4 dictionaries x bounds {0, 1, len-1, len, len+1, 4096, 2^24, 2^31, u32::MAX}
//!               (u32::MAX is the largest value a patch header can carry; the worker's address space is limited
//!               to 6 GiB by the supervisor machinery, core dumps are off)
//!   part 10     the same x bound usize::MAX / 2 (beyond any allocator limit)
//!   part 11     the same x bound usize::MAX
//! Oracle: no panic / abort / stall. Identities: the two failure classes known on the unchanged tree (abort for
//! the bound of part 10, `capacity overflow` panic for the bound of part 11) have their own identity; the same
//! symptom for any other bound, and every other failure, is named differently (see `main.rs` / `drive`). Case: `{"driver":"brotli","part":p,"only":idx?,"from":idx?}`.
use crate::skdrv::Acc;
use crate::sup::{set_sub, CaseOut};
use serde_json::{json, Value};
use shared_brotli_patch_decoder::{BuiltInBrotliDecoder, SharedBrotliDecoder};
use vcore::Fnv;

pub const ST_BROTLI: usize = 36;
const TARGET_LEN: usize = 29;
const BASE: &[u8] = b"abcdef\n";
const WRONG: &[u8] = b"zzzzzz\n";
const SHARED_DICT_PATCH: [u8; 23] = [
    0xa1, 0xe0, 0x00, 0xc0, 0x2f, 0x3a, 0x38, 0xf4, 0x01, 0xd1, 0xaf, 0x54, 0x84, 0x14, 0x71, 0x2a, 0x80, 0x04, 0xa2, 0x1c, 0xd3, 0xdd, 0x07,
];
const NO_DICT_PATCH: [u8; 26] = [
    0xa1, 0xe0, 0x00, 0xc0, 0x2f, 0x96, 0x1c, 0xf3, 0x03, 0xb1, 0xcf, 0x45, 0x95, 0x22, 0x4a, 0xc5, 0x03, 0x21, 0xb2, 0x9a, 0x58, 0xd4, 0x7c, 0xf6, 0x1e, 0x00,
];
pub const DICTS: [&str; 4] = ["none", "abcdef\\n (right for stream 0)", "empty", "zzzzzz\\n"];
pub const SMALL_BOUNDS: [usize; 7] = [0, 1, TARGET_LEN - 1, TARGET_LEN, TARGET_LEN + 1, 4096, 1 << 20];
pub const BIG_BOUNDS: [usize; 9] = [0, 1, TARGET_LEN - 1, TARGET_LEN, TARGET_LEN + 1, 4096, 1 << 24, 1 << 31, u32::MAX as usize];
/// part of the bound beyond any allocator limit (abort known on the unchanged tree)
pub const PART_HALF_MAX: u64 = 10;
/// part of the bound usize::MAX (`capacity overflow` panic known on the unchanged tree)
pub const PART_MAX: u64 = 11;

fn dict(k: usize) -> Option<&'static [u8]> {
    match k {
        0 => None,
        1 => Some(BASE),
        2 => Some(&[]),
        _ => Some(WRONG),
    }
}
fn stream(k: usize) -> Vec<u8> {
    if k == 0 {
        SHARED_DICT_PATCH.to_vec()
    } else {
        NO_DICT_PATCH.to_vec()
    }
}

pub struct Item {
    pub desc: String,
    pub data: Vec<u8>,
    pub dict: usize,
    pub bound: usize,
}

pub fn items(part: u64) -> Vec<Item> {
    let mut out = vec![];
    if part < 8 {
        let mut i = 0u64;
        for s in 0..2 {
            let base = stream(s);
            for pos in 0..base.len() {
                for v in 0..=255u8 {
                    for d in 0..4 {
                        if i % 8 == part && v != base[pos] {
                            let mut data = base.clone();
                            data[pos] = v;
                            out.push(Item { desc: format!("stream {s} byte {pos} = {v:#04x}, dictionary {}, bound {TARGET_LEN}", DICTS[d]), data, dict: d, bound: TARGET_LEN });
                        }
                        i += 1;
                    }
                }
            }
        }
    } else if part == 8 {
        for s in 0..2 {
            let base = stream(s);
            let mut shapes: Vec<(String, Vec<u8>)> = (0..=base.len()).map(|l| (format!("first {l} bytes"), base[..l].to_vec())).collect();
            for n in 1..=4 {
                for fill in [0u8, 0xFF] {
                    let mut d = base.clone();
                    d.extend(std::iter::repeat(fill).take(n));
                    shapes.push((format!("{n} bytes {fill:#04x} appended"), d));
                }
            }
            for (what, data) in shapes {
                for d in 0..4 {
                    for b in SMALL_BOUNDS {
                        out.push(Item { desc: format!("stream {s} {what}, dictionary {}, bound {b}", DICTS[d]), data: data.clone(), dict: d, bound: b });
                    }
                }
            }
        }
    } else {
        let bounds: Vec<usize> = match part {
            PART_HALF_MAX => vec![usize::MAX / 2],
            PART_MAX => vec![usize::MAX],
            _ => BIG_BOUNDS.to_vec(),
        };
        for s in 0..2 {
            for d in 0..4 {
                for &b in &bounds {
                    out.push(Item { desc: format!("intact stream {s}, dictionary {}, bound {b}", DICTS[d]), data: stream(s), dict: d, bound: b });
                }
            }
        }
    }
    out
}

pub fn describe(spec: &Value) -> String {
    let (Some(part), Some(idx)) = (spec["part"].as_u64(), spec["only"].as_u64()) else {
        return String::new();
    };
    items(part).get(idx as usize).map(|i| i.desc.clone()).unwrap_or_default()
}

pub fn drive(spec: &Value) -> CaseOut {
    let Some(part) = spec["part"].as_u64().filter(|p| *p <= PART_MAX) else {
        return crate::bad_case(format!("bad brotli case {spec}"));
    };
    let mut acc = Acc::new("brotli");
    let only = spec["only"].as_u64();
    let from = spec["from"].as_u64().unwrap_or(0);
    for (idx, it) in items(part).into_iter().enumerate() {
        let idx = idx as u64;
        if idx < from || only.map(|o| o != idx).unwrap_or(false) {
            continue;
        }
        set_sub(idx);
        acc.sub_override = Some(idx);
        acc.evals += 1;
        // guarded by hand: the output-bound pre-allocation panic gets a toolchain-independent identity
        acc.calls += 1;
        crate::sup::mark(ST_BROTLI, idx);
        let r = match vcore::guard(|| BuiltInBrotliDecoder.decode(&it.data, dict(it.dict), it.bound)) {
            Ok(r) => Some(r),
            Err(p) if p.message.contains("capacity overflow") && part == PART_MAX => {
                acc.viol("output-bound pre-allocation panics (capacity overflow)", ST_BROTLI, format!("panic: {} at {}:{} for {}", p.message, p.file, p.line, it.desc), None);
                None
            }
            Err(p) => {
                let what = format!("panic: {} at {}:{}", p.message, p.file, p.line);
                acc.viol("panic", ST_BROTLI, what, Some(p));
                None
            }
        };
        if let Some(r) = r {
            let mut h = Fnv::new();
            h.str("brotli");
            let ok = r.is_ok();
            match r {
                Ok(v) => {
                    acc.count("decoded_ok");
                    h.u64(v.len() as u64);
                    h.bytes(&v);
                }
                Err(e) => h.str(&format!("{e:?}")),
            }
            acc.observe(h.finish(), ok);
        }
    }
    acc.finish()
}

pub fn gen_cases() -> Vec<Value> {
    (0..=PART_MAX).map(|p| json!({"driver": "brotli", "part": p})).collect()
}

pub fn bounds() -> Value {
    json!({"streams": ["23-byte stream against dictionary abcdef\\n", "26-byte stream without dictionary"], "output_length": TARGET_LEN,
        "dictionaries": DICTS, "byte_deviations": "every position x every value", "prefixes": "every length", "appended": "1..=4 bytes of 00 / FF",
        "bounds_small": SMALL_BOUNDS, "bounds_intact": BIG_BOUNDS.iter().map(|b| b.to_string()).chain(["usize::MAX/2".to_string(), "usize::MAX".to_string()]).collect::<Vec<_>>(),
        "items": (0..=PART_MAX).map(|p| items(p).len()).collect::<Vec<_>>()})
}
