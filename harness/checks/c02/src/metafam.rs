//! METADATA boundary families: every non-outline public skrifa API (`MetadataProvider`: localized_strings,
//! glyph_names, axes / named_instances, metrics / glyph_metrics, charmap (+ `MappingIndex` route), attributes;
//! `FontRef::new` / `FontRef::from_index`) on hand-assembled minimal fonts whose counts / lengths / indices sit
//! at {0, 1, cap-1, cap, cap+1, max} of every fixed capacity and every table-declared bound.
//!
//! A case is `{"driver":"metafam","family":<name>,"part":k,"parts":P,"only":idx?,"from":idx?}`; the items of a
//! family are a mixed-radix product (fixed order, `item(family, idx)`), part k executes the indices ≡ k mod P.
//! Oracle: no call panics / aborts / stalls (worker watchdog); `MappingIndex::new(font).charmap(font)` agrees with
//! `Charmap::new(font)` (the documented cached route) on has_map / is_symbol / has_variant_map / map(c);
//! `GlyphNames::get(g)` agrees with `GlyphNames::iter()` for the glyph ids the iterator yields;
//! `GlyphMetrics::advance_width` / `left_side_bearing` are None for glyph ids >= `glyph_count()` (documented).

use crate::skdrv::{self, Acc};
use crate::sup::set_sub;
use crate::sup::CaseOut;
use read_fonts::FontRef;
use serde_json::{json, Value};
use skrifa::charmap::{Charmap, MappingIndex};
use skrifa::instance::{LocationRef, NormalizedCoord, Size};
use skrifa::raw::types::GlyphId;
use skrifa::string::StringId;
use skrifa::MetadataProvider;
use vcore::Fnv;

pub const ST_STR: usize = 30;
pub const ST_NAMES: usize = 31;
pub const ST_VAR: usize = 32;
pub const ST_METRICS: usize = 33;
pub const ST_CMAP2: usize = 34;
pub const ST_FONTREF: usize = 35;

// ---------------------------------------------------------------------------------------------
// byte helpers / sfnt assembler
// ---------------------------------------------------------------------------------------------

pub(crate) fn w16(v: &mut Vec<u8>, x: u16) {
    v.extend_from_slice(&x.to_be_bytes());
}
pub(crate) fn w32(v: &mut Vec<u8>, x: u32) {
    v.extend_from_slice(&x.to_be_bytes());
}
fn wi16(v: &mut Vec<u8>, x: i16) {
    v.extend_from_slice(&x.to_be_bytes());
}

/// Plain sfnt: table records sorted by tag, 4-byte aligned data, no checksums (not verified by read-fonts).
pub fn sfnt(tables: &[(&[u8; 4], Vec<u8>)]) -> Vec<u8> {
    let mut t: Vec<&(&[u8; 4], Vec<u8>)> = tables.iter().collect();
    t.sort_by_key(|x| *x.0);
    let mut out = vec![0, 1, 0, 0];
    w16(&mut out, t.len() as u16);
    out.extend_from_slice(&[0; 6]);
    let mut off = 12 + 16 * t.len();
    for (tag, d) in t.iter().map(|x| (x.0, &x.1)) {
        out.extend_from_slice(&tag[..]);
        w32(&mut out, 0);
        w32(&mut out, off as u32);
        w32(&mut out, d.len() as u32);
        off += (d.len() + 3) & !3;
    }
    for x in &t {
        out.extend_from_slice(&x.1);
        while out.len() % 4 != 0 {
            out.push(0);
        }
    }
    out
}

pub fn head(upem: u16, mac_style: u16) -> Vec<u8> {
    let mut v = vec![];
    w32(&mut v, 0x0001_0000);
    w32(&mut v, 0x0001_0000);
    w32(&mut v, 0);
    w32(&mut v, 0x5F0F_3CF5);
    w16(&mut v, 0);
    w16(&mut v, upem);
    v.extend_from_slice(&[0; 16]);
    for x in [-100i16, -200, 900, 800] {
        wi16(&mut v, x);
    }
    w16(&mut v, mac_style);
    w16(&mut v, 8);
    wi16(&mut v, 2);
    wi16(&mut v, 0);
    wi16(&mut v, 0);
    v
}
pub fn maxp(n: u16) -> Vec<u8> {
    let mut v = vec![0, 0, 0x50, 0];
    w16(&mut v, n);
    v
}
pub fn hhea(asc: i16, desc: i16, gap: i16, n_hmetrics: u16) -> Vec<u8> {
    let mut v = vec![];
    w32(&mut v, 0x0001_0000);
    wi16(&mut v, asc);
    wi16(&mut v, desc);
    wi16(&mut v, gap);
    w16(&mut v, 1000);
    v.extend_from_slice(&[0; 22]);
    w16(&mut v, n_hmetrics);
    v
}
pub fn hmtx(n_long: usize, n_lsb: usize) -> Vec<u8> {
    let mut v = vec![];
    for i in 0..n_long {
        w16(&mut v, 500u16.wrapping_add(i as u16));
        wi16(&mut v, 10i16.wrapping_add(i as i16));
    }
    for i in 0..n_lsb {
        wi16(&mut v, (i as i16).wrapping_neg().wrapping_sub(1));
    }
    v
}

/// The shell every family starts from: head / maxp / hhea / hmtx for `n` glyphs.
pub fn shell(n: u16) -> Vec<(&'static [u8; 4], Vec<u8>)> {
    vec![
        (b"head", head(1000, 0)),
        (b"maxp", maxp(n)),
        (b"hhea", hhea(800, -200, 90, n)),
        (b"hmtx", hmtx(n as usize, 0)),
    ]
}

pub fn decode(mut idx: u64, radices: &[usize]) -> Vec<usize> {
    // last radix varies fastest
    let mut out = vec![0; radices.len()];
    for (o, r) in out.iter_mut().zip(radices).rev() {
        *o = (idx % *r as u64) as usize;
        idx /= *r as u64;
    }
    out
}
pub fn product(radices: &[usize]) -> u64 {
    radices.iter().map(|r| *r as u64).product()
}

pub struct Item {
    pub desc: String,
    pub font: Vec<u8>,
    /// extra string ids to query
    pub ids: Vec<u16>,
    /// collection indices to open with `FontRef::from_index` (empty: `FontRef::new`)
    pub indices: Vec<u32>,
    /// 0: metadata only; 1: also the CFF draw sweep of `cffprog::exercise`; 2: the CFF2 one of `cff2prog::exercise`
    pub draw: u8,
}
impl Item {
    pub fn new(desc: String, font: Vec<u8>) -> Item {
        Item { desc, font, ids: vec![], indices: vec![], draw: 0 }
    }
}

// ---------------------------------------------------------------------------------------------
// family "name": language tags around the 30-byte inline capacity, string decoding per platform/encoding
// ---------------------------------------------------------------------------------------------

pub struct NameRec {
    pub platform: u16,
    pub encoding: u16,
    pub language: u16,
    pub name_id: u16,
    pub length: u16,
    pub offset: u16,
}

/// `storage_delta`: added to the correct storage offset.
pub fn name_table(version: u16, recs: &[NameRec], lang_tags: Option<&[(u16, u16)]>, storage: &[u8], storage_delta: i32) -> Vec<u8> {
    let mut v = vec![];
    w16(&mut v, version);
    w16(&mut v, recs.len() as u16);
    let hdr = 6 + 12 * recs.len() + lang_tags.map(|l| 2 + 4 * l.len()).unwrap_or(0);
    w16(&mut v, (hdr as i32 + storage_delta).clamp(0, 0xFFFF) as u16);
    for r in recs {
        for x in [r.platform, r.encoding, r.language, r.name_id, r.length, r.offset] {
            w16(&mut v, x);
        }
    }
    if let Some(l) = lang_tags {
        w16(&mut v, l.len() as u16);
        for (len, off) in l {
            w16(&mut v, *len);
            w16(&mut v, *off);
        }
    }
    v.extend_from_slice(storage);
    v
}

pub const TAG_LENS: [usize; 14] = [0, 1, 5, 11, 29, 30, 31, 32, 33, 64, 127, 255, 4000, 32767];
pub const TAG_CONTENT: [&str; 7] = [
    "ascii",
    "non-ascii last char",
    "non-ascii first char",
    "lone high surrogate last",
    "odd byte length (+1 byte)",
    "tag offset beyond storage",
    "supplementary-plane pair last",
];
pub const TAG_LANG_IDS: [u16; 5] = [0x7FFF, 0x8000, 0x8001, 0x8002, 0xFFFF];
pub const TAG_VERSIONS: [u16; 3] = [1, 0, 2];
pub const TAG_COUNTS: [usize; 3] = [0, 1, 2];
const R_TAGS: [usize; 5] = [TAG_VERSIONS.len(), TAG_COUNTS.len(), TAG_LANG_IDS.len(), TAG_CONTENT.len(), TAG_LENS.len()];

fn name_tag_item(idx: u64) -> Item {
    let d = decode(idx, &R_TAGS);
    let (version, count, lang, content, n) = (TAG_VERSIONS[d[0]], TAG_COUNTS[d[1]], TAG_LANG_IDS[d[2]], d[3], TAG_LENS[d[4]]);
    // storage: "A" (UTF-16) then the tag(s)
    let mut storage = vec![0, b'A'];
    let mut tag: Vec<u8> = vec![];
    for i in 0..n {
        let c = b"en-Latn-US-x-abcdefghijklmnopqrstuvwxyz"[i % 39];
        tag.extend_from_slice(&[0, c]);
    }
    let put = |tag: &mut Vec<u8>, at_last: bool, units: &[u16]| {
        if tag.len() >= 2 {
            let pos = if at_last { tag.len() - 2 } else { 0 };
            let mut b = vec![];
            for u in units {
                b.extend_from_slice(&u.to_be_bytes());
            }
            tag.splice(pos..pos + 2, b);
        }
    };
    match content {
        1 => put(&mut tag, true, &[0x00E9]),
        2 => put(&mut tag, false, &[0x00E9]),
        3 => put(&mut tag, true, &[0xD800]),
        4 => tag.push(b'x'),
        6 => put(&mut tag, true, &[0xD83D, 0xDE00]),
        _ => {}
    }
    let tag_off = if content == 5 { 0xFFF0 } else { storage.len() as u16 };
    let tag_len = tag.len().min(0xFFFF) as u16;
    storage.extend_from_slice(&tag);
    let tags: Vec<(u16, u16)> = (0..count).map(|k| if k + 1 == count { (tag_len, tag_off) } else { (4, tag_off) }).collect();
    let recs = [
        NameRec { platform: 3, encoding: 1, language: lang, name_id: 1, length: 2, offset: 0 },
        NameRec { platform: 0, encoding: 3, language: lang, name_id: 2, length: 2, offset: 0 },
        NameRec { platform: 1, encoding: 0, language: lang, name_id: 0xFFFF, length: 1, offset: 1 },
    ];
    let name = name_table(version, &recs, if version >= 1 { Some(&tags) } else { None }, &storage, 0);
    let mut t = shell(2);
    t.push((b"name", name));
    let mut it = Item::new(
        format!("name v{version}, {count} lang-tag records, record languageID {lang:#x}, last tag {n} chars ({})", TAG_CONTENT[content]),
        sfnt(&t),
    );
    it.ids = vec![1, 2, 0xFFFF];
    it
}

pub const ENCODINGS: [(u16, u16); 16] = [
    (0, 0), (0, 3), (0, 4), (0, 6), (0, 0xFFFF), (1, 0), (1, 1), (1, 0xFFFF), (2, 0), (2, 1), (3, 0), (3, 1), (3, 10), (3, 0xFFFF), (4, 0), (0xFFFF, 0),
];
pub const PAYLOADS: [&str; 14] = [
    "empty",
    "UTF-16 'A'",
    "3 bytes (odd)",
    "1 byte",
    "lone high surrogate",
    "lone low surrogate",
    "high surrogate then BMP",
    "valid surrogate pair",
    "high surrogate as last unit then odd byte",
    "all 256 byte values",
    "FFFF FFFE 0000",
    "offset beyond storage",
    "length one byte beyond storage",
    "length 0xFFFF, offset 0xFFFF",
];
pub const STR_LANGS: [u16; 5] = [0, 0x0409, 0x040D, 0x7FFF, 0x8000];
pub const STORAGE_DELTAS: [i32; 3] = [0, 1, 0x7000];
const R_STR: [usize; 4] = [STORAGE_DELTAS.len(), STR_LANGS.len(), ENCODINGS.len(), PAYLOADS.len()];

fn name_str_item(idx: u64) -> Item {
    let d = decode(idx, &R_STR);
    let (delta, lang, (pl, enc), payload) = (STORAGE_DELTAS[d[0]], STR_LANGS[d[1]], ENCODINGS[d[2]], d[3]);
    let bytes: Vec<u8> = match payload {
        0 => vec![],
        1 => vec![0, b'A'],
        2 => vec![0, b'A', 0],
        3 => vec![0xE9],
        4 => vec![0xD8, 0x00],
        5 => vec![0xDC, 0x00],
        6 => vec![0xD8, 0x00, 0, b'A'],
        7 => vec![0xD8, 0x3D, 0xDE, 0x00],
        8 => vec![0, b'A', 0xDB, 0xFF, 0xDC],
        9 => (0..=255u8).collect(),
        10 => vec![0xFF, 0xFF, 0xFF, 0xFE, 0, 0],
        _ => vec![0, b'B', 0, b'C'],
    };
    let (length, offset) = match payload {
        11 => (2u16, bytes.len() as u16 + 1),
        12 => (bytes.len() as u16 + 1, 0),
        13 => (0xFFFF, 0xFFFF),
        _ => (bytes.len() as u16, 0),
    };
    let recs = [
        NameRec { platform: pl, encoding: enc, language: lang, name_id: 4, length, offset },
        NameRec { platform: pl, encoding: enc, language: lang, name_id: 0xFFFF, length, offset },
    ];
    let name = name_table(0, &recs, None, &bytes, delta);
    let mut t = shell(2);
    t.push((b"name", name));
    let mut it = Item::new(
        format!("name v0 record platform {pl} encoding {enc} language {lang:#x}, payload {}, storage offset +{delta}", PAYLOADS[payload]),
        sfnt(&t),
    );
    it.ids = vec![4, 0xFFFF];
    it
}

/// english_or_first ranking: every sequence of 4 records of one name id over 6 language kinds.
pub const RANK_LANGS: [(&str, u16, u16, u16); 6] = [
    ("en-US (3,1,0x409)", 3, 1, 0x0409),
    ("en (1,0,0)", 1, 0, 0),
    ("none (0,3,0)", 0, 3, 0),
    ("fr-FR (3,1,0x40C)", 3, 1, 0x040C),
    ("unknown language id (3,1,0x7777)", 3, 1, 0x7777),
    ("other name id", 3, 1, 0x0409),
];
const R_RANK: [usize; 4] = [6, 6, 6, 6];
fn name_rank_item(idx: u64) -> Item {
    let d = decode(idx, &R_RANK);
    let recs: Vec<NameRec> = d
        .iter()
        .map(|k| {
            let (_, p, e, l) = RANK_LANGS[*k];
            NameRec { platform: p, encoding: e, language: l, name_id: if *k == 5 { 7 } else { 1 }, length: if p == 1 { 1 } else { 2 }, offset: if p == 1 { 1 } else { 0 } }
        })
        .collect();
    let name = name_table(0, &recs, None, &[0, b'A'], 0);
    let mut t = shell(2);
    t.push((b"name", name));
    let mut it = Item::new(format!("name v0, records {:?}", d.iter().map(|k| RANK_LANGS[*k].0).collect::<Vec<_>>()), sfnt(&t));
    it.ids = vec![1, 7];
    it
}

// ---------------------------------------------------------------------------------------------
// families table
// ---------------------------------------------------------------------------------------------

pub struct Family {
    pub name: &'static str,
    /// the items are the mixed-radix product of these (last varies fastest); an item index is global
    pub radices: Vec<usize>,
    pub item: fn(u64) -> Item,
    /// which digit vectors are executed (quick tier: boundary representatives; thorough: all non-redundant)
    pub filter: fn(&[usize], bool) -> bool,
    pub parts: u64,
}
impl Family {
    pub fn count(&self) -> u64 {
        product(&self.radices)
    }
    pub fn selected(&self, idx: u64, quick: bool) -> bool {
        (self.filter)(&decode(idx, &self.radices), quick)
    }
    pub fn executed(&self, quick: bool) -> u64 {
        (0..self.count()).filter(|i| self.selected(*i, quick)).count() as u64
    }
}
pub fn all(_: &[usize], _: bool) -> bool {
    true
}

pub fn families() -> Vec<Family> {
    let mut f = vec![
        Family { name: "name-langtag", radices: R_TAGS.to_vec(), item: name_tag_item, filter: all, parts: 8 },
        Family { name: "name-strings", radices: R_STR.to_vec(), item: name_str_item, filter: all, parts: 8 },
        Family { name: "name-rank", radices: R_RANK.to_vec(), item: name_rank_item, filter: all, parts: 2 },
    ];
    f.extend(crate::metafam2::families());
    f
}

// ---------------------------------------------------------------------------------------------
// exercise
// ---------------------------------------------------------------------------------------------

pub const PROBE_CHARS: [u32; 14] = [0, 0x20, 0x41, 0xFF, 0x100, 0xD800, 0xF020, 0xF041, 0xF0FF, 0xFFFF, 0x10000, 0x1F600, 0x10FFFF, 0x110000];

fn exercise_font(acc: &mut Acc, font: &FontRef, it: &Item) {
    // 1. the whole metadata sweep of driver 1 (attributes, axes, named instances, strings 0..=25 + 255, 256,
    //    0x7FFF, 0xFFFF, glyph names, charmap, metrics / glyph metrics) on a small plan
    let axes = acc.call(ST_VAR, || font.axes().len()).unwrap_or(0);
    let n = acc
        .call(ST_METRICS, || {
            use read_fonts::TableProvider;
            font.maxp().map(|m| m.num_glyphs() as u32).unwrap_or(0)
        })
        .unwrap_or(0);
    let mut gids: Vec<u32> = vec![0, 1, 2, 3, 257, 258, 259, n.saturating_sub(1), n, n + 1, 0xFFFE, 0xFFFF, 0x10000, u32::MAX];
    gids.sort();
    gids.dedup();
    let mut coordsets: Vec<(u8, Vec<NormalizedCoord>)> = vec![];
    for k in [0u8, 2, 3, 4, 5] {
        let v = skdrv::coord_vector(k, axes);
        if !coordsets.iter().any(|(_, o)| *o == v) {
            coordsets.push((k, v));
        }
    }
    let plan = meta_plan();
    skdrv::metadata(acc, font, &plan, &gids, &coordsets, axes);
    // 2. strings: the item's ids through every consumer (count / next / english_or_first / Display / chars)
    for &id in &it.ids {
        if let Some(d) = acc.call(ST_STR, || {
            let mut h = Fnv::new();
            h.str("strings+");
            let ls = font.localized_strings(StringId::new(id));
            h.u64(ls.clone().count() as u64);
            if let Some(s) = ls.clone().next() {
                h.str(s.language().unwrap_or("-"));
                h.u64(s.chars().count() as u64);
                h.str(&s.to_string());
            }
            for s in ls.clone() {
                h.str(s.language().unwrap_or("-"));
                let t = s.to_string();
                h.u64(t.len() as u64);
                h.str(&format!("{:?}", s).chars().take(64).collect::<String>());
            }
            match ls.english_or_first() {
                Some(s) => {
                    h.str(s.language().unwrap_or("-"));
                    h.str(&s.to_string());
                }
                None => h.byte(0),
            }
            h.finish()
        }) {
            acc.evals += 1;
            acc.observe(d, true);
        }
    }
    // 3. glyph names: get() against iter()
    if let Some(Some(bad)) = acc.call(ST_NAMES, || {
        let gn = font.glyph_names();
        let mut bad = None;
        for (i, (g, name)) in gn.iter().enumerate().take(70_000) {
            if i < 600 || i as u32 + 3 >= gn.num_glyphs() {
                match gn.get(g) {
                    Some(o) if o.as_str() == name.as_str() && o.is_synthesized() == name.is_synthesized() => {}
                    o => {
                        bad = Some(format!("glyph {}: iter() yields {:?}, get() yields {:?}", g.to_u32(), name.as_str(), o.map(|o| o.as_str().to_string())));
                        break;
                    }
                }
            }
        }
        bad
    }) {
        acc.viol("glyph-names-get-vs-iter", ST_NAMES, format!("GlyphNames::get disagrees with GlyphNames::iter: {bad}"), None);
    }
    // 4. charmap: the cached-index route against the direct route
    if let Some(Some(bad)) = acc.call(ST_CMAP2, || {
        let a = Charmap::new(font);
        let ix = MappingIndex::new(font);
        let b = ix.charmap(font);
        let mut bad = None;
        if (a.has_map(), a.is_symbol(), a.has_variant_map()) != (b.has_map(), b.is_symbol(), b.has_variant_map()) {
            bad = Some(format!(
                "has_map/is_symbol/has_variant_map {:?} vs {:?}",
                (a.has_map(), a.is_symbol(), a.has_variant_map()),
                (b.has_map(), b.is_symbol(), b.has_variant_map())
            ));
        }
        for c in PROBE_CHARS {
            if a.map(c) != b.map(c) && bad.is_none() {
                bad = Some(format!("map({c:#x}) {:?} vs {:?}", a.map(c), b.map(c)));
            }
            for sel in [0xFE00u32, 0xFE0F, 0xE0100] {
                if a.map_variant(c, sel) != b.map_variant(c, sel) && bad.is_none() {
                    bad = Some(format!("map_variant({c:#x},{sel:#x}) {:?} vs {:?}", a.map_variant(c, sel), b.map_variant(c, sel)));
                }
            }
        }
        if a.mappings().take(5000).ne(b.mappings().take(5000)) && bad.is_none() {
            bad = Some("mappings() differ".into());
        }
        bad
    }) {
        acc.viol("charmap-index-route-differs", ST_CMAP2, format!("MappingIndex::charmap disagrees with Charmap::new: {bad}"), None);
    }
    // 4b. documented absence: "Returns None if glyph_id >= self.glyph_count()" (advance_width, left_side_bearing)
    if let Some(Some(bad)) = acc.call(ST_METRICS, || {
        let gm = font.glyph_metrics(Size::unscaled(), LocationRef::default());
        let mut bad = None;
        for &g in &gids {
            if g >= gm.glyph_count() && (gm.advance_width(GlyphId::new(g)).is_some() || gm.left_side_bearing(GlyphId::new(g)).is_some()) && bad.is_none() {
                bad = Some(format!("glyph {g} with glyph_count() = {}", gm.glyph_count()));
            }
        }
        bad
    }) {
        acc.viol("glyph-metrics-beyond-glyph-count", ST_METRICS, format!("GlyphMetrics::advance_width / left_side_bearing is Some for a glyph id >= glyph_count(): {bad}"), None);
    }
    // 5. glyph metrics for more sizes / every probe gid (advance, lsb, bounds), metrics Debug
    // (sizes unscaled and 13.5 are part of step 1)
    for size in [Size::new(0.0), Size::new(f32::MAX)] {
        for (_, coords) in coordsets.iter().take(2) {
            if let Some(d) = acc.call(ST_METRICS, || {
                let mut h = Fnv::new();
                h.str("metrics+");
                let m = font.metrics(size, LocationRef::new(coords));
                h.str(&format!("{m:?}"));
                let gm = font.glyph_metrics(size, LocationRef::new(coords));
                for &g in &gids {
                    let g = GlyphId::new(g);
                    h.str(&format!("{:?}{:?}{:?}", gm.advance_width(g), gm.left_side_bearing(g), gm.bounds(g)));
                }
                h.finish()
            }) {
                acc.evals += 1;
                acc.observe(d, true);
            }
        }
    }
}

fn meta_plan() -> skdrv::Plan {
    let mut p = skdrv::Plan::named("meta").expect("meta plan");
    p.sizes = vec![None, Some(13.5)];
    p
}

pub fn exercise(acc: &mut Acc, it: &Item) {
    if it.draw != 0 {
        // outline families housed here (DICT offset operands): unhinted + hinted draws of glyph 1
        let sub = acc.sub_override;
        if it.draw == 1 {
            crate::cffprog::exercise(acc, &it.font);
        } else {
            crate::cff2prog::exercise(acc, &it.font);
        }
        acc.sub_override = sub;
        return;
    }
    if it.indices.is_empty() {
        if let Some(Ok(font)) = acc.call(ST_FONTREF, || FontRef::new(&it.font)) {
            acc.count("fonts_parsed");
            exercise_font(acc, &font, it);
        } else {
            acc.count("fonts_rejected");
        }
    } else {
        for &ix in &it.indices {
            match acc.call(ST_FONTREF, || FontRef::from_index(&it.font, ix)) {
                Some(Ok(font)) => {
                    acc.count("fonts_parsed");
                    exercise_font(acc, &font, it);
                }
                Some(Err(e)) => {
                    acc.count("fonts_rejected");
                    let mut h = Fnv::new();
                    h.str(&format!("from_index err {e:?}"));
                    acc.observe(h.finish(), false);
                }
                None => {}
            }
        }
        // FileRef route
        if let Some(d) = acc.call(ST_FONTREF, || {
            let mut h = Fnv::new();
            h.str("fileref");
            if let Ok(f) = read_fonts::FileRef::new(&it.font) {
                h.u64(f.fonts().take(70_000).map(|r| r.is_ok() as u64).sum());
            }
            h.finish()
        }) {
            acc.observe(d, false);
        }
    }
}

pub fn describe(spec: &Value) -> String {
    let (Some(fam), Some(idx)) = (spec["family"].as_str(), spec["only"].as_u64()) else {
        return String::new();
    };
    families().iter().find(|f| f.name == fam && idx < f.count()).map(|f| (f.item)(idx).desc).unwrap_or_default()
}

pub fn drive(spec: &Value) -> CaseOut {
    let fams = families();
    let Some(fam) = spec["family"].as_str().and_then(|n| fams.iter().find(|f| f.name == n)) else {
        return crate::bad_case(format!("bad metafam case {spec}"));
    };
    let parts = spec["parts"].as_u64().unwrap_or(1).max(1);
    let part = spec["part"].as_u64().unwrap_or(0);
    let only = spec["only"].as_u64();
    let from = spec["from"].as_u64().unwrap_or(0);
    let mut acc = Acc::new("metafam");
    let quick = spec["quick"].as_bool().unwrap_or(false);
    for idx in from..fam.count() {
        if only.map(|o| o != idx).unwrap_or(idx % parts != part || !fam.selected(idx, quick)) {
            continue;
        }
        set_sub(idx);
        acc.sub_override = Some(idx);
        acc.evals += 1;
        let it = (fam.item)(idx);
        exercise(&mut acc, &it);
    }
    acc.finish()
}

pub fn gen_cases(quick: bool) -> Vec<Value> {
    let mut out = vec![];
    for f in families() {
        for k in 0..f.parts {
            out.push(json!({"driver": "metafam", "family": f.name, "part": k, "parts": f.parts, "quick": quick}));
        }
    }
    out
}

pub fn bounds(quick: bool) -> Value {
    let mut b = json!({
        "families": families().iter().map(|f| json!({"name": f.name, "items_executed": f.executed(quick), "items_of_full_product": f.count()})).collect::<Vec<_>>(),
        "name-langtag": {"versions": TAG_VERSIONS, "lang_tag_records": TAG_COUNTS, "record_language_ids": TAG_LANG_IDS, "tag_content": TAG_CONTENT, "tag_chars": TAG_LENS},
        "name-strings": {"platform_encoding": ENCODINGS, "payloads": PAYLOADS, "languages": STR_LANGS, "storage_offset_delta": STORAGE_DELTAS},
        "name-rank": {"records": 4, "languages": RANK_LANGS.iter().map(|r| r.0).collect::<Vec<_>>()},
        "per_item": "FontRef::new|from_index, full metadata sweep of driver 1 (plan meta: sizes unscaled+13.5, coords {none, all 1, all -1, [1], axes+1}), extra string consumers, glyph names get vs iter, MappingIndex route, metrics / glyph metrics also at sizes 0 and f32::MAX",
        "probe_chars": PROBE_CHARS,
    });
    for (k, v) in crate::metafam2::bounds(quick) {
        b[k] = v;
    }
    b
}
