//! Driver 4: the IFT client on (font, SubsetDefinition, IFT/IFTX bytes, patch bytes, UriStatus map) tuples
//! (DESIGN C02 E.4).
//!
//! Scenarios are built from the `font_test_data::ift` fixtures exactly as the crate's own tests combine them
//! (`SCENARIOS`); each scenario is a list of named blobs (the `IFT ` table, optionally the `IFTX` table, and
//! the patch files keyed by URI, and — named "@tag" — the base-font tables the patch application reads:
//! loca, glyf, gvar, maxp, head, CFF, CFF2) around a small base font. A case is (scenario, blob, one deviation of that
//! blob | none). For every case the inner product
//!     subset definition ∈ DEFS × decoder ∈ {Noop, failing at call k=0,1,2} × status map ∈ STATUS_MAPS
//! is executed through `intersecting_patches`, `PatchGroup::select_next_patches → has_uris/uris →
//! apply_next_patches_with_decoder`, and a successful application is re-parsed and selected from again
//! (up to 3 rounds).
//!
//! Oracle: every call returns and none panics; failures are `Err`. (Atomicity / exactness of patching is C18.)

use crate::skdrv::Acc;
use crate::sup::CaseOut;
use font_test_data::bebuffer::BeBuffer;
use font_test_data::ift as fx;
use font_types::{Fixed, Int24, Tag};
use incremental_font_transfer::patch_group::{PatchGroup, UriStatus};
use incremental_font_transfer::patchmap::{intersecting_patches, DesignSpace, FeatureSet, SubsetDefinition};
use read_fonts::collections::{IntSet, RangeSet};
use read_fonts::FontRef;
use serde_json::{json, Value};
use shared_brotli_patch_decoder::decode_error::DecodeError;
use shared_brotli_patch_decoder::{NoopBrotliDecoder, SharedBrotliDecoder};
use std::cell::Cell;
use std::collections::{BTreeSet, HashMap};
use vcore::Fnv;
use write_fonts::tables::{head::Head, loca::Loca, maxp::Maxp};
use write_fonts::FontBuilder;

pub const ST_INTERSECT: usize = 16;
pub const ST_SELECT: usize = 17;
pub const ST_APPLY: usize = 18;
pub const ST_REPARSE: usize = 22;

#[derive(Clone)]
pub enum Base {
    /// tab1/tab2/tab4/tab5 raw tables (the table-keyed tests' base font)
    Tabs,
    /// maxp(15 glyphs) + head + short loca + glyf (the glyph-keyed tests' font), optionally with gvar
    Glyf(Option<Vec<u8>>),
    /// copy of a CFF / CFF2 fixture font
    Copy(&'static [u8]),
}

#[derive(Clone)]
pub struct Scenario {
    pub name: &'static str,
    pub base: Base,
    /// (name, bytes): "IFT ", "IFTX" are tables; any other name is a patch URI
    pub blobs: Vec<(String, Vec<u8>)>,
}

pub fn glyph_keyed_patch(mut header: BeBuffer, payload: BeBuffer) -> Vec<u8> {
    // uncompressed body (the Noop decoder passes it through)
    header.write_at("max_uncompressed_length", payload.len() as u32);
    let mut v = header.as_slice().to_vec();
    v.extend_from_slice(payload.as_slice());
    v
}

fn glyph_keyed_maps() -> (Vec<u8>, Vec<u8>) {
    let mut ift = fx::table_keyed_format2();
    ift.write_at("encoding", 3u8);
    for (i, v) in [6u32, 7, 8, 9].iter().enumerate() {
        ift.write_at(&format!("compat_id[{i}]"), *v);
    }
    let mut iftx = fx::table_keyed_format2();
    iftx.write_at("encoding", 3u8);
    for (i, v) in [7u32, 7, 8, 9].iter().enumerate() {
        iftx.write_at(&format!("compat_id[{i}]"), *v);
    }
    iftx.write_at("id_delta", Int24::new(1));
    (ift.as_slice().to_vec(), iftx.as_slice().to_vec())
}

pub fn scenarios() -> Vec<Scenario> {
    let mut out = vec![];
    let b = |x: BeBuffer| x.as_slice().to_vec();
    // table keyed, full invalidation
    out.push(Scenario {
        name: "table_keyed_full",
        base: Base::Tabs,
        blobs: vec![
            ("IFT ".into(), b(fx::table_keyed_format2())),
            ("foo/04".into(), b(fx::table_keyed_patch())),
        ],
    });
    // table keyed, partial invalidation in both tables
    {
        let mut ift = fx::table_keyed_format2();
        ift.write_at("encoding", 2u8);
        let mut iftx = fx::table_keyed_format2();
        iftx.write_at("encoding", 2u8);
        iftx.write_at("compat_id[0]", 2u32);
        iftx.write_at("id_delta", Int24::new(1));
        let mut p2 = fx::table_keyed_patch();
        p2.write_at("compat_id", 2u32);
        out.push(Scenario {
            name: "table_keyed_partial_x2",
            base: Base::Tabs,
            blobs: vec![
                ("IFT ".into(), b(ift)),
                ("IFTX".into(), b(iftx)),
                ("foo/04".into(), b(fx::table_keyed_patch())),
                ("foo/08".into(), b(p2)),
            ],
        });
    }
    out.push(Scenario {
        name: "table_keyed_noop_patch",
        base: Base::Tabs,
        blobs: vec![
            ("IFT ".into(), b(fx::table_keyed_format2())),
            ("foo/04".into(), b(fx::noop_table_keyed_patch())),
        ],
    });
    // glyph keyed glyf, two tables
    {
        let (ift, iftx) = glyph_keyed_maps();
        let p1 = glyph_keyed_patch(fx::glyph_keyed_patch_header(), fx::glyf_u16_glyph_patches());
        let mut body2 = fx::glyf_u16_glyph_patches();
        body2.write_at("gid_13", 14u16);
        let mut h2 = fx::glyph_keyed_patch_header();
        h2.write_at("compatibility_id", 7u32);
        let p2 = glyph_keyed_patch(h2, body2);
        out.push(Scenario {
            name: "glyph_keyed_glyf_x2",
            base: Base::Glyf(None),
            blobs: vec![
                ("IFT ".into(), ift),
                ("IFTX".into(), iftx),
                ("foo/04".into(), p1),
                ("foo/08".into(), p2),
            ],
        });
    }
    // glyph keyed: other payload fixtures against the same map
    for (name, payload, gvar) in [
        ("glyph_keyed_glyf_2", fx::glyf_u16_glyph_patches_2(), None),
        ("glyph_keyed_glyf_u24", fx::glyf_u24_glyph_patches(), None),
        ("glyph_keyed_noop", fx::noop_glyf_glyph_patches(), None),
        ("glyph_keyed_glyf_gvar_shared", fx::glyf_and_gvar_u16_glyph_patches(), Some(b(fx::short_gvar_with_shared_tuples()))),
        ("glyph_keyed_glyf_gvar_long", fx::glyf_and_gvar_u16_glyph_patches(), Some(b(fx::long_gvar_with_shared_tuples()))),
        ("glyph_keyed_glyf_gvar_noshared", fx::glyf_and_gvar_u16_glyph_patches(), Some(b(fx::short_gvar_with_no_shared_tuples()))),
        ("glyph_keyed_glyf_gvar_out_of_order", fx::glyf_and_gvar_u16_glyph_patches(), Some(b(fx::out_of_order_gvar_with_shared_tuples()))),
    ] {
        let (ift, _) = glyph_keyed_maps();
        let mut header = fx::glyph_keyed_patch_header();
        if name == "glyph_keyed_glyf_u24" {
            // flags bit 0 = u24 glyph ids
            let mut raw = header.as_slice().to_vec();
            raw[8] = 1;
            let body = payload.as_slice().to_vec();
            raw[25..29].copy_from_slice(&(body.len() as u32).to_be_bytes());
            raw.extend_from_slice(&body);
            out.push(Scenario {
                name,
                base: Base::Glyf(gvar),
                blobs: vec![("IFT ".into(), ift), ("foo/04".into(), raw)],
            });
            continue;
        }
        header.write_at("compatibility_id", 6u32);
        out.push(Scenario {
            name,
            base: Base::Glyf(gvar),
            blobs: vec![("IFT ".into(), ift), ("foo/04".into(), glyph_keyed_patch(header, payload))],
        });
    }
    // CFF / CFF2
    for (name, font, off, two) in [
        ("glyph_keyed_cff", fx::CFF_FONT, fx::CFF_FONT_CHARSTRINGS_OFFSET, false),
        ("glyph_keyed_cff2", fx::CFF2_FONT, fx::CFF2_FONT_CHARSTRINGS_OFFSET, false),
        ("glyph_keyed_cff_two_offsets", fx::CFF_FONT, fx::CFF_FONT_CHARSTRINGS_OFFSET, true),
    ] {
        let mut ift = if two {
            fx::format2_with_two_charstrings_offset()
        } else {
            fx::format2_with_one_charstrings_offset()
        };
        if !two {
            ift.write_at("charstrings_offset", off);
        }
        for (i, v) in [6u32, 7, 8, 9].iter().enumerate() {
            ift.write_at(&format!("compat_id[{i}]"), *v);
        }
        // the fixture's URI template is the literal "ABCDEF" + 2 bytes; resolve it once to learn the URI
        let ift = b(ift);
        let p = glyph_keyed_patch(fx::glyph_keyed_patch_header(), fx::cff_u16_glyph_patches());
        out.push(Scenario {
            name,
            base: Base::Copy(font),
            blobs: vec![("IFT ".into(), ift), ("?uri".into(), p)],
        });
    }
    // mapping-table fixtures without patch data (selection, URI expansion, MissingPatches)
    for (name, map) in [
        ("map_simple_format1", fx::simple_format1()),
        ("map_format1_one_charstrings_offset", fx::simple_format1_with_one_charstrings_offset()),
        ("map_format1_two_charstrings_offsets", fx::simple_format1_with_two_charstrings_offsets()),
        ("map_u16_entries_format1", fx::u16_entries_format1()),
        ("map_feature_map_format1", fx::feature_map_format1()),
        ("map_codepoints_only_format2", fx::codepoints_only_format2()),
        ("map_features_and_design_space_format2", fx::features_and_design_space_format2()),
        ("map_child_indices_format2", fx::child_indices_format2()),
        ("map_custom_ids_format2", fx::custom_ids_format2()),
        ("map_string_ids_format2", fx::string_ids_format2()),
    ] {
        out.push(Scenario {
            name,
            base: Base::Tabs,
            blobs: vec![("IFT ".into(), b(map))],
        });
    }
    out.into_iter().map(with_base_blobs).collect()
}

pub fn build_font(base: &Base, blobs: &[(String, Vec<u8>)]) -> Vec<u8> {
    let mut fb = FontBuilder::new();
    for (name, data) in blobs {
        if name == "IFT " || name == "IFTX" {
            fb.add_raw(Tag::new(name.as_bytes().try_into().unwrap()), data.clone());
        }
    }
    match base {
        Base::Tabs => {
            fb.add_raw(Tag::new(b"tab1"), b"abcdef\n".to_vec());
            fb.add_raw(Tag::new(b"tab2"), b"foobar\n".to_vec());
            fb.add_raw(Tag::new(b"tab4"), b"abcdef\n".to_vec());
            fb.add_raw(Tag::new(b"tab5"), b"foobar\n".to_vec());
        }
        Base::Glyf(gvar) => {
            let maxp = Maxp {
                num_glyphs: 15,
                ..Default::default()
            };
            fb.add_table(&maxp).unwrap();
            let head = Head {
                index_to_loc_format: 0,
                ..Default::default()
            };
            fb.add_table(&head).unwrap();
            let glyf: Vec<u8> = vec![1, 2, 3, 4, 5, 0, 6, 7, 8, 0, 9, 10, 11, 12];
            let (g0, g1, g8, end) = (0u32, 6, 10, 14);
            let loca = Loca::new(vec![g0, g1, g8, g8, g8, g8, g8, g8, g8, end, end, end, end, end, end, end]);
            fb.add_table(&loca).unwrap();
            fb.add_raw(Tag::new(b"glyf"), glyf);
            if let Some(g) = gvar {
                fb.add_raw(Tag::new(b"gvar"), g.clone());
            }
        }
        Base::Copy(data) => {
            for (name, blob) in blobs {
                if let Some(tag) = name.strip_prefix('@') {
                    fb.add_raw(Tag::new(tag.as_bytes().try_into().unwrap()), blob.clone());
                }
            }
            if let Ok(f) = FontRef::new(data) {
                fb.copy_missing_tables(f);
            }
        }
    }
    if !matches!(base, Base::Copy(_)) {
        // base-font tables carried as blobs ("@loca", "@glyf", …) override the defaults added above
        for (name, blob) in blobs {
            if let Some(tag) = name.strip_prefix('@') {
                fb.add_raw(Tag::new(tag.as_bytes().try_into().unwrap()), blob.clone());
            }
        }
    }
    fb.build()
}

/// Tables of the base font that the patch application reads; they become deviable blobs named "@tag".
const BASE_TABLES: [&str; 7] = ["loca", "glyf", "gvar", "maxp", "head", "CFF ", "CFF2"];

fn with_base_blobs(mut sc: Scenario) -> Scenario {
    if matches!(sc.base, Base::Tabs) {
        return sc;
    }
    let font = build_font(&sc.base, &sc.blobs);
    for (tag, off, len) in crate::fontcase::table_dir(&font) {
        if BASE_TABLES.contains(&tag.as_str()) {
            sc.blobs.push((format!("@{tag}"), font[off..off + len].to_vec()));
        }
    }
    sc
}

/// Subset definitions: {empty, all, inverted, boundary…}
pub fn defs() -> Vec<(&'static str, SubsetDefinition)> {
    let cps = |v: &[u32]| -> IntSet<u32> { v.iter().copied().collect() };
    let mut inverted = cps(&[5]);
    inverted.invert();
    let feats = |v: &[&[u8; 4]]| FeatureSet::Set(v.iter().map(|t| Tag::new(*t)).collect::<BTreeSet<_>>());
    let ds = |v: &[(&[u8; 4], f64, f64)]| {
        let mut m: HashMap<Tag, RangeSet<Fixed>> = HashMap::new();
        for (t, a, b) in v {
            m.entry(Tag::new(*t))
                .or_default()
                .insert(Fixed::from_f64(*a)..=Fixed::from_f64(*b));
        }
        DesignSpace::Ranges(m)
    };
    vec![
        ("empty", SubsetDefinition::new(IntSet::empty(), FeatureSet::default(), DesignSpace::default())),
        ("all", SubsetDefinition::all()),
        ("cp{5}", SubsetDefinition::codepoints(cps(&[5]))),
        ("inverted{5}", SubsetDefinition::new(inverted, FeatureSet::All, DesignSpace::All)),
        ("cp{0,0x10FFFF}", SubsetDefinition::codepoints(cps(&[0, 0x10FFFF]))),
        (
            "cp{5,6,7,20}+liga,smcp+wght[100,400]",
            SubsetDefinition::new(cps(&[5, 6, 7, 20]), feats(&[b"liga", b"smcp"]), ds(&[(b"wght", 100.0, 400.0)])),
        ),
        (
            "cp{1..60}+all features+wdth point",
            SubsetDefinition::new((1u32..60).collect(), FeatureSet::All, ds(&[(b"wdth", 0.5, 0.5), (b"wght", -32768.0, 32767.0)])),
        ),
        ("cp{u32::MAX}", SubsetDefinition::codepoints(cps(&[u32::MAX, 0x7FFF_FFFF]))),
    ]
}

/// Decoder that behaves like `NoopBrotliDecoder` but fails at call number `fail_at`.
pub struct FailingDecoder {
    pub fail_at: Option<u32>,
    pub calls: Cell<u32>,
}
impl SharedBrotliDecoder for FailingDecoder {
    fn decode(&self, encoded: &[u8], dict: Option<&[u8]>, max: usize) -> Result<Vec<u8>, DecodeError> {
        let n = self.calls.get();
        self.calls.set(n + 1);
        if Some(n) == self.fail_at {
            return Err(DecodeError::InvalidStream);
        }
        NoopBrotliDecoder.decode(encoded, dict, max)
    }
}

pub const STATUS_MAPS: [&str; 4] = ["all pending", "none supplied", "first applied", "all applied"];
pub const DECODERS: [Option<u32>; 4] = [None, Some(0), Some(1), Some(2)];

pub struct Levels {
    pub defs: Vec<usize>,
    pub decoders: Vec<usize>,
    pub maps: Vec<usize>,
}

pub fn levels(full: bool) -> Levels {
    if full {
        Levels {
            defs: (0..8).collect(),
            decoders: (0..4).collect(),
            maps: (0..4).collect(),
        }
    } else {
        Levels {
            defs: vec![1, 2, 5, 3],
            decoders: vec![0, 2],
            maps: vec![0, 2],
        }
    }
}

fn status_map(kind: usize, patches: &[(String, Vec<u8>)], uris: &[String]) -> HashMap<String, UriStatus> {
    let mut m = HashMap::new();
    if kind == 1 {
        return m;
    }
    for (i, (name, data)) in patches.iter().enumerate() {
        // "?uri": the URI is whatever the selection asks for first
        let key = if name == "?uri" {
            uris.first().cloned().unwrap_or_else(|| "?".into())
        } else {
            name.clone()
        };
        let st = match kind {
            2 if i == 0 => UriStatus::Applied,
            3 => UriStatus::Applied,
            _ => UriStatus::Pending(data.clone()),
        };
        m.insert(key, st);
    }
    m
}

pub fn run(sc: &Scenario, blobs: &[(String, Vec<u8>)], lv: &Levels) -> CaseOut {
    let mut acc = Acc::new("ift");
    let font_bytes = build_font(&sc.base, blobs);
    let patches: Vec<(String, Vec<u8>)> = blobs
        .iter()
        .filter(|(n, _)| n != "IFT " && n != "IFTX" && !n.starts_with('@'))
        .cloned()
        .collect();
    let all_defs = defs();
    for &di in &lv.defs {
        let (_, def) = &all_defs[di];
        // intersecting_patches
        let r = acc.call(ST_INTERSECT, || {
            let font = FontRef::new(&font_bytes).ok()?;
            Some(intersecting_patches(&font, def).map(|v| {
                let mut h = Fnv::new();
                h.u64(v.len() as u64);
                for u in v.iter().take(64) {
                    h.str(&format!("{:?}", u.uri_string()));
                    h.str(&format!("{:?}", u.encoding()));
                }
                h.finish()
            }))
        });
        acc.evals += 1;
        {
            let mut h = Fnv::new();
            h.str("intersect");
            h.u64(di as u64);
            h.str(&format!("{r:?}"));
            acc.observe(h.finish(), false);
        }
        for &dec in &lv.decoders {
            for &mk in &lv.maps {
                acc.evals += 1;
                let mut h = Fnv::new();
                h.str("apply");
                h.u64(((di as u64) << 16) + ((dec as u64) << 8) + mk as u64);
                let mut current = font_bytes.clone();
                let mut applied_any = false;
                for round in 0..3 {
                    let cur = current.clone();
                    let step = acc.call(ST_SELECT, || {
                        let font = FontRef::new(&cur).map_err(|e| format!("font {e:?}"))?;
                        let group = PatchGroup::select_next_patches(font, def).map_err(|e| format!("select {e:?}"))?;
                        let has = group.has_uris();
                        let uris: Vec<String> = group.uris().take(1024).map(|s| s.to_string()).collect();
                        Ok::<_, String>((group, has, uris))
                    });
                    let Some(step) = step else { break };
                    let (group, has, uris) = match step {
                        Ok(x) => x,
                        Err(e) => {
                            h.str(&e);
                            break;
                        }
                    };
                    h.byte(has as u8);
                    for u in &uris {
                        h.str(u);
                    }
                    let mut map = status_map(if round == 0 { mk } else { 0 }, &patches, &uris);
                    let decoder = FailingDecoder {
                        fail_at: DECODERS[dec],
                        calls: Cell::new(0),
                    };
                    let r = acc.call(ST_APPLY, || group.apply_next_patches_with_decoder(&mut map, &decoder));
                    let Some(r) = r else { break };
                    match r {
                        Ok(new_font) => {
                            acc.count("apply_ok");
                            applied_any = true;
                            h.byte(1);
                            h.u64(vcore::digest_of(&new_font));
                            let mut keys: Vec<(&String, bool)> =
                                map.iter().map(|(k, v)| (k, matches!(v, UriStatus::Applied))).collect();
                            keys.sort();
                            h.str(&format!("{keys:?}"));
                            // the result must at least be parseable input for the next round (no panic)
                            let ok = acc.call(ST_REPARSE, || FontRef::new(&new_font).is_ok()).unwrap_or(false);
                            h.byte(ok as u8);
                            current = new_font;
                        }
                        Err(e) => {
                            acc.count("apply_err");
                            h.byte(2);
                            h.str(&format!("{e:?}"));
                            break;
                        }
                    }
                }
                acc.observe(h.finish(), applied_any);
            }
        }
    }
    acc.finish()
}

/// `{"driver":"ift","scenario":name,"blob":index|null,"off":o,"bytes":hex,"full":bool}`
pub fn drive(spec: &Value) -> CaseOut {
    if spec["family"].is_string() {
        return crate::iftf1::drive(spec);
    }
    let scs = scenarios();
    let Some(sc) = scs.iter().find(|s| Some(s.name) == spec["scenario"].as_str()) else {
        return crate::bad_case(format!("unknown ift scenario {spec}"));
    };
    let mut blobs = sc.blobs.clone();
    if let (Some(bi), Some(k)) = (spec["blob"].as_u64(), spec["trunc"].as_u64()) {
        // truncation case: the blob loses its last k bytes
        let Some(blob) = blobs.get_mut(bi as usize) else {
            return crate::bad_case(format!("bad blob index {spec}"));
        };
        if k as usize > blob.1.len() {
            return crate::bad_case(format!("truncation beyond blob {spec}"));
        }
        let keep = blob.1.len() - k as usize;
        blob.1.truncate(keep);
    } else if let Some(bi) = spec["blob"].as_u64() {
        let Some(blob) = blobs.get_mut(bi as usize) else {
            return crate::bad_case(format!("bad blob index {spec}"));
        };
        let off = spec["off"].as_u64().unwrap_or(0) as usize;
        let bytes = vcore::unhex(spec["bytes"].as_str().unwrap_or(""));
        let Some(dst) = blob.1.get_mut(off..off + bytes.len()) else {
            return crate::bad_case(format!("deviation outside blob {spec}"));
        };
        dst.copy_from_slice(&bytes);
    }
    run(sc, &blobs, &levels(spec["full"].as_bool().unwrap_or(false)))
}

/// Case generator: every scenario unmodified, then every single deviation (byte alphabet + rich u16 alphabet,
/// see `fontcase::table_deviations_ext`) of
/// the first `max_bytes` bytes of each of its blobs.
/// Truncation cases: every blob of every scenario (mapping tables, patches, base-font tables) shortened by
/// k = 1..=32 bytes (k <= length).
pub fn gen_truncation_cases(full: bool) -> Vec<Value> {
    let mut out = vec![];
    for sc in scenarios() {
        for (bi, (_, data)) in sc.blobs.iter().enumerate() {
            for k in 1..=32usize.min(data.len()) {
                out.push(json!({"driver": "ift", "scenario": sc.name, "blob": bi, "trunc": k, "full": full}));
            }
        }
    }
    out
}

pub fn gen_cases(max_bytes: usize, full: bool) -> Vec<Value> {
    let mut out = vec![];
    for sc in scenarios() {
        out.push(json!({"driver": "ift", "scenario": sc.name, "blob": Value::Null, "full": full}));
        for (bi, (_, data)) in sc.blobs.iter().enumerate() {
            for d in crate::fontcase::table_deviations_ext("", data, max_bytes, true) {
                out.push(json!({"driver": "ift", "scenario": sc.name, "blob": bi, "off": d.off,
                                "bytes": vcore::hex(&d.bytes), "full": full}));
            }
        }
    }
    out
}
