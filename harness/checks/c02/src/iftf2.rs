//! IFT format-2 patch-map "entry-chain boundary" family (phase `iftf2`, driver "iftf2").
//!
//! Hand-assembled format 2 `IFT ` tables (inside the glyph-keyed test font of `iftdrv`: maxp 15 glyphs, head,
//! loca, glyf) whose running quantities are driven exactly to and across every arithmetic boundary of the
//! decoder (`patchmap::decode_format2_entries` and what it calls). Families, each enumerated completely in a
//! fixed order (`family(name)` returns the items; an item = one table + what the specification says about it):
//!
//!  idchain  numeric entry ids: a prefix of ignored entries with the maximum Int24 delta brings the running id
//!           to T in `TARGETS` (0 .. u32::MAX; 512 entries for the top ones), lander ignored | live,
//!           x follower {none} ∪ (delta in {absent, 0, +1, -1, -2, -4, min, max, max-1, -(T+1) [-> 0],
//!           -(T+2) [-> -1], to u32::MAX exactly, one past} x ignored | live x tail {none, two more live entries})
//!  strid    string ids: string data of L in {0,1,4,300,65535,65540} bytes x every pair of id-length fields from
//!           {absent, 0, 1, 3, L, L+1, 0xFFFF} + a third entry; string-data offset at {1, header, entries, end,
//!           end+1, u32::MAX}
//!  count    entryCount in {0,1,2,3,4,0xFFFF,0xFFFFFF} against 0/1/3 entries present, 70 000 entries; entries
//!           offset at {0, 1, header-1, end-1, end, end+1, 0x7FFFFFFF, u32::MAX}
//!  child    childEntryMatchModeAndCount in {00,01,02,7F,80,81,FF} x child index value in {0, n-1, n (self), n+1,
//!           0xFFFFFF} (all indices | only the last one) after n in {0,1,3,127,128,200} entries, complete | cut
//!  childchain  chains of ignored entries each naming its predecessor as its child, then a live entry naming the
//!           last of them: depth {64, 1000, 20 000, 200 000} x disjunctive | conjunctive (a stack overflow kills
//!           the worker and is reported)
//!  design   two design-space segments with (start,end) from 11 Fixed extremes (start > end, i32::MIN/MAX,
//!           epsilon-adjacent), same | different axis, default patch format 1 | 3; segment / feature counts
//!           0, 1, 255, 0xFFFF with and without data; 5000 adjacent segments
//!  codepoints  bias form {none, u16, u24} x bias {0, 1, 0xFFFF | 0x10FFFE, 0x10FFFF, 0x110000, 0xFFFFFF} x
//!           branch factor {2,4,8,32} x 12 sparse-bit-set shapes (height 0, max, max+1, 31; fill nodes; first and
//!           last child chains reaching 2^31-1 / u32::MAX / 2^33-1 / 2^35-1; exact 0x10FFFF; cut; absent)
//!  format   default patch format {0,1,2,3,4,255} x entry patch format {absent,0,1,2,3,4,255} x ignored x
//!           reserved flag bit
//!  flags    all 256 entry format-flag bytes x numeric | string ids x body {complete, first 0..3 bytes of it,
//!           32 zero bytes, 32 FF bytes}
//!  header   18 URI templates (all variables, unterminated / unknown expressions, bad percent escapes, invalid
//!           UTF-8, 65 535 bytes, 1000 expressions) over ids {0,1,31,32,0xFFFF,0x800000,u32::MAX}; template
//!           length {0, +1, 0xFFFF}; field flags {0,1,2,3,0xFF} x 0..2 CFF offset words
//!
//! Every table x 5 subset definitions goes through `intersecting_patches` (+ `uri_string`, `encoding` of every
//! result), `PatchGroup::select_next_patches` (+ `has_uris`, `uris`) and, for the all-inclusive definition
//! with 1..=8 URIs, `apply_next_patches_with_decoder` with a glyph-keyed patch supplied for every URI followed
//! by a re-parse and a second `intersecting_patches` of the result.
//!
//! Oracles. (a) no call panics (C02) / no overflow or debug assertion in the strict profile (C20, same phase).
//! (b) where the specification leaves no room — a structurally valid table without out-of-range references —
//! an independent decoding of the *builder's model* (id = previous id + 1 + delta, first previous id 0; string
//! ids = consecutive slices of the string data, absent length = previous id; every non-ignored entry
//! intersects the all-inclusive definition) must agree with the client: same Ok/Err status for every
//! definition, and for the all-inclusive definition the same list of `p/{id}` URIs (base32hex of the
//! big-endian id without leading zero bytes, computed here independently). An id outside 0..=u32::MAX must
//! be an `Err`, never an `Ok` with a wrapped id.

use crate::iftdrv::{build_font, glyph_keyed_patch, Base, FailingDecoder, ST_APPLY, ST_INTERSECT, ST_REPARSE, ST_SELECT};
use crate::skdrv::Acc;
use crate::sup::{set_sub, CaseOut};
use font_test_data::ift as fx;
use font_types::{Fixed, Tag};
use incremental_font_transfer::patch_group::{PatchGroup, UriStatus};
use incremental_font_transfer::patchmap::{intersecting_patches, DesignSpace, FeatureSet, SubsetDefinition};
use read_fonts::collections::{IntSet, RangeSet};
use read_fonts::FontRef;
use serde_json::{json, Value};
use std::cell::Cell;
use std::collections::{BTreeSet, HashMap};
use vcore::Fnv;

const F_FEAT: u8 = 0x01;
const F_CHILD: u8 = 0x02;
const F_DELTA: u8 = 0x04;
const F_PF: u8 = 0x08;
const F_CP1: u8 = 0x10;
const F_CP2: u8 = 0x20;
const F_IGN: u8 = 0x40;
const F_RES: u8 = 0x80;

const MAX24: i32 = 0x7F_FFFF;
const MIN24: i32 = -0x80_0000;

/// the fixtures' sparse bit set for code points 0..=17 (branch factor 4, height 3)
const CP17: [u8; 3] = [0b0000_1101, 0b0000_0011, 0b0011_0001];

fn put(v: &mut Vec<u8>, x: u32, width: usize) {
    v.extend_from_slice(&x.to_be_bytes()[4 - width..]);
}

// ---------------------------------------------------------------------------------------------
// the builder's model of an entry and of the table
// ---------------------------------------------------------------------------------------------

#[derive(Clone, Debug, Default)]
pub enum Cp {
    #[default]
    None,
    /// CODEPOINTS_BIT_1: sparse bit set, no bias
    B1(Vec<u8>),
    /// CODEPOINTS_BIT_2: u16 bias + sparse bit set
    B2(u16, Vec<u8>),
    /// both bits: u24 bias + sparse bit set
    B3(u32, Vec<u8>),
}

#[derive(Clone, Debug, Default)]
pub struct Ent {
    /// IGNORED / RESERVED bits
    pub extra: u8,
    /// (feature tags, design space segments (tag, start, end as raw 16.16))
    pub feat: Option<(Vec<[u8; 4]>, Vec<([u8; 4], i32, i32)>)>,
    /// (raw childEntryMatchModeAndCount byte, child indices written)
    pub child: Option<(u8, Vec<u32>)>,
    /// Int24 id delta (numeric ids) or u16 id string length (string ids)
    pub delta: Option<i32>,
    pub pf: Option<u8>,
    pub cp: Cp,
}

impl Ent {
    fn ignored() -> Ent {
        Ent { extra: F_IGN, ..Default::default() }
    }
    fn with_delta(mut self, d: Option<i32>) -> Ent {
        self.delta = d;
        self
    }
    fn live(live: bool) -> Ent {
        if live {
            Ent { cp: Cp::B1(CP17.to_vec()), ..Default::default() }
        } else {
            Ent::ignored()
        }
    }
    fn flags(&self) -> u8 {
        let mut f = self.extra;
        if self.feat.is_some() {
            f |= F_FEAT;
        }
        if self.child.is_some() {
            f |= F_CHILD;
        }
        if self.delta.is_some() {
            f |= F_DELTA;
        }
        if self.pf.is_some() {
            f |= F_PF;
        }
        f | match self.cp {
            Cp::None => 0,
            Cp::B1(_) => F_CP1,
            Cp::B2(..) => F_CP2,
            Cp::B3(..) => F_CP1 | F_CP2,
        }
    }
    fn enc(&self, string_ids: bool, out: &mut Vec<u8>) {
        out.push(self.flags());
        if let Some((tags, segs)) = &self.feat {
            out.push(tags.len() as u8);
            for t in tags {
                out.extend_from_slice(t);
            }
            put(out, segs.len() as u32, 2);
            for (t, a, b) in segs {
                out.extend_from_slice(t);
                put(out, *a as u32, 4);
                put(out, *b as u32, 4);
            }
        }
        if let Some((mc, idx)) = &self.child {
            out.push(*mc);
            for i in idx {
                put(out, *i, 3);
            }
        }
        if let Some(d) = self.delta {
            put(out, d as u32, if string_ids { 2 } else { 3 });
        }
        if let Some(pf) = self.pf {
            out.push(pf);
        }
        match &self.cp {
            Cp::None => {}
            Cp::B1(s) => out.extend_from_slice(s),
            Cp::B2(b, s) => {
                put(out, *b as u32, 2);
                out.extend_from_slice(s);
            }
            Cp::B3(b, s) => {
                put(out, *b, 3);
                out.extend_from_slice(s);
            }
        }
    }
}

fn enc_all(ents: &[Ent], string_ids: bool) -> Vec<u8> {
    let mut v = vec![];
    for e in ents {
        e.enc(string_ids, &mut v);
    }
    v
}

#[derive(Clone, Debug)]
pub struct Map {
    pub field_flags: u8,
    pub default_format: u8,
    pub count: u32,
    pub entries: Vec<u8>,
    pub template: Vec<u8>,
    pub template_len: Option<u16>,
    /// u32 words written between the template and the entries (the optional CFF / CFF2 charstrings offsets)
    pub cff: Vec<u32>,
    pub strings: Option<Vec<u8>>,
    pub entries_offset: Option<u32>,
    pub strings_offset: Option<u32>,
}

impl Map {
    fn new(entries: Vec<u8>, count: u32) -> Map {
        Map {
            field_flags: 0,
            default_format: 3,
            count,
            entries,
            template: b"p/{id}".to_vec(),
            template_len: None,
            cff: vec![],
            strings: None,
            entries_offset: None,
            strings_offset: None,
        }
    }
    fn of(ents: &[Ent]) -> Map {
        Map::new(enc_all(ents, false), ents.len() as u32)
    }
    /// length of everything in front of the entries
    fn header_len(&self) -> usize {
        1 + 3 + 1 + 16 + 1 + 3 + 4 + 4 + 2 + self.template.len() + 4 * self.cff.len()
    }
    fn bytes(&self) -> Vec<u8> {
        let mut t = vec![2u8, 0, 0, 0, self.field_flags];
        // the compatibility id of the glyph-keyed fixture patch
        for c in [6u32, 7, 8, 9] {
            put(&mut t, c, 4);
        }
        t.push(self.default_format);
        put(&mut t, self.count, 3);
        let eo = self.header_len();
        put(&mut t, self.entries_offset.unwrap_or(eo as u32), 4);
        let so = match (&self.strings, self.strings_offset) {
            (_, Some(o)) => o,
            (Some(_), None) => (eo + self.entries.len()) as u32,
            (None, None) => 0,
        };
        put(&mut t, so, 4);
        put(&mut t, self.template_len.map(|l| l as u32).unwrap_or(self.template.len() as u32), 2);
        t.extend_from_slice(&self.template);
        for w in &self.cff {
            put(&mut t, *w, 4);
        }
        debug_assert_eq!(t.len(), eo);
        t.extend_from_slice(&self.entries);
        if let Some(s) = &self.strings {
            t.extend_from_slice(s);
        }
        t
    }
}

/// What the specification says about a table (only set where it leaves no room).
#[derive(Clone, Debug, PartialEq)]
pub enum Expect {
    /// nothing asserted beyond totality
    None,
    /// the table is invalid because an entry id leaves 0..=u32::MAX or an id string leaves the string data
    Err,
    /// valid: the ids (as bytes for the `{id}` expansion) of the non-ignored entries, in entry order
    Ids(Vec<Vec<u8>>),
}

pub struct Item {
    pub desc: String,
    pub map: Vec<u8>,
    pub expect: Expect,
}

fn num_id_bytes(id: u32) -> Vec<u8> {
    let b = id.to_be_bytes();
    let skip = b.iter().take_while(|x| **x == 0).count().min(3);
    b[skip..].to_vec()
}

/// From-spec decoding of numeric ids on the model: id = previous + 1 + delta (previous starts at 0).
fn spec_numeric(ents: &[Ent]) -> Expect {
    let mut last: i64 = 0;
    let mut out = vec![];
    for e in ents {
        let id = last + 1 + e.delta.unwrap_or(0) as i64;
        if !(0..=u32::MAX as i64).contains(&id) {
            return Expect::Err;
        }
        last = id;
        if e.extra & F_IGN == 0 {
            out.push(num_id_bytes(id as u32));
        }
    }
    Expect::Ids(out)
}

/// From-spec decoding of string ids on the model.
fn spec_strings(ents: &[Ent], data: &[u8]) -> Expect {
    let mut pos = 0usize;
    let mut last: Vec<u8> = vec![];
    let mut out = vec![];
    for e in ents {
        if let Some(len) = e.delta {
            let len = len as usize;
            if pos + len > data.len() {
                return Expect::Err;
            }
            last = data[pos..pos + len].to_vec();
            pos += len;
        }
        if e.extra & F_IGN == 0 {
            out.push(last.clone());
        }
    }
    Expect::Ids(out)
}

/// `{id}` expansion: base32hex without padding.
pub fn base32hex(bytes: &[u8]) -> String {
    const SYM: &[u8; 32] = b"0123456789ABCDEFGHIJKLMNOPQRSTUV";
    let mut out = String::new();
    let (mut acc, mut bits) = (0u32, 0u32);
    for b in bytes {
        acc = (acc << 8) | *b as u32;
        bits += 8;
        while bits >= 5 {
            out.push(SYM[((acc >> (bits - 5)) & 31) as usize] as char);
            bits -= 5;
        }
        acc &= (1 << bits) - 1;
    }
    if bits > 0 {
        out.push(SYM[((acc << (5 - bits)) & 31) as usize] as char);
    }
    out
}

// ---------------------------------------------------------------------------------------------
// sparse bit sets
// ---------------------------------------------------------------------------------------------

pub const BFS: [u32; 4] = [2, 4, 8, 32];
fn max_height(bf: u32) -> u32 {
    match bf {
        2 => 31,
        4 => 16,
        8 => 11,
        _ => 7,
    }
}

/// header byte + the nodes (each `bf` bits, least significant bit = first child), in stream order
fn sbs_nodes(bf: u32, height: u32, nodes: &[u32]) -> Vec<u8> {
    let code = BFS.iter().position(|b| *b == bf).unwrap() as u8;
    let mut out = vec![code | ((height as u8 & 31) << 2)];
    let (mut acc, mut bits) = (0u64, 0u32);
    for n in nodes {
        acc |= (*n as u64) << bits;
        bits += bf;
        while bits >= 8 {
            out.push(acc as u8);
            acc >>= 8;
            bits -= 8;
        }
    }
    if bits > 0 {
        out.push(acc as u8);
    }
    out
}

/// Breadth-first encoding of a non-empty sorted value list (every value < bf^height).
fn sbs_values(bf: u32, height: u32, values: &[u64]) -> Vec<u8> {
    let mut nodes = vec![];
    for d in 1..=height {
        let span = (bf as u64).pow(height - d + 1);
        let child = (bf as u64).pow(height - d);
        let mut cur: Option<(u64, u32)> = None;
        for v in values {
            let p = v / span;
            let bit = ((v / child) % bf as u64) as u32;
            match &mut cur {
                Some((cp, m)) if *cp == p => *m |= 1 << bit,
                _ => {
                    if let Some((_, m)) = cur {
                        nodes.push(m);
                    }
                    cur = Some((p, 1 << bit));
                }
            }
        }
        if let Some((_, m)) = cur {
            nodes.push(m);
        }
    }
    sbs_nodes(bf, height, &nodes)
}

/// (name, bytes, structurally valid with height <= the client's limit)
fn sbs_shapes(bf: u32, bias: u32) -> Vec<(String, Vec<u8>, bool)> {
    let h = max_height(bf);
    let last = 1u32 << (bf - 1);
    let ones = if bf == 32 { u32::MAX } else { (1u32 << bf) - 1 };
    let top = (bf as u64).pow(h) - 1;
    let mut chain_last = vec![last; h as usize];
    let full_chain = sbs_nodes(bf, h, &chain_last);
    let mut cut = full_chain.clone();
    cut.pop();
    chain_last[h as usize - 1] = 0;
    let mut first_chain = vec![1u32; h as usize];
    first_chain[h as usize - 1] = ones;
    let exact = 0x10FFFFu64.saturating_sub(bias as u64);
    let mut out = vec![
        ("height 0".to_string(), sbs_nodes(bf, 0, &[]), true),
        ("height 1, all children".to_string(), sbs_nodes(bf, 1, &[ones]), true),
        (format!("height {h}, root node zero (fill)"), sbs_nodes(bf, h, &[0]), true),
        (format!("height {h}, last-child chain to value {top}"), full_chain, true),
        (format!("height {h}, last-child chain ending in a fill node"), sbs_nodes(bf, h, &chain_last), true),
        (format!("height {h}, first-child chain, leaf all ones"), sbs_nodes(bf, h, &first_chain), true),
        (format!("height {} (above the limit), root node zero", h + 1), sbs_nodes(bf, h + 1, &[0]), false),
        ("height 31, root node zero".to_string(), sbs_nodes(bf, 31, &[0]), h == 31),
        (format!("height {h}, values {{0, {exact}}} (0x10FFFF - bias)"), sbs_values(bf, h, &if exact == 0 { vec![0] } else { vec![0, exact] }), true),
        (format!("height {h}, values {{0, {}}}", top.min(u32::MAX as u64)), sbs_values(bf, h, &[0, top.min(u32::MAX as u64)]), true),
        (format!("height {h}, last-child chain cut by one byte"), cut, false),
        ("no data".to_string(), vec![], false),
    ];
    for s in out.iter_mut() {
        s.0 = format!("branch factor {bf}, {}", s.0);
    }
    out
}

// ---------------------------------------------------------------------------------------------
// families
// ---------------------------------------------------------------------------------------------

pub const TARGETS: [u32; 13] = [0, 1, 5, 0xFFFF, 0x1_0000, 0xFF_FFFF, 0x100_0000, 0x7FFF_FFFE, 0x7FFF_FFFF, 0x8000_0000, 0xFFFF_FFFD, 0xFFFF_FFFE, 0xFFFF_FFFF];

/// ignored entries with the maximum delta, then the delta of the entry that lands on `t`
fn chain_to(t: u32) -> (Vec<Ent>, i32) {
    let n = t >> 23;
    let fillers = (0..n).map(|_| Ent::ignored().with_delta(Some(MAX24))).collect();
    (fillers, (t - (n << 23)) as i32 - 1)
}

fn follower_deltas(t: u32) -> Vec<Option<i32>> {
    let mut v: Vec<Option<i32>> = vec![None, Some(0), Some(1), Some(-1), Some(-2), Some(-4), Some(MIN24), Some(MAX24), Some(MAX24 - 1)];
    let t = t as i64;
    // follower id = t + 1 + delta
    for d in [-(t + 1), -(t + 2), u32::MAX as i64 - t - 1, u32::MAX as i64 - t] {
        if (MIN24 as i64..=MAX24 as i64).contains(&d) && !v.contains(&Some(d as i32)) {
            v.push(Some(d as i32));
        }
    }
    v
}

fn fam_idchain() -> Vec<Item> {
    let mut out = vec![];
    for t in TARGETS {
        let (prefix, land) = chain_to(t);
        for lander_live in [false, true] {
            let mut base = prefix.clone();
            base.push(Ent::live(lander_live).with_delta(Some(land)));
            let lname = format!("{} ignored max-delta entries, then a {} entry landing on id {t:#x}", prefix.len(), if lander_live { "live" } else { "ignored" });
            out.push(Item { desc: format!("{lname}; last entry"), map: Map::of(&base).bytes(), expect: spec_numeric(&base) });
            for d in follower_deltas(t) {
                for f_live in [false, true] {
                    for tail in [false, true] {
                        let mut ents = base.clone();
                        ents.push(Ent::live(f_live).with_delta(d));
                        if tail {
                            ents.push(Ent::live(true));
                            ents.push(Ent::live(true).with_delta(Some(-1)));
                        }
                        out.push(Item {
                            desc: format!("{lname}; {} follower with id delta {d:?}{}", if f_live { "live" } else { "ignored" }, if tail { "; then two live entries (no delta, delta -1)" } else { "" }),
                            map: Map::of(&ents).bytes(),
                            expect: spec_numeric(&ents),
                        });
                    }
                }
            }
        }
    }
    out
}

fn string_map(ents: &[Ent], data: &[u8]) -> Map {
    let mut m = Map::new(enc_all(ents, true), ents.len() as u32);
    m.strings = Some(data.to_vec());
    m
}

fn fam_strid() -> Vec<Item> {
    let mut out = vec![];
    for l in [0usize, 1, 4, 300, 65535, 65540] {
        let data: Vec<u8> = (0..l).map(|i| (i % 251) as u8).collect();
        let mut lens: Vec<Option<i32>> = vec![None, Some(0), Some(1), Some(3)];
        for x in [l, l + 1, 0xFFFF] {
            if x <= 0xFFFF && !lens.contains(&Some(x as i32)) {
                lens.push(Some(x as i32));
            }
        }
        for a in &lens {
            for b in &lens {
                let ents = vec![Ent::default().with_delta(*a), Ent::default().with_delta(*b), Ent::default(), Ent::default().with_delta(Some(1))];
                out.push(Item {
                    desc: format!("string ids, {l} bytes of string data, id lengths {a:?}, {b:?}, absent, 1"),
                    map: string_map(&ents, &data).bytes(),
                    expect: spec_strings(&ents, &data),
                });
            }
        }
    }
    // the string data offset itself
    let data = b"abcdefgh".to_vec();
    let ents = vec![Ent::default().with_delta(Some(3)), Ent::default(), Ent::default().with_delta(Some(5)), Ent::default().with_delta(Some(1))];
    let m = string_map(&ents, &data);
    let total = m.bytes().len() as u32;
    for (name, off) in [
        ("1", 1u32),
        ("the header length (= entries)", m.header_len() as u32),
        ("the last byte", total - 1),
        ("the table length", total),
        ("the table length + 1", total + 1),
        ("0x7FFFFFFF", 0x7FFF_FFFF),
        ("0xFFFFFFFF", u32::MAX),
    ] {
        let mut m = m.clone();
        m.strings_offset = Some(off);
        out.push(Item { desc: format!("string ids, id lengths 3, absent, 5, 1; string data offset = {name}"), map: m.bytes(), expect: Expect::None });
    }
    out
}

fn seq_ids(n: u32) -> Expect {
    Expect::Ids((1..=n).map(num_id_bytes).collect())
}

fn fam_count() -> Vec<Item> {
    let mut out = vec![];
    for n in [0u32, 1, 3] {
        for count in [0u32, 1, 2, 3, 4, 0xFFFF, 0xFF_FFFF] {
            let m = Map::new(vec![0u8; n as usize], count);
            out.push(Item {
                desc: format!("entryCount {count} with {n} one-byte entries present"),
                map: m.bytes(),
                expect: if count <= n { seq_ids(count) } else { Expect::None },
            });
        }
    }
    out.push(Item { desc: "entryCount 70000 with 70000 one-byte entries present".into(), map: Map::new(vec![0u8; 70000], 70000).bytes(), expect: seq_ids(70000) });
    out.push(Item { desc: "entryCount 0xFFFFFF with 70000 one-byte entries present".into(), map: Map::new(vec![0u8; 70000], 0xFF_FFFF).bytes(), expect: Expect::None });
    let m = Map::new(vec![0u8; 3], 3);
    let total = m.bytes().len() as u32;
    for (name, off) in [
        ("0", 0u32),
        ("1", 1),
        ("header length - 1", m.header_len() as u32 - 1),
        ("table length - 1", total - 1),
        ("table length", total),
        ("table length + 1", total + 1),
        ("0x7FFFFFFF", 0x7FFF_FFFF),
        ("0xFFFFFFFF", u32::MAX),
    ] {
        let mut m = m.clone();
        m.entries_offset = Some(off);
        out.push(Item { desc: format!("3 one-byte entries; entries offset = {name}"), map: m.bytes(), expect: Expect::None });
    }
    out
}

pub const CHAIN_DEPTHS: [u32; 4] = [64, 1000, 20_000, 200_000];

fn fam_child() -> Vec<Item> {
    let mut out = vec![];
    for n in [0u32, 1, 3, 127, 128, 200] {
        for mc in [0x00u8, 0x01, 0x02, 0x7F, 0x80, 0x81, 0xFF] {
            let k = (mc & 0x7F) as usize;
            let mut values = vec![0u32];
            for v in [n.wrapping_sub(1), n, n + 1, 0xFF_FFFF] {
                if v != u32::MAX && !values.contains(&v) {
                    values.push(v);
                }
            }
            for v in &values {
                for all in [true, false] {
                    if (!all && (k < 2 || *v == 0)) || (k == 0 && *v != 0) {
                        continue; // same table as another combination
                    }
                    let idx: Vec<u32> = (0..k).map(|i| if all || i == k - 1 { *v } else { 0 }).collect();
                    let valid = n > 0 && *v < n;
                    for cut in [false, true] {
                        if cut && k == 0 {
                            continue;
                        }
                        let mut bytes = vec![0u8; n as usize];
                        Ent { child: Some((mc, idx.clone())), ..Default::default() }.enc(false, &mut bytes);
                        let mut count = n + 1;
                        if cut {
                            bytes.pop();
                        } else {
                            bytes.push(0);
                            count += 1;
                        }
                        out.push(Item {
                            desc: format!(
                                "{n} plain entries, then childEntryMatchModeAndCount {mc:#04x} with {} = {v}{}",
                                if all { "every child index" } else { "the last child index (others 0)" },
                                if cut { ", cut by one byte" } else { ", then a plain entry" }
                            ),
                            map: Map::new(bytes, count).bytes(),
                            expect: if (valid || k == 0) && !cut { seq_ids(count) } else { Expect::None },
                        });
                    }
                }
            }
        }
    }
    out
}

/// Chains of ignored entries, each naming its predecessor as its only child; the final live entry names the
/// last of them. One supervised case per item: a stack overflow kills the worker.
fn fam_childchain() -> Vec<Item> {
    let mut out = vec![];
    for depth in CHAIN_DEPTHS {
        for mc in [0x01u8, 0x81] {
            let mut bytes = vec![F_IGN];
            for i in 1..=depth {
                bytes.push(F_IGN | F_CHILD);
                bytes.push(mc);
                put(&mut bytes, i - 1, 3);
            }
            bytes.push(F_CHILD);
            bytes.push(mc);
            put(&mut bytes, depth, 3);
            out.push(Item {
                desc: format!("chain of {depth} ignored entries each with child = predecessor (mode byte {mc:#04x}), then a live entry whose child is the last of them"),
                map: Map::new(bytes, depth + 2).bytes(),
                expect: Expect::Ids(vec![num_id_bytes(depth + 2)]),
            });
        }
    }
    out
}

const FX_MIN: i32 = i32::MIN;
const FX_MAX: i32 = i32::MAX;
pub const SEGS: [(i32, i32); 11] = [
    (0, 0),
    (FX_MIN, FX_MAX),
    (FX_MAX, FX_MIN),
    (FX_MIN, FX_MIN),
    (FX_MAX, FX_MAX),
    (-1, 0),
    (1, 0),
    (FX_MIN, -1),
    (0, FX_MAX),
    (FX_MAX - 1, FX_MAX),
    (100 << 16, 400 << 16),
];

fn fam_design() -> Vec<Item> {
    let mut out = vec![];
    for df in [1u8, 3] {
        for a in SEGS {
            for b in SEGS {
                for tag2 in [*b"wght", *b"wdth"] {
                    let e = Ent { feat: Some((vec![*b"liga"], vec![(*b"wght", a.0, a.1), (tag2, b.0, b.1)])), ..Default::default() };
                    let ents = vec![e, Ent::default()];
                    let mut m = Map::of(&ents);
                    m.default_format = df;
                    let valid = a.0 <= a.1 && b.0 <= b.1;
                    out.push(Item {
                        desc: format!("default patch format {df}; design space segments wght [{:#x}, {:#x}] and {} [{:#x}, {:#x}] (raw 16.16)", a.0, a.1, String::from_utf8_lossy(&tag2), b.0, b.1),
                        map: m.bytes(),
                        expect: if valid { spec_numeric(&ents) } else { Expect::None },
                    });
                }
            }
        }
    }
    // counts against the data present
    for fc in [0u8, 1, 255] {
        for f_present in [0usize, fc as usize] {
            for dc in [0u16, 1, 2, 0xFFFF] {
                for d_present in [0usize, 1, dc as usize] {
                    if d_present > 2 || (f_present < fc as usize && d_present > 0) {
                        continue;
                    }
                    let mut bytes = vec![F_FEAT, fc];
                    for i in 0..f_present {
                        bytes.extend_from_slice(&[b't', b'0' + (i / 100) as u8, b'0' + (i / 10 % 10) as u8, b'0' + (i % 10) as u8]);
                    }
                    put(&mut bytes, dc as u32, 2);
                    for i in 0..d_present {
                        bytes.extend_from_slice(b"wght");
                        put(&mut bytes, (i as u32) << 16, 4);
                        put(&mut bytes, (i as u32 + 1) << 16, 4);
                    }
                    let complete = f_present == fc as usize && d_present == dc as usize;
                    bytes.push(0);
                    out.push(Item {
                        desc: format!("featureCount {fc} with {f_present} tags present, designSpaceCount {dc} with {d_present} segments present, then a plain entry"),
                        map: Map::new(bytes, 2).bytes(),
                        expect: if complete { seq_ids(2) } else { Expect::None },
                    });
                }
            }
        }
    }
    for df in [1u8, 3] {
        // 5000 segments, each epsilon-adjacent to the next (they merge into one range), written in descending order
        let segs: Vec<([u8; 4], i32, i32)> = (0..5000).rev().map(|i| (*b"wght", i * 10, i * 10 + 9)).collect();
        let ents = vec![Ent { feat: Some((vec![], segs)), ..Default::default() }, Ent::default()];
        let mut m = Map::of(&ents);
        m.default_format = df;
        out.push(Item { desc: format!("default patch format {df}; 5000 epsilon-adjacent design space segments in descending order"), map: m.bytes(), expect: spec_numeric(&ents) });
    }
    out
}

fn fam_codepoints() -> Vec<Item> {
    let mut out = vec![];
    let mut biases: Vec<(String, u32, u8)> = vec![("no bias".into(), 0, 1)];
    for b in [0u32, 1, 0xFFFF] {
        biases.push((format!("u16 bias {b:#x}"), b, 2));
    }
    for b in [0u32, 1, 0x10_FFFE, 0x10_FFFF, 0x11_0000, 0xFF_FFFF] {
        biases.push((format!("u24 bias {b:#x}"), b, 3));
    }
    for (bname, bias, kind) in &biases {
        for bf in BFS {
            for (sname, sbs, valid) in sbs_shapes(bf, *bias) {
                let cp = match kind {
                    1 => Cp::B1(sbs),
                    2 => Cp::B2(*bias as u16, sbs),
                    _ => Cp::B3(*bias, sbs),
                };
                let ents = vec![Ent { cp, ..Default::default() }, Ent::default()];
                out.push(Item {
                    desc: format!("code points: {bname}, sparse bit set: {sname}; then a plain entry"),
                    map: Map::of(&ents).bytes(),
                    expect: if valid { spec_numeric(&ents) } else { Expect::None },
                });
            }
        }
    }
    out
}

pub const FORMATS: [u8; 6] = [0, 1, 2, 3, 4, 255];

fn fam_format() -> Vec<Item> {
    let mut out = vec![];
    for df in FORMATS {
        for pf in std::iter::once(None).chain(FORMATS.iter().map(|f| Some(*f))) {
            for ign in [false, true] {
                for res in [false, true] {
                    let e0 = Ent { extra: if ign { F_IGN } else { 0 } | if res { F_RES } else { 0 }, pf, cp: Cp::B1(CP17.to_vec()), ..Default::default() };
                    let ents = vec![e0, Ent::default(), Ent { pf: Some(2), ..Default::default() }, Ent { pf: Some(3), ..Default::default() }];
                    let mut m = Map::of(&ents);
                    m.default_format = df;
                    let valid = (1..=3).contains(&df) && pf.map(|p| (1..=3).contains(&p)).unwrap_or(true);
                    out.push(Item {
                        desc: format!("default patch format {df}; entry 0 patch format {pf:?}{}{}; then entries with default format, format 2, format 3", if ign { ", ignored" } else { "" }, if res { ", reserved flag bit set" } else { "" }),
                        map: m.bytes(),
                        expect: if valid { spec_numeric(&ents) } else { Expect::None },
                    });
                }
            }
        }
    }
    out
}

pub const BODIES: [&str; 7] = ["complete", "first 0 bytes", "first 1 byte", "first 2 bytes", "first 3 bytes", "32 zero bytes", "32 FF bytes"];

fn fam_flags() -> Vec<Item> {
    let mut out = vec![];
    let strings = b"abcdefgh".to_vec();
    for string_ids in [false, true] {
        for flags in 0..=255u8 {
            let e = Ent {
                extra: flags & (F_IGN | F_RES),
                feat: (flags & F_FEAT != 0).then(|| (vec![*b"liga"], vec![(*b"wght", 100 << 16, 400 << 16)])),
                child: (flags & F_CHILD != 0).then(|| (0x01, vec![0])),
                delta: (flags & F_DELTA != 0).then_some(if string_ids { 2 } else { 3 }),
                pf: (flags & F_PF != 0).then_some(3),
                cp: match flags & (F_CP1 | F_CP2) {
                    0 => Cp::None,
                    F_CP1 => Cp::B1(CP17.to_vec()),
                    F_CP2 => Cp::B2(5, CP17.to_vec()),
                    _ => Cp::B3(5, CP17.to_vec()),
                },
            };
            debug_assert_eq!(e.flags(), flags);
            let ents = vec![Ent::default(), Ent::default(), e, Ent::default()];
            let complete = enc_all(&ents, string_ids);
            let body_at = 3usize;
            for (bi, bname) in BODIES.iter().enumerate() {
                let mut bytes = complete[..body_at].to_vec();
                match bi {
                    0 => bytes = complete.clone(),
                    1..=4 => bytes.extend_from_slice(&complete[body_at..(body_at + bi - 1).min(complete.len())]),
                    5 => bytes.extend_from_slice(&[0u8; 32]),
                    _ => bytes.extend_from_slice(&[0xFFu8; 32]),
                }
                let mut m = Map::new(bytes, 4);
                if string_ids {
                    m.strings = Some(strings.clone());
                }
                out.push(Item {
                    desc: format!("{} ids; two plain entries, then an entry with format flags {flags:#010b} and body: {bname}; entryCount 4", if string_ids { "string" } else { "numeric" }),
                    map: m.bytes(),
                    expect: match (bi, string_ids) {
                        (0, false) => spec_numeric(&ents),
                        (0, true) => spec_strings(&ents, &strings),
                        _ => Expect::None,
                    },
                });
            }
        }
    }
    out
}

fn fam_header() -> Vec<Item> {
    let mut out = vec![];
    // live entries with ids 0, 1, 31, 32, 0xFFFF, 0x800000 and (after 510 ignored max-delta entries) u32::MAX
    let mut ents: Vec<Ent> = [-1i32, 0, 29, 0, 0xFFFF - 33, 0x80_0000 - 0x1_0000].iter().map(|d| Ent::default().with_delta(Some(*d))).collect();
    ents.extend((0..510).map(|_| Ent::ignored().with_delta(Some(MAX24))));
    ents.push(Ent::default().with_delta(Some(MAX24 - 1)));
    let templates: Vec<(&str, Vec<u8>)> = vec![
        ("p/{id}", b"p/{id}".to_vec()),
        ("{id64}", b"{id64}".to_vec()),
        ("{d1}/{d2}/{d3}/{d4}/{id}", b"{d1}/{d2}/{d3}/{d4}/{id}".to_vec()),
        ("{d4}{d4}{id64}{id}", b"{d4}{d4}{id64}{id}".to_vec()),
        ("empty", vec![]),
        ("{", b"{".to_vec()),
        ("{id", b"{id".to_vec()),
        ("}", b"}".to_vec()),
        ("{idx}", b"{idx}".to_vec()),
        ("{d5}", b"{d5}".to_vec()),
        ("{id6}", b"{id6}".to_vec()),
        ("%", b"a%".to_vec()),
        ("%4", b"a%4".to_vec()),
        ("%zz", b"a%zz{id}".to_vec()),
        ("invalid UTF-8", vec![b'p', 0xFF, 0xFE]),
        ("non-ASCII", "p/é/{id}".as_bytes().to_vec()),
        ("65535 literal bytes", vec![b'a'; 65535]),
        ("1000 x {id64}", b"{id64}".repeat(1000)),
    ];
    for (name, t) in &templates {
        let mut m = Map::of(&ents);
        m.template = t.clone();
        out.push(Item { desc: format!("URI template {name}; live entries with ids 0, 1, 31, 32, 0xFFFF, 0x800000, u32::MAX"), map: m.bytes(), expect: if *name == "p/{id}" { spec_numeric(&ents) } else { Expect::None } });
    }
    let small = vec![Ent::default(), Ent::live(true), Ent::default().with_delta(Some(5))];
    for (name, len) in [("0", 0u16), ("actual + 1", 7), ("actual - 1", 5), ("0xFFFF", 0xFFFF)] {
        let mut m = Map::of(&small);
        m.template_len = Some(len);
        // keep the declared entries offset where the entries really are
        m.entries_offset = Some(m.header_len() as u32);
        out.push(Item { desc: format!("URI template length field = {name} (template p/{{id}}, 3 entries)"), map: m.bytes(), expect: Expect::None });
    }
    for ff in [0u8, 1, 2, 3, 0x80, 0xFF] {
        for words in 0..=2usize {
            let mut m = Map::of(&small);
            m.field_flags = ff;
            m.cff = vec![0xFFFF_FFFF; words];
            let needed = (ff & 1) as usize + ((ff >> 1) & 1) as usize;
            out.push(Item {
                desc: format!("field flags {ff:#04x} with {words} charstrings-offset words (0xFFFFFFFF) present; 3 entries"),
                map: m.bytes(),
                expect: if words >= needed { spec_numeric(&small) } else { Expect::None },
            });
        }
    }
    out
}

/// (family, parts): the items of a family are dealt round-robin to `parts` supervised cases
pub const FAMILIES: [(&str, u64); 10] = [("idchain", 6), ("strid", 3), ("count", 2), ("child", 4), ("childchain", 8), ("design", 2), ("codepoints", 2), ("format", 1), ("flags", 4), ("header", 2)];

pub fn family(name: &str) -> Option<Vec<Item>> {
    Some(match name {
        "idchain" => fam_idchain(),
        "strid" => fam_strid(),
        "count" => fam_count(),
        "child" => fam_child(),
        "childchain" => fam_childchain(),
        "design" => fam_design(),
        "codepoints" => fam_codepoints(),
        "format" => fam_format(),
        "flags" => fam_flags(),
        "header" => fam_header(),
        _ => return None,
    })
}

// ---------------------------------------------------------------------------------------------
// driver
// ---------------------------------------------------------------------------------------------

pub fn defs() -> Vec<(&'static str, SubsetDefinition)> {
    let cps = |v: &[u32]| -> IntSet<u32> { v.iter().copied().collect() };
    let feats = |v: &[&[u8; 4]]| FeatureSet::Set(v.iter().map(|t| Tag::new(*t)).collect::<BTreeSet<_>>());
    let ds = |v: &[(&[u8; 4], Fixed, Fixed)]| {
        let mut m: HashMap<Tag, RangeSet<Fixed>> = HashMap::new();
        for (t, a, b) in v {
            m.entry(Tag::new(*t)).or_default().insert(*a..=*b);
        }
        DesignSpace::Ranges(m)
    };
    vec![
        ("all-inclusive", SubsetDefinition::all()),
        ("all code points, no features, no design space", SubsetDefinition::new(IntSet::all(), FeatureSet::default(), DesignSpace::default())),
        ("empty", SubsetDefinition::new(IntSet::empty(), FeatureSet::default(), DesignSpace::default())),
        ("cp{5,0x41}+liga+wght[100,400]", SubsetDefinition::new(cps(&[5, 0x41]), feats(&[b"liga"]), ds(&[(b"wght", Fixed::from_i32(100), Fixed::from_i32(400))]))),
        (
            "cp{0,0x10FFFF,u32::MAX}+all features+wght[MIN,MAX]+wdth[MAX,MAX]",
            SubsetDefinition::new(cps(&[0, 0x10FFFF, u32::MAX]), FeatureSet::All, ds(&[(b"wght", Fixed::MIN, Fixed::MAX), (b"wdth", Fixed::MAX, Fixed::MAX)])),
        ),
    ]
}

fn patch_bytes() -> Vec<u8> {
    // compatibility id 6,7,8,9 as in `Map::bytes`
    glyph_keyed_patch(fx::glyph_keyed_patch_header(), fx::glyf_u16_glyph_patches())
}

fn run_item(acc: &mut Acc, fam: &str, idx: u64, item: &Item, all_defs: &[(&'static str, SubsetDefinition)], patch: &[u8]) {
    let font_bytes = build_font(&Base::Glyf(None), &[("IFT ".to_string(), item.map.clone())]);
    let mut any_ok = false;
    for (di, (dname, def)) in all_defs.iter().enumerate() {
        acc.evals += 1;
        let mut h = Fnv::new();
        h.str("iftf2");
        h.str(fam);
        h.u64((idx << 8) + di as u64);
        // (Ok(uri strings) | Err(text)); uri strings as Result debug text
        let r = acc.call(ST_INTERSECT, || {
            let font = FontRef::new(&font_bytes).map_err(|e| format!("font: {e:?}"))?;
            let v = intersecting_patches(&font, def).map_err(|e| format!("{e:?}"))?;
            Ok::<_, String>(v.iter().map(|u| (u.uri_string().map_err(|e| format!("{e:?}")), format!("{:?}", u.encoding()))).collect::<Vec<_>>())
        });
        let Some(r) = r else {
            h.str("panic");
            acc.observe(h.finish(), false);
            continue;
        };
        match &r {
            Ok(v) => {
                h.u64(v.len() as u64);
                for (u, e) in v.iter().take(64) {
                    h.str(&format!("{u:?}{e}"));
                }
                any_ok |= !v.is_empty();
            }
            Err(e) => h.str(e),
        }
        // oracle (b)
        match (&item.expect, &r) {
            (Expect::None, _) => {}
            (Expect::Err, Err(_)) => acc.count("spec_status_checked"),
            (Expect::Err, Ok(v)) => {
                let got: Vec<String> = v.iter().rev().take(4).rev().map(|(u, _)| format!("{u:?}")).collect();
                acc.viol(
                    &format!("{fam}: Ok instead of Err for an entry id outside the id space"),
                    ST_INTERSECT,
                    format!("item {idx} ({}), definition {dname}: the specification's decoding rejects the table, the client returned {} URIs ending in {got:?}", item.desc, v.len()),
                    None,
                );
            }
            (Expect::Ids(_), Err(e)) => acc.viol(
                &format!("{fam}: Err for a valid map"),
                ST_INTERSECT,
                format!("item {idx} ({}), definition {dname}: the specification's decoding accepts the table, the client returned Err({e})", item.desc),
                None,
            ),
            (Expect::Ids(ids), Ok(v)) => {
                acc.count("spec_status_checked");
                if di == 0 {
                    let want: Vec<String> = ids.iter().map(|b| format!("p/{}", base32hex(b))).collect();
                    let got: Vec<String> = v.iter().map(|(u, _)| u.clone().unwrap_or_else(|e| format!("<{e}>"))).collect();
                    if want != got {
                        let at = want.iter().zip(got.iter()).position(|(a, b)| a != b).unwrap_or(want.len().min(got.len()));
                        acc.viol(
                            &format!("{fam}: entry ids differ from the specification's decoding"),
                            ST_INTERSECT,
                            format!(
                                "item {idx} ({}), all-inclusive definition: expected {} URIs, got {}; first difference at position {at}: expected {:?}, got {:?}",
                                item.desc, want.len(), got.len(), want.get(at), got.get(at)
                            ),
                            None,
                        );
                    } else {
                        acc.count("spec_ids_checked");
                    }
                }
            }
        }
        // selection
        let sel = acc.call(ST_SELECT, || {
            let font = FontRef::new(&font_bytes).map_err(|e| format!("font {e:?}"))?;
            let group = PatchGroup::select_next_patches(font, def).map_err(|e| format!("select {e:?}"))?;
            let has = group.has_uris();
            let uris: Vec<String> = group.uris().take(1024).map(|s| s.to_string()).collect();
            Ok::<_, String>((group, has, uris))
        });
        match sel {
            None => h.str("select panic"),
            Some(Err(e)) => h.str(&e),
            Some(Ok((group, has, uris))) => {
                h.byte(has as u8);
                h.u64(uris.len() as u64);
                for u in uris.iter().take(16) {
                    h.str(u);
                }
                if di == 0 && (1..=8).contains(&uris.len()) {
                    let mut map: HashMap<String, UriStatus> = uris.iter().map(|u| (u.clone(), UriStatus::Pending(patch.to_vec()))).collect();
                    let decoder = FailingDecoder { fail_at: None, calls: Cell::new(0) };
                    match acc.call(ST_APPLY, || group.apply_next_patches_with_decoder(&mut map, &decoder)) {
                        None => h.str("apply panic"),
                        Some(Err(e)) => {
                            acc.count("apply_err");
                            h.str(&format!("{e:?}"));
                        }
                        Some(Ok(new_font)) => {
                            acc.count("apply_ok");
                            h.u64(vcore::digest_of(&new_font));
                            // the patched font's map (entries now marked as applied) must still be readable
                            let again = acc.call(ST_REPARSE, || {
                                let f = FontRef::new(&new_font).map_err(|e| format!("{e:?}"))?;
                                intersecting_patches(&f, def).map(|v| v.len()).map_err(|e| format!("{e:?}"))
                            });
                            h.str(&format!("{again:?}"));
                        }
                    }
                }
            }
        }
        acc.observe(h.finish(), matches!(&r, Ok(v) if !v.is_empty()));
    }
    if any_ok {
        acc.count("tables_with_intersections");
    }
}

/// `{"driver":"iftf2","family":name,"part":p,"parts":P,"only":idx?,"from":idx?}` — `only` / `from` are item
/// indices within the family.
pub fn drive(spec: &Value) -> CaseOut {
    let Some(fam) = spec["family"].as_str() else {
        return crate::bad_case(format!("iftf2 case without family {spec}"));
    };
    let Some(items) = family(fam) else {
        return crate::bad_case(format!("unknown iftf2 family {spec}"));
    };
    let parts = spec["parts"].as_u64().unwrap_or(1).max(1);
    let part = spec["part"].as_u64().unwrap_or(0);
    let only = spec["only"].as_u64();
    let from = spec["from"].as_u64().unwrap_or(0);
    if only.map(|o| o as usize >= items.len()).unwrap_or(false) {
        return crate::bad_case(format!("iftf2 item out of range {spec}"));
    }
    let mut acc = Acc::new("iftf2");
    let all_defs = defs();
    let patch = patch_bytes();
    for (idx, item) in items.iter().enumerate() {
        let idx = idx as u64;
        if idx < from || idx % parts != part % parts || only.map(|o| o != idx).unwrap_or(false) {
            continue;
        }
        set_sub(idx);
        acc.sub_override = Some(idx);
        acc.count("tables");
        run_item(&mut acc, fam, idx, item, &all_defs, &patch);
    }
    acc.finish()
}

pub fn describe(spec: &Value) -> String {
    let (Some(fam), Some(idx)) = (spec["family"].as_str(), spec["only"].as_u64()) else {
        return String::new();
    };
    let Some(items) = family(fam) else {
        return String::new();
    };
    match items.get(idx as usize) {
        Some(it) if it.map.len() <= 4096 => format!("{}; IFT table = {}", it.desc, vcore::hex(&it.map)),
        Some(it) => format!("{}; IFT table of {} bytes (regenerated from the family index)", it.desc, it.map.len()),
        None => String::new(),
    }
}

pub fn gen_cases() -> Vec<Value> {
    let mut out = vec![];
    for (f, parts) in FAMILIES {
        for p in 0..parts {
            out.push(json!({"driver": "iftf2", "family": f, "part": p, "parts": parts}));
        }
    }
    out
}

pub fn bounds() -> Value {
    let sizes: Vec<Value> = FAMILIES.iter().map(|(f, _)| json!({"family": f, "tables": family(f).map(|v| v.len()).unwrap_or(0),
        "with_spec_expectation": family(f).map(|v| v.iter().filter(|i| i.expect != Expect::None).count()).unwrap_or(0)})).collect();
    json!({"families": sizes,
        "id_targets": TARGETS, "follower_deltas": "absent, 0, +1, -1, -2, -4, -0x800000, 0x7FFFFF, 0x7FFFFE, -(T+1), -(T+2), u32::MAX-T-1, u32::MAX-T (Int24 range)",
        "string_data_lengths": [0, 1, 4, 300, 65535, 65540], "child_chain_depths": CHAIN_DEPTHS,
        "design_segments_raw_16_16": SEGS.iter().map(|s| format!("[{:#x}, {:#x}]", s.0, s.1)).collect::<Vec<_>>(),
        "sparse_bit_set_branch_factors": BFS, "sparse_bit_set_shapes": sbs_shapes(4, 0).iter().map(|s| s.0.clone()).collect::<Vec<_>>(),
        "patch_formats": FORMATS, "flag_bodies": BODIES,
        "subset_definitions": defs().iter().map(|d| d.0).collect::<Vec<_>>(),
        "calls": "intersecting_patches (+uri_string, encoding), select_next_patches (+has_uris, uris); all-inclusive definition with 1..=8 URIs: apply_next_patches_with_decoder + reparse + intersecting_patches"})
}
