//! Driver 2b: composite-glyph reference graphs (cyclic / dangling / deep), synthesised with GlyfLocaBuilder.
//!
//! Family A — all graphs on 3 glyphs: each glyph is one of 25 shapes
//!   {simple triangle} ∪ {composite(a) by xy offset} ∪ {composite(a) by point anchors (0, 200)} ∪
//!   {composite(a, b)}   with a, b ∈ {0, 1, 2, 3 (no such glyph)},
//! i.e. 25³ = 15 625 fonts including every self-reference, 2- and 3-cycle and dangling reference.
//! Family B — chains glyph i → composite(i+1) of length d ∈ CHAIN_DEPTHS, ending in a simple glyph or
//! closing the cycle back to glyph 0.
//! Every glyph id (and one past the end) is drawn unhinted (FreeType + HarfBuzz style, unscaled and 13.5),
//! and hinted with the interpreter and the auto-hinter.
//!
//! A case is a batch of family-A fonts sharing the shape of glyph 0 (625 fonts), or one chain.
//! Oracle: every call returns (no stack exhaustion: GLYF_COMPOSITE_RECURSION_LIMIT) and none panics.

use crate::skdrv::{Acc, HashPen};
use crate::sup::{set_sub, CaseOut};
use font_types::GlyphId16;
use read_fonts::tables::glyf::{Anchor, CurvePoint, Transform};
use read_fonts::FontRef;
use serde_json::{json, Value};
use skrifa::instance::{LocationRef, Size};
use skrifa::outline::pen::PathStyle;
use skrifa::outline::{DrawSettings, Engine, HintingInstance, HintingOptions, Target};
use skrifa::raw::types::GlyphId;
use skrifa::{MetadataProvider, Tag};
use vcore::Fnv;
use write_fonts::tables::glyf::{Bbox, Component, ComponentFlags, CompositeGlyph, Contour, GlyfLocaBuilder, Glyph, SimpleGlyph};
use write_fonts::tables::loca::LocaFormat;
use write_fonts::{dump_table, FontBuilder};

pub const N_SHAPES: usize = 25;
pub const CHAIN_DEPTHS: [usize; 8] = [2, 31, 32, 33, 34, 64, 200, 2000];

fn triangle() -> Glyph {
    let pts: Vec<CurvePoint> = [(0, 0), (500, 0), (250, 700)].iter().map(|(x, y)| CurvePoint::new(*x, *y, true)).collect();
    let c: Contour = pts.into();
    Glyph::Simple(SimpleGlyph {
        bbox: Bbox { x_min: 0, y_min: 0, x_max: 500, y_max: 700 },
        contours: vec![c],
        instructions: vec![],
    })
}

fn bbox() -> Bbox {
    Bbox { x_min: 0, y_min: 0, x_max: 600, y_max: 800 }
}

fn comp(gid: u16, by_points: bool) -> Component {
    let anchor = if by_points {
        Anchor::Point { base: 0, component: 200 }
    } else {
        Anchor::Offset { x: 10, y: 10 }
    };
    Component::new(GlyphId16::new(gid), anchor, Transform::default(), ComponentFlags::default())
}

/// shape 0: simple; 1..=4: composite(a) xy; 5..=8: composite(a) point anchors; 9..=24: composite(a,b)
pub fn shape(s: usize) -> Glyph {
    match s {
        0 => triangle(),
        1..=4 => Glyph::Composite(CompositeGlyph::new(comp((s - 1) as u16, false), bbox())),
        5..=8 => Glyph::Composite(CompositeGlyph::new(comp((s - 5) as u16, true), bbox())),
        _ => {
            let k = s - 9;
            let mut g = CompositeGlyph::new(comp((k / 4) as u16, false), bbox());
            g.add_component(comp((k % 4) as u16, false), bbox());
            Glyph::Composite(g)
        }
    }
}

fn be16(v: &mut Vec<u8>, x: u16) {
    v.extend_from_slice(&x.to_be_bytes())
}

pub fn build(glyphs: &[Glyph]) -> Vec<u8> {
    build_with_maxp(glyphs, &[8, 2, 64, 16, 2, 4, 8, 4, 2, 32, 64, 4, 4])
}

/// `maxp13` = maxPoints, maxContours, maxCompositePoints, maxCompositeContours, maxZones, maxTwilightPoints,
/// maxStorage, maxFunctionDefs, maxInstructionDefs, maxStackElements, maxSizeOfInstructions,
/// maxComponentElements, maxComponentDepth.
pub fn build_with_maxp(glyphs: &[Glyph], maxp13: &[u16; 13]) -> Vec<u8> {
    let n = glyphs.len() as u16;
    let mut b = GlyfLocaBuilder::new();
    for g in glyphs {
        b.add_glyph(g).unwrap();
    }
    let (glyf, loca, fmt) = b.build();
    let long = matches!(fmt, LocaFormat::Long);
    // head / hhea / maxp / hmtx: fixed-layout byte strings (same layout as `ttprog`)
    let mut head = vec![];
    head.extend_from_slice(&0x0001_0000u32.to_be_bytes());
    head.extend_from_slice(&[0; 8]);
    head.extend_from_slice(&0x5F0F_3CF5u32.to_be_bytes());
    head.extend_from_slice(&[0, 0, 0x03, 0xE8]);
    head.extend_from_slice(&[0; 16]);
    head.extend_from_slice(&[0, 0, 0, 0, 0x02, 0x58, 0x03, 0x20]);
    head.extend_from_slice(&[0, 0, 0, 6, 0, 2, 0, long as u8, 0, 0]);
    let mut hhea = vec![];
    hhea.extend_from_slice(&0x0001_0000u32.to_be_bytes());
    hhea.extend_from_slice(&[0x03, 0x20, 0xFF, 0x38, 0, 0, 0x02, 0x58]);
    hhea.extend_from_slice(&[0; 22]);
    be16(&mut hhea, n);
    let mut maxp = vec![];
    maxp.extend_from_slice(&0x0001_0000u32.to_be_bytes());
    be16(&mut maxp, n);
    for x in maxp13 {
        be16(&mut maxp, *x);
    }
    let mut hmtx = vec![];
    for _ in 0..n {
        hmtx.extend_from_slice(&[0x02, 0x58, 0, 0]);
    }
    let mut fb = FontBuilder::new();
    fb.add_raw(Tag::new(b"head"), head);
    fb.add_raw(Tag::new(b"hhea"), hhea);
    fb.add_raw(Tag::new(b"maxp"), maxp);
    fb.add_raw(Tag::new(b"hmtx"), hmtx);
    fb.add_raw(Tag::new(b"loca"), dump_table(&loca).unwrap());
    fb.add_raw(Tag::new(b"glyf"), dump_table(&glyf).unwrap());
    fb.build()
}

pub const ST: usize = 23;

pub fn exercise(acc: &mut Acc, font_bytes: &[u8], gids: &[u32]) {
    let Some(Ok(font)) = acc.call(ST, || FontRef::new(font_bytes)) else {
        acc.count("font_rejected");
        return;
    };
    let oc = font.outline_glyphs();
    let mut h = Fnv::new();
    let mut any_ok = false;
    let mut insts = vec![];
    for engine in [Engine::Interpreter, Engine::Auto(None)] {
        if let Some(Ok(i)) = acc.call(ST, || {
            HintingInstance::new(&oc, Size::new(13.5), LocationRef::default(), HintingOptions { engine, target: Target::default() })
        }) {
            insts.push(i);
        }
    }
    for &g in gids {
        let Some(Some(gl)) = acc.call(ST, || oc.get(GlyphId::new(g))) else {
            h.byte(0);
            continue;
        };
        let mut settings: Vec<DrawSettings> = vec![];
        for size in [Size::unscaled(), Size::new(13.5)] {
            for style in [PathStyle::FreeType, PathStyle::HarfBuzz] {
                settings.push(DrawSettings::unhinted(size, LocationRef::default()).with_path_style(style));
            }
        }
        for i in &insts {
            settings.push(DrawSettings::hinted(i, true));
        }
        for s in settings {
            let r = acc.call(ST, || {
                let mut pen = HashPen::default();
                let r = gl.draw(s, &mut pen);
                (r, pen)
            });
            let Some((r, pen)) = r else { continue };
            match r {
                Ok(_) => {
                    acc.count("draw_ok");
                    any_ok |= pen.n > 0;
                    h.byte(1);
                    h.u64(pen.h.finish());
                }
                Err(e) => {
                    acc.count("draw_err");
                    h.byte(2);
                    h.str(&format!("{e:?}"));
                }
            }
        }
    }
    acc.observe(h.finish(), any_ok);
}

/// `{"driver":"glyfgraph","s0":shape of glyph 0,"only":idx?}` or `{"driver":"glyfgraph","chain":d,"cyclic":bool}`
pub fn drive(spec: &Value) -> CaseOut {
    let mut acc = Acc::new("glyfgraph");
    if let Some(d) = spec["chain"].as_u64() {
        let d = d as usize;
        let cyclic = spec["cyclic"].as_bool().unwrap_or(false);
        if d == 0 || d > 5000 {
            return crate::bad_case(format!("bad chain {spec}"));
        }
        let mut glyphs: Vec<Glyph> = (0..d)
            .map(|i| Glyph::Composite(CompositeGlyph::new(comp((i + 1) as u16, false), bbox())))
            .collect();
        glyphs.push(if cyclic {
            Glyph::Composite(CompositeGlyph::new(comp(0, false), bbox()))
        } else {
            triangle()
        });
        let font = build(&glyphs);
        acc.evals += 1;
        exercise(&mut acc, &font, &[0, 1, (d / 2) as u32, d as u32, d as u32 + 1]);
        return acc.finish();
    }
    let Some(s0) = spec["s0"].as_u64().map(|s| s as usize).filter(|s| *s < N_SHAPES) else {
        return crate::bad_case(format!("bad glyfgraph case {spec}"));
    };
    let one = |acc: &mut Acc, idx: u64| {
        set_sub(idx);
        acc.sub_override = Some(idx);
        let (s1, s2) = ((idx as usize) / N_SHAPES, (idx as usize) % N_SHAPES);
        let font = build(&[shape(s0), shape(s1), shape(s2)]);
        acc.evals += 1;
        exercise(acc, &font, &[0, 1, 2, 3]);
    };
    match spec["only"].as_u64() {
        Some(idx) if (idx as usize) < N_SHAPES * N_SHAPES => one(&mut acc, idx),
        Some(_) => return crate::bad_case(format!("bad glyfgraph index {spec}")),
        None => {
            for idx in spec["from"].as_u64().unwrap_or(0)..(N_SHAPES * N_SHAPES) as u64 {
                one(&mut acc, idx);
            }
        }
    }
    acc.finish()
}

pub fn gen_cases() -> Vec<Value> {
    let mut out = vec![];
    for s0 in 0..N_SHAPES {
        out.push(json!({"driver": "glyfgraph", "s0": s0}));
    }
    for d in CHAIN_DEPTHS {
        for cyclic in [false, true] {
            out.push(json!({"driver": "glyfgraph", "chain": d, "cyclic": cyclic}));
        }
    }
    out
}
