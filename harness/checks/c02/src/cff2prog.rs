//! Driver 3b: exhaustive CFF2 charstring enumeration with `blend` / `vsindex` inside a real CFF2 table.
//!
//! A minimal CFF2 table is assembled by hand and wrapped into an `OTTO` font (head, hhea, maxp 0.5, hmtx,
//! fvar with one axis `wght`, CFF2) with FontBuilder. Layout of the table: header (5 bytes), Top DICT
//! (CharStrings, vstore, FDArray offsets, 5-byte integers), Global Subr INDEX (g0 calls itself, g1 empty,
//! g2 calls local 0), VariationStore, FDArray INDEX (one Font DICT → Private DICT), Private DICT (Subrs),
//! Local Subr INDEX (l0 calls itself, l1 empty, l2 calls global 0), CharStrings INDEX (last).
//! The ItemVariationStore has 1 axis, 2 regions (r0 = [0, 1, 1], r1 = [−1, −1, 0]) and 3 ItemVariationData
//! sub-tables: ivd0 → regions {0,1} (k = 2), ivd1 → region {1} (k = 1), ivd2 → regions {0, 5} (region index 5
//! does not exist: a region count that mismatches the store). So `vsindex` 0/1 are valid, 2 is inconsistent,
//! 3 is out of range.
//! Glyph 1 is `prelude ++ tokens`, tokens over `tokens()`: every one-byte operator (incl. 15 vsindex,
//! 16 blend), every escape operator 12 0..=38, and 12 operands {0,1,2,3 (vsindex values / blend counts 0, 1,
//! n, n > stack), −1, 107, 1131, −1131, 32767, −32768, 16.16 max/min}. Each font is drawn at 2 locations
//! (default, wght = +0.5 normalised): unhinted unscaled and at 13.5 ppem, and hinted (CFF hinter) at 13.5 ppem.
//!
//! A case is a batch (prelude, first token, n) exactly as in `cffprog`. Oracle: returns, never panics.

use crate::cffprog::{batch_len, batch_seq, fixed, num};
use crate::skdrv::{Acc, HashPen};
use crate::sup::{set_sub, CaseOut};
use read_fonts::FontRef;
use serde_json::{json, Value};
use skrifa::instance::{LocationRef, NormalizedCoord, Size};
use skrifa::outline::{DrawSettings, Engine, HintingInstance, HintingOptions, Target};
use skrifa::raw::types::GlyphId;
use skrifa::{MetadataProvider, Tag};
use vcore::Fnv;
use write_fonts::FontBuilder;

pub fn tokens() -> Vec<Vec<u8>> {
    let mut t = vec![];
    for op in 0u8..=31 {
        if op != 12 && op != 28 {
            t.push(vec![op]);
        }
    }
    for e in 0u8..=38 {
        t.push(vec![12, e]);
    }
    for v in [0, 1, 2, 3, -1, 107, 1131, -1131, 32767, -32768] {
        t.push(num(v));
    }
    t.push(fixed(0x7FFF_FFFF));
    t.push(fixed(0x8000_0000));
    t
}

pub fn preludes() -> Vec<(&'static str, Vec<u8>)> {
    let cat = |vs: &[i32]| vs.iter().flat_map(|v| num(*v)).collect::<Vec<u8>>();
    vec![
        ("no operands", vec![]),
        ("100 200 10 20 30 40 (2 values + 2x2 deltas for blend n=2, k=2)", cat(&[100, 200, 10, 20, 30, 40])),
        ("100 -100 50 -50 300 200 -300 10", cat(&[100, -100, 50, -50, 300, 200, -300, 10])),
    ]
}

fn index2(items: &[Vec<u8>]) -> Vec<u8> {
    let mut o = (items.len() as u32).to_be_bytes().to_vec();
    if items.is_empty() {
        return o;
    }
    o.push(4);
    let mut off = 1u32;
    o.extend_from_slice(&off.to_be_bytes());
    for it in items {
        off += it.len() as u32;
        o.extend_from_slice(&off.to_be_bytes());
    }
    for it in items {
        o.extend_from_slice(it);
    }
    o
}

fn dict_int(v: i32) -> Vec<u8> {
    let mut o = vec![29];
    o.extend_from_slice(&v.to_be_bytes());
    o
}

fn be16(v: &mut Vec<u8>, x: u16) {
    v.extend_from_slice(&x.to_be_bytes())
}

/// VariationStore: u16 length + ItemVariationStore (see module comment)
fn var_store() -> Vec<u8> {
    let mut ivs = vec![];
    be16(&mut ivs, 1); // format
    ivs.extend_from_slice(&20u32.to_be_bytes()); // region list offset
    be16(&mut ivs, 3); // itemVariationDataCount
    for off in [36u32, 46, 54] {
        ivs.extend_from_slice(&off.to_be_bytes());
    }
    // region list: 1 axis, 2 regions
    be16(&mut ivs, 1);
    be16(&mut ivs, 2);
    for w in [0x0000u16, 0x4000, 0x4000, 0xC000, 0xC000, 0x0000] {
        be16(&mut ivs, w);
    }
    debug_assert_eq!(ivs.len(), 36);
    for regions in [&[0u16, 1][..], &[1][..], &[0, 5][..]] {
        be16(&mut ivs, 0); // itemCount
        be16(&mut ivs, 0); // wordDeltaCount
        be16(&mut ivs, regions.len() as u16);
        for r in regions {
            be16(&mut ivs, *r);
        }
    }
    debug_assert_eq!(ivs.len(), 64);
    let mut out = vec![];
    be16(&mut out, ivs.len() as u16);
    out.extend(ivs);
    out
}

const CALLSUBR: u8 = 10;
const CALLGSUBR: u8 = 29;

pub fn cff2_table(charstring: &[u8]) -> Vec<u8> {
    let cat = |parts: &[&[u8]]| parts.concat();
    cff2_table_with(
        charstring,
        &[cat(&[&num(-107), &[CALLGSUBR]]), vec![], cat(&[&num(-107), &[CALLSUBR]])],
        &[cat(&[&num(-107), &[CALLSUBR]]), vec![], cat(&[&num(-107), &[CALLGSUBR]])],
    )
}

/// The CFF2 table with explicit global / local subroutine lists.
pub fn cff2_table_with(charstring: &[u8], gsubr_list: &[Vec<u8>], lsubr_list: &[Vec<u8>]) -> Vec<u8> {
    cff2_table_full(charstring, gsubr_list, lsubr_list, &[], var_store())
}

/// VariationStore (u16 length + ItemVariationStore) with 1 axis, `max(counts)` identical regions [0, 1, 1] and one
/// ItemVariationData per entry of `region_counts` referencing regions 0..count.
pub fn var_store_with(region_counts: &[usize]) -> Vec<u8> {
    let nreg = region_counts.iter().copied().max().unwrap_or(0);
    let header = 8 + 4 * region_counts.len();
    let region_list_len = 4 + 6 * nreg;
    let mut ivs = vec![];
    be16(&mut ivs, 1);
    ivs.extend_from_slice(&(header as u32).to_be_bytes());
    be16(&mut ivs, region_counts.len() as u16);
    let mut off = header + region_list_len;
    for c in region_counts {
        ivs.extend_from_slice(&(off as u32).to_be_bytes());
        off += 6 + 2 * c;
    }
    be16(&mut ivs, 1);
    be16(&mut ivs, nreg as u16);
    for _ in 0..nreg {
        for w in [0x0000u16, 0x4000, 0x4000] {
            be16(&mut ivs, w);
        }
    }
    for c in region_counts {
        be16(&mut ivs, 0);
        be16(&mut ivs, 0);
        be16(&mut ivs, *c as u16);
        for r in 0..*c {
            be16(&mut ivs, r as u16);
        }
    }
    let mut out = vec![];
    be16(&mut out, ivs.len() as u16);
    out.extend(ivs);
    out
}

/// … with `private_extra` DICT bytes before the Subrs operator of the Private DICT and an explicit VariationStore.
pub fn cff2_table_full(charstring: &[u8], gsubr_list: &[Vec<u8>], lsubr_list: &[Vec<u8>], private_extra: &[u8], vstore: Vec<u8>) -> Vec<u8> {
    let gsubrs = index2(gsubr_list);
    let lsubrs = index2(lsubr_list);
    let top_len = 6 + 6 + 7;
    let mut private = private_extra.to_vec();
    private.extend(dict_int(private_extra.len() as i32 + 6));
    private.push(19);
    let font_dict_len = 5 + 5 + 1;
    let fdarray_len = 4 + 1 + 8 + font_dict_len;
    let gsubrs_off = 5 + top_len;
    let vstore_off = gsubrs_off + gsubrs.len();
    let fdarray_off = vstore_off + vstore.len();
    let private_off = fdarray_off + fdarray_len;
    let lsubrs_off = private_off + private.len();
    let charstrings_off = lsubrs_off + lsubrs.len();
    let mut font_dict = dict_int(private.len() as i32);
    font_dict.extend(dict_int(private_off as i32));
    font_dict.push(18);
    let fdarray = index2(&[font_dict]);
    debug_assert_eq!(fdarray.len(), fdarray_len);
    let mut top = dict_int(charstrings_off as i32);
    top.push(17);
    top.extend(dict_int(vstore_off as i32));
    top.push(24);
    top.extend(dict_int(fdarray_off as i32));
    top.extend_from_slice(&[12, 36]);
    debug_assert_eq!(top.len(), top_len);
    let mut header = vec![2u8, 0, 5];
    be16(&mut header, top_len as u16);
    let charstrings = index2(&[vec![], charstring.to_vec()]);
    [header, top, gsubrs, vstore, fdarray, private, lsubrs, charstrings].concat()
}

pub struct Parts {
    base: crate::cffprog::Parts,
    fvar: Vec<u8>,
}
impl Parts {
    pub fn new() -> Self {
        let mut fvar = vec![0, 1, 0, 0];
        be16(&mut fvar, 16); // axesArrayOffset
        be16(&mut fvar, 2); // reserved
        be16(&mut fvar, 1); // axisCount
        be16(&mut fvar, 20); // axisSize
        be16(&mut fvar, 0); // instanceCount
        be16(&mut fvar, 8); // instanceSize
        fvar.extend_from_slice(b"wght");
        for v in [100i32 << 16, 400 << 16, 900 << 16] {
            fvar.extend_from_slice(&v.to_be_bytes());
        }
        be16(&mut fvar, 0);
        be16(&mut fvar, 256);
        Parts {
            base: crate::cffprog::Parts::new(),
            fvar,
        }
    }
    pub fn build_with_table(&self, cff2: Vec<u8>) -> Vec<u8> {
        let mut fb = FontBuilder::new();
        for (tag, data) in self.base.metric_tables() {
            fb.add_raw(tag, data);
        }
        fb.add_raw(Tag::new(b"fvar"), self.fvar.clone());
        fb.add_raw(Tag::new(b"CFF2"), cff2);
        fb.build()
    }
    pub fn build(&self, charstring: &[u8]) -> Vec<u8> {
        let mut fb = FontBuilder::new();
        for (tag, data) in self.base.metric_tables() {
            fb.add_raw(tag, data);
        }
        fb.add_raw(Tag::new(b"fvar"), self.fvar.clone());
        fb.add_raw(Tag::new(b"CFF2"), cff2_table(charstring));
        fb.build()
    }
}
impl Default for Parts {
    fn default() -> Self {
        Self::new()
    }
}

pub const ST_DRAW: usize = 26;

pub fn locations() -> [Vec<NormalizedCoord>; 2] {
    [vec![], vec![NormalizedCoord::from_f32(0.5)]]
}

/// Draw glyph 1 in every configuration; returns the digests of the two unhinted unscaled draws (per location).
pub fn exercise(acc: &mut Acc, font_bytes: &[u8]) -> [Option<u64>; 2] {
    let mut unscaled = [None, None];
    let Some(Ok(font)) = acc.call(ST_DRAW, || FontRef::new(font_bytes)) else {
        acc.count("font_rejected");
        return unscaled;
    };
    let oc = font.outline_glyphs();
    let Some(g) = oc.get(GlyphId::new(1)) else {
        acc.count("glyph_absent");
        return unscaled;
    };
    let mut h = Fnv::new();
    let mut any_ok = false;
    for (li, loc) in locations().iter().enumerate() {
        for (si, size) in [Size::unscaled(), Size::new(13.5)].into_iter().enumerate() {
            let r = acc.call(ST_DRAW, || {
                let mut pen = HashPen::default();
                let r = g.draw(DrawSettings::unhinted(size, LocationRef::new(loc)), &mut pen);
                (r, pen)
            });
            let Some((r, pen)) = r else { continue };
            match r {
                Ok(_) => {
                    acc.count("draw_ok");
                    any_ok |= pen.n > 0;
                    h.byte(1);
                    h.u64(pen.h.finish());
                    if si == 0 {
                        unscaled[li] = Some(pen.h.finish() ^ pen.n);
                    }
                }
                Err(e) => {
                    acc.count("draw_err");
                    h.byte(2);
                    h.str(&format!("{e:?}"));
                }
            }
        }
        let inst = acc.call(ST_DRAW, || {
            HintingInstance::new(
                &oc,
                Size::new(13.5),
                LocationRef::new(loc),
                HintingOptions {
                    engine: Engine::Interpreter,
                    target: Target::default(),
                },
            )
        });
        if let Some(Ok(inst)) = inst {
            let r = acc.call(ST_DRAW, || {
                let mut pen = HashPen::default();
                let r = g.draw(DrawSettings::hinted(&inst, true), &mut pen);
                (r, pen)
            });
            if let Some((r, pen)) = r {
                match r {
                    Ok(_) => {
                        acc.count("draw_ok");
                        h.byte(3);
                        h.u64(pen.h.finish());
                    }
                    Err(e) => {
                        acc.count("draw_err");
                        h.byte(4);
                        h.str(&format!("{e:?}"));
                    }
                }
            }
        } else {
            h.byte(9);
        }
    }
    acc.observe(h.finish(), any_ok);
    unscaled
}

/// `{"driver":"cff2prog","prelude":i,"o1":token index | null,"n":len,"only":idx?,"from":idx?}`
pub fn drive(spec: &Value) -> CaseOut {
    let toks = tokens();
    let pre = preludes();
    let pi = spec["prelude"].as_u64().unwrap_or(99) as usize;
    let n = spec["n"].as_u64().unwrap_or(1) as u32;
    if pi >= pre.len() || n == 0 || n > 4 {
        return crate::bad_case(format!("bad cff2prog case {spec}"));
    }
    let parts = Parts::new();
    let mut acc = Acc::new("cff2prog");
    let one = |acc: &mut Acc, idx: u64, seq: &[usize]| {
        set_sub(idx);
        acc.sub_override = Some(idx);
        let mut cs = pre[pi].1.clone();
        for t in seq {
            cs.extend_from_slice(&toks[*t]);
        }
        let font = parts.build(&cs);
        acc.evals += 1;
        exercise(acc, &font);
    };
    match spec["o1"].as_u64() {
        None => one(&mut acc, 0, &[]),
        Some(t1) => {
            let t1 = t1 as usize;
            if t1 >= toks.len() {
                return crate::bad_case(format!("bad cff2prog token {spec}"));
            }
            let ntok = toks.len() as u64;
            match spec["only"].as_u64() {
                Some(idx) => one(&mut acc, idx, &batch_seq(t1, idx, ntok)),
                None => {
                    for idx in spec["from"].as_u64().unwrap_or(0)..batch_len(n, ntok) {
                        one(&mut acc, idx, &batch_seq(t1, idx, ntok));
                    }
                }
            }
        }
    }
    acc.finish()
}

pub fn gen_cases(n: u32) -> Vec<Value> {
    let mut out = vec![];
    for pi in 0..preludes().len() {
        out.push(json!({"driver": "cff2prog", "prelude": pi, "o1": Value::Null, "n": n}));
        for t1 in 0..tokens().len() {
            out.push(json!({"driver": "cff2prog", "prelude": pi, "o1": t1, "n": n}));
        }
    }
    out
}

/// Gate for the hand assembler (machinery): a plain triangle draws; the same triangle whose first
/// coordinate is blended (100 + 50·s0 + 25·s1) draws the *same* outline at the default location and a
/// *different* one at wght = 0.5 — i.e. the variation store, vsindex 0 and the region scalars are what the
/// module comment says. Only benign charstrings run here (hostile ones run in supervised workers).
pub fn sanity() -> Result<(), String> {
    let cat = |vs: &[i32]| vs.iter().flat_map(|v| num(*v)).collect::<Vec<u8>>();
    let tail = {
        let mut t = cat(&[100]);
        t.push(21); // rmoveto
        t.extend(cat(&[300, 0, -150, 400]));
        t.push(5); // rlineto
        t
    };
    let mut plain = cat(&[100]);
    plain.extend(tail.clone());
    let mut blended = cat(&[100, 50, 25, 1]);
    blended.push(16); // blend
    blended.extend(tail);
    let parts = Parts::new();
    let mut acc = Acc::new("cff2prog");
    let a = exercise(&mut acc, &parts.build(&plain));
    let b = exercise(&mut acc, &parts.build(&blended));
    if !acc.viols.is_empty() {
        return Err(format!("sanity charstrings panicked: {}", acc.viols[0].what));
    }
    match (a, b) {
        ([Some(a0), Some(a1)], [Some(b0), Some(b1)]) => {
            if a0 != a1 {
                return Err("plain CFF2 triangle differs between locations".into());
            }
            if b0 != a0 {
                return Err("blended triangle at the default location differs from the plain one".into());
            }
            if b1 == b0 {
                return Err("blended triangle does not move at wght=0.5: variation store is not applied".into());
            }
            Ok(())
        }
        other => Err(format!("sanity CFF2 charstrings do not draw: {other:?}")),
    }
}
