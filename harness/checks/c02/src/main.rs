//! C02 — skrifa and IFT client APIs are total on hostile fonts and arguments. See DESIGN.md §3 C02.
use c02::*;
use serde_json::{json, Value};
use std::collections::{BTreeMap, HashSet};
use std::sync::Mutex;
use vcore::*;

fn main() {
    if sup::is_worker() {
        sup::worker_main(&|spec| run_case(spec));
    }
    main_for("C02", body)
}

/// Identity of a supervisor-level failure (timeout / abort): driver + kind + innermost repo function
/// (timeouts) or stage (aborts). No counters, no line numbers.
fn failure_identity(driver: &str, f: &Failure) -> String {
    match f.kind.as_str() {
        "timeout" | "silent" => {
            if f.function.is_empty() {
                format!("{driver}: timeout in {}", f.stage)
            } else {
                format!("{driver}: timeout in {}", f.function)
            }
        }
        _ => {
            let class = if f.detail.contains("overflowed its stack") {
                "stack overflow"
            } else if f.detail.contains("memory allocation") {
                "allocation failure abort"
            } else {
                "abort"
            };
            format!("{driver}: {class} in {}", f.stage)
        }
    }
}

fn viol_identity(v: &Viol) -> String {
    if v.kind == "panic" {
        let p = v.panic_info();
        format!("{}: panic at {} [{}]", v.op, p.site(), p.kind())
    } else {
        format!("{}: {}", v.op, v.kind)
    }
}

struct Agg {
    all: HashSet<u64>,
    nt: HashSet<u64>,
    counters: BTreeMap<String, u64>,
}

/// Run a list of cases under the supervisor and fold the results into the run.
fn run_cases(run: &Run, label: &str, n: u64, get: &(dyn Fn(u64) -> Value + Sync), opts: &SupOpts) {
    let agg = Mutex::new(Agg {
        all: HashSet::new(),
        nt: HashSet::new(),
        counters: BTreeMap::new(),
    });
    let t0 = std::time::Instant::now();
    let slowest: Mutex<(u64, u64)> = Mutex::new((0, 0));
    let res = sup::supervise(
        n,
        &|i| get(i).to_string(),
        opts,
        &|i, outcome| {
            let case = &get(i);
            let driver = case["driver"].as_str().unwrap_or("?");
            match outcome {
                Outcome::Done(out) => {
                    {
                        let mut sl = slowest.lock().unwrap();
                        if out.ms > sl.0 {
                            *sl = (out.ms, i);
                        }
                    }
                    run.evals(out.evals.max(1));
                    run.trans(out.calls);
                    let mut g = agg.lock().unwrap();
                    g.all.extend(out.digests.iter().copied());
                    g.nt.extend(out.nontrivial.iter().copied());
                    for (k, n) in &out.counters {
                        *g.counters.entry(format!("{label}.{k}")).or_insert(0) += n;
                    }
                    drop(g);
                    for v in &out.viols {
                        if v.kind == "bad-case" {
                            run.machinery_error(&format!("bad case {case}: {}", v.what));
                            continue;
                        }
                        let p = v.panic_info();
                        if v.kind == "panic" && p.is_arith_or_debug_assert() && !p.message.contains("divide by zero") && !p.message.contains("remainder with a divisor of zero") {
                            // overflow / debug-assert class: belongs to C20 (cannot occur in the release profile)
                            continue;
                        }
                        run.violation(&viol_identity(v), &format!("{} (case {})", v.what, short(&narrow(case, v.sub))), narrow(case, v.sub));
                    }
                }
                Outcome::Failed(f) => {
                    run.eval();
                    let id = failure_identity(driver, &f);
                    let what = format!(
                        "worker {} while running case {}: stage={:?} sub={} function={:?} ({})",
                        f.kind, short(case), f.stage, f.sub, f.function, f.detail
                    );
                    let mut c = narrow(case, f.sub);
                    c["observed"] = json!({"kind": f.kind, "stage": f.stage, "sub": f.sub, "function": f.function});
                    run.violation(&id, &what, c);
                    *agg.lock().unwrap().counters.entry(format!("{label}.worker_failures")).or_insert(0) += 1;
                }
            }
        },
    );
    match res {
        Err(e) => run.machinery_error(&format!("supervisor: {e}")),
        Ok(st) => {
            run.count(&format!("{label}.cases"), st.cases);
            run.count(&format!("{label}.worker_spawns"), st.respawns);
        }
    }
    let g = agg.into_inner().unwrap();
    run.observe_many(&g.all, &g.nt);
    for (k, n) in &g.counters {
        run.count(k, *n);
    }
    run.extra(&format!("wall_s.{label}"), json!(t0.elapsed().as_secs_f64()));
    let sl = slowest.into_inner().unwrap();
    run.extra(&format!("slowest_case_ms.{label}"), json!(sl.0));
    eprintln!(
        "[c02] {label}: {n} cases in {:.1}s, distinct digests {}, slowest case {} ms: {}",
        t0.elapsed().as_secs_f64(),
        g.all.len(),
        sl.0,
        if n > 0 { short(&get(sl.1)) } else { String::new() }
    );
}

/// Batch drivers: restrict the replay case to the sub-case that failed.
fn narrow(case: &Value, sub: u64) -> Value {
    let mut c = case.clone();
    let batch = matches!(c["driver"].as_str(), Some("ttprog") | Some("cffprog"));
    if batch && c["only"].is_null() && !c["o1"].is_null() {
        c["only"] = json!(sub);
        if c["driver"] == "ttprog" {
            c["described"] = json!(ttprog::describe(&c));
        }
    }
    c
}

fn short(case: &Value) -> String {
    let s = case.to_string();
    if s.len() > 300 {
        format!("{}…", &s[..300])
    } else {
        s
    }
}

fn body(run: &Run, replay: Option<&Value>) {
    run.rule("a case is (driver, seed font + byte deviations | synthesised program | IFT tuple, configuration plan); every configuration of the plan is executed against the real API inside supervised worker processes; distinct = distinct (driver, result-shape digest); non-trivial = a draw emitted path commands, a paint emitted callbacks or a patch application returned a font");
    run.assume("the worker-side monitor thread, SIGUSR1 backtrace and SIGABRT marker are trusted to attribute a stall/abort to the in-flight case; a stall is a single API call not returning within the per-call watchdog");
    run.assume("memory oracle: `draw_memory_size` includes 4 bytes of alignment slack, so 'too small' is judged against need-4 (the sum of the carved arrays), not need-1");
    let quick = run.tier == Tier::Quick;
    let opts = SupOpts {
        workers: std::env::var("VERIF_THREADS").ok().and_then(|s| s.parse().ok()).unwrap_or(16),
        watchdog_ms: run.tier.pick(4_000, 10_000),
        chunk: 4,
    };
    if let Some(case) = replay {
        let mut c = case.clone();
        if let Some(o) = c.as_object_mut() {
            o.remove("observed");
            o.remove("described");
        }
        run_cases(run, "replay", 1, &|_| c.clone(), &SupOpts { workers: 1, ..opts });
        return;
    }
    run.bound("watchdog_ms_per_call", json!(opts.watchdog_ms));
    // 1a. unmodified corpus, full plan
    let plan = if quick { "reduced" } else { "full" };
    let cases = gen_corpus_cases(plan);
    run.bound("corpus.plan", skdrv::Plan::named(plan).unwrap().describe());
    run.sample(cases[0].clone());
    run_cases(run, "corpus", cases.len() as u64, &|i| cases[i as usize].clone(), &SupOpts { chunk: 1, ..opts.clone() });
    // 1b. one-byte / u16-boundary deviations of the corpus tables
    // byte budget per table: outline tables and the small fixed headers get more
    let env_bytes: Option<usize> = std::env::var("C02_DEV_BYTES").ok().and_then(|s| s.parse().ok());
    let deep = ["glyf", "CFF ", "CFF2", "gvar", "maxp", "head", "hhea"];
    let (b_deep, b_other) = run.tier.pick((128usize, 48usize), (256, 256));
    let max_bytes = move |t: &str| env_bytes.unwrap_or(if deep.contains(&t) { b_deep } else { b_other });
    let dplan = std::env::var("C02_DEV_PLAN").unwrap_or(run.tier.pick("min", "reduced").to_string());
    let space = gen_deviation_space(&|name, _| !quick || name.starts_with("font-test-data/test_data/ttf/"), &max_bytes);
    run.bound("deviations.max_bytes_per_table", json!({"glyf,CFF ,CFF2,gvar,maxp,head,hhea": max_bytes("glyf"), "other": max_bytes("name")}));
    run.bound("deviations.seed_fonts", json!(if quick { "font-test-data/test_data/ttf/* (46)" } else { "whole corpus" }));
    run.bound("deviations.table_kinds", json!(fontcase::TABLE_KINDS));
    run.bound("deviations.alphabet", json!({"byte": fontcase::BYTE_ALPHABET, "u16_be": fontcase::U16_ALPHABET}));
    run.bound("deviations.plan", skdrv::Plan::named(&dplan).unwrap().describe());
    run.sample(deviation_case(&space[space.len() / 2], &dplan));
    if std::env::var("C02_SKIP").as_deref() != Ok("dev")
    {run_cases(run, "deviations", space.len() as u64, &|i| deviation_case(&space[i as usize], &dplan), &opts);}
    // 2. TrueType program enumeration
    let pre = ttprog::preludes();
    let all_pre: Vec<usize> = (0..pre.len()).collect();
    let maxp_used: Vec<usize> = run.tier.pick(vec![0, 1], vec![0, 1, 2]);
    let mut tt = ttprog::gen_cases(2, &all_pre, &maxp_used);
    run.bound("ttprog.length2", json!({"slots": ttprog::SLOTS, "preludes": pre.iter().map(|p| p.0).collect::<Vec<_>>(),
        "maxp": maxp_used.iter().map(|i| ttprog::MAXP_SETTINGS[*i].0).collect::<Vec<_>>(), "opcodes": 256,
        "programs_per_slot_prelude_maxp": 1 + 256 + 65536, "sizes": ttprog::SIZES, "targets": ["Mono", "Smooth Normal"], "pedantic": [false, true]}));
    if !quick {
        // length 3: the full 256^3 space for the empty and the index-bearing prelude under the small limits
        let n3_pre: Vec<usize> = if std::env::var("C02_TT_N3").as_deref() == Ok("full") { all_pre.clone() } else { vec![0, 4] };
        let n3_maxp: Vec<usize> = if std::env::var("C02_TT_N3").as_deref() == Ok("full") { maxp_used.clone() } else { vec![0] };
        let t3: Vec<Value> = ttprog::gen_cases(3, &n3_pre, &n3_maxp).into_iter().filter(|c| !c["o1"].is_null()).collect();
        run.bound("ttprog.length3", json!({"preludes": n3_pre.iter().map(|i| pre[*i].0).collect::<Vec<_>>(),
            "maxp": n3_maxp.iter().map(|i| ttprog::MAXP_SETTINGS[*i].0).collect::<Vec<_>>(), "programs_per_slot_prelude_maxp": 16_777_216u64}));
        tt.extend(t3);
    }
    run.sample(tt[300].clone());
    run_cases(run, "ttprog", tt.len() as u64, &|i| tt[i as usize].clone(), &SupOpts { chunk: run.tier.pick(16, 1), ..opts.clone() });
    // 3. CFF charstring enumeration
    if let Err(e) = cffprog::sanity() {
        run.machinery_error(&format!("cffprog assembler gate: {e}"));
        return;
    }
    let cn = run.tier.pick(2u32, 3);
    let cf = cffprog::gen_cases(cn);
    run.bound("cffprog", json!({"max_tokens": cn, "token_alphabet": cffprog::tokens().len(),
        "preludes": cffprog::preludes().iter().map(|p| p.0).collect::<Vec<_>>(),
        "subrs": "global {self-call, return, call local 0}, local {self-call, return, call global 0}",
        "draws": "unhinted unscaled + 13.5, hinted interpreter (CFF hinter) 13.5, auto-hinter 13.5"}));
    run.sample(cf[5].clone());
    run_cases(run, "cffprog", cf.len() as u64, &|i| cf[i as usize].clone(), &SupOpts { chunk: run.tier.pick(4, 1), ..opts.clone() });
}

