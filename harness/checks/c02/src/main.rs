//! C02 — skrifa and IFT client APIs are total on hostile fonts and arguments. See DESIGN.md §3 C02.
use c02::*;
use serde_json::{json, Value};
use std::collections::{BTreeMap, HashSet};
use std::sync::Mutex;
use vcore::*;

fn main() {
    if sup::is_worker() {
        sup::worker_main(&|spec| run_case(spec));
    }
    if let Ok(js) = std::env::var("C02_RUN_ONE") {
        // development aid: run one case in-process and print its record
        vcore::install_panic_hook();
        let out = run_case(&serde_json::from_str(&js).expect("C02_RUN_ONE json"));
        println!("{}", serde_json::json!({"evals": out.evals, "calls": out.calls, "digests": out.digests.len(),
            "nontrivial": out.nontrivial.len(), "counters": out.counters, "viols": out.viols.iter().map(|v| v.to_json()).collect::<Vec<_>>()}));
        return;
    }
    main_for("C02", body)
}

/// Findings of drivers that are outside C02's statement (klippa): identity -> (count, first case).
/// Reported in the evidence (`observations_not_judged`), never as violations.
static OBSERVATIONS: Mutex<BTreeMap<String, (u64, Value)>> = Mutex::new(BTreeMap::new());

fn observe_only(identity: String, what: &str, case: Value) {
    let mut g = OBSERVATIONS.lock().unwrap();
    let e = g.entry(identity.clone()).or_insert((0, Value::Null));
    if e.0 == 0 {
        e.1 = json!({"what": what.chars().take(400).collect::<String>(), "first_case": case});
        eprintln!("[c02] OBSERVATION (not judged by C02): {identity}: {}", what.chars().take(300).collect::<String>());
    }
    e.0 += 1;
}

struct Agg {
    all: HashSet<u64>,
    nt: HashSet<u64>,
    counters: BTreeMap<String, u64>,
}

/// Run a list of cases under the supervisor and fold the results into the run.
fn run_cases(run: &Run, label: &str, n: u64, get: &(dyn Fn(u64) -> Value + Sync), opts: &SupOpts) {
    let agg = Mutex::new(Agg {
        all: HashSet::new(),
        nt: HashSet::new(),
        counters: BTreeMap::new(),
    });
    let t0 = std::time::Instant::now();
    let slowest: Mutex<(u64, u64)> = Mutex::new((0, 0));
    let progress = std::sync::atomic::AtomicU64::new(0);
    let last_print: Mutex<std::time::Instant> = Mutex::new(std::time::Instant::now());
    let res = sup::supervise_resumable(
        n,
        &|i| get(i).to_string(),
        opts,
        &|i, outcome| {
            let case = &get(i);
            let done = progress.fetch_add(1, std::sync::atomic::Ordering::Relaxed) + 1;
            if let Ok(mut lp) = last_print.try_lock() {
                if lp.elapsed().as_secs() >= 30 {
                    *lp = std::time::Instant::now();
                    eprintln!("[c02] {label}: {done} of {n} case results after {:.0}s", t0.elapsed().as_secs_f64());
                }
            }
            let driver = case["driver"].as_str().unwrap_or("?");
            match outcome {
                Outcome::Done(out) => {
                    {
                        let mut sl = slowest.lock().unwrap();
                        if out.ms > sl.0 {
                            *sl = (out.ms, i);
                        }
                    }
                    run.evals(out.evals.max(1));
                    run.trans(out.calls);
                    let mut g = agg.lock().unwrap();
                    g.all.extend(out.digests.iter().copied());
                    g.nt.extend(out.nontrivial.iter().copied());
                    for (k, n) in &out.counters {
                        *g.counters.entry(format!("{label}.{k}")).or_insert(0) += n;
                    }
                    drop(g);
                    for v in &out.viols {
                        if v.kind == "bad-case" {
                            run.machinery_error(&format!("bad case {case}: {}", v.what));
                            continue;
                        }
                        if is_observation_driver(driver) {
                            *agg.lock().unwrap().counters.entry(format!("{label}.observed_findings")).or_insert(0) += 1;
                            observe_only(viol_identity(v), &v.what, narrow(case, v.sub));
                            continue;
                        }
                        let p = v.panic_info();
                        if cfg!(debug_assertions) && v.kind == "panic" && p.is_arith_or_debug_assert() && !p.message.contains("divide by zero") && !p.message.contains("remainder with a divisor of zero") {
                            // overflow / debug-assert class: belongs to C20. Only when this binary itself is built
                            // with debug assertions: in the release profile (overflow-checks and debug-assertions
                            // off) such a message can only come from a release-mode `assert!` (Ord::clamp with
                            // min > max, step_by(0), an explicit assert in the repository) and is a real panic.
                            continue;
                        }
                        run.violation(&viol_identity(v), &format!("{} (case {})", v.what, short(&narrow(case, v.sub))), narrow(case, v.sub));
                    }
                }
                Outcome::Failed(f) => {
                    run.eval();
                    // the iftf2 families are distinct input classes: name the family in the identity
                    let id = match (driver, case["family"].as_str()) {
                        ("iftf2", Some(fam)) => failure_identity(&format!("iftf2 {fam}"), &f),
                        // the abort known on the unchanged tree belongs to the bound usize::MAX / 2 alone: the
                        // same symptom for any other stream / bound is a different finding
                        ("brotli", _) if case["part"].as_u64() != Some(brotlifam::PART_HALF_MAX) => {
                            failure_identity("brotli (output bound within the allocator limit)", &f)
                        }
                        _ => failure_identity(driver, &f),
                    };
                    let what = format!(
                        "worker {} while running case {}: stage={:?} sub={} function={:?} ({})",
                        f.kind, short(case), f.stage, f.sub, f.function, f.detail
                    );
                    let mut c = narrow(case, f.sub);
                    c["observed"] = json!({"kind": f.kind, "stage": f.stage, "sub": f.sub, "function": f.function});
                    if is_observation_driver(driver) {
                        observe_only(id, &what, c);
                        *agg.lock().unwrap().counters.entry(format!("{label}.observed_findings")).or_insert(0) += 1;
                        return;
                    }
                    run.violation(&id, &what, c);
                    *agg.lock().unwrap().counters.entry(format!("{label}.worker_failures")).or_insert(0) += 1;
                }
            }
        },
        &|_, case_json, f| resume_batch(case_json, f),
    );
    match res {
        Err(e) => run.machinery_error(&format!("supervisor: {e}")),
        Ok(st) => {
            run.count(&format!("{label}.cases"), st.cases);
            run.count(&format!("{label}.worker_spawns"), st.respawns);
        }
    }
    let g = agg.into_inner().unwrap();
    run.observe_many(&g.all, &g.nt);
    for (k, n) in &g.counters {
        run.count(k, *n);
    }
    run.extra(&format!("wall_s.{label}"), json!(t0.elapsed().as_secs_f64()));
    let sl = slowest.into_inner().unwrap();
    run.extra(&format!("slowest_case_ms.{label}"), json!(sl.0));
    eprintln!(
        "[c02] {label}: {n} cases in {:.1}s, distinct digests {}, slowest case {} ms: {}",
        t0.elapsed().as_secs_f64(),
        g.all.len(),
        sl.0,
        if n > 0 { short(&get(sl.1)) } else { String::new() }
    );
}

fn short(case: &Value) -> String {
    let s = case.to_string();
    if s.len() > 300 {
        format!("{}…", &s[..300])
    } else {
        s
    }
}

fn body(run: &Run, replay: Option<&Value>) {
    run.rule("a case is (driver, seed font + byte deviations | synthesised program | IFT tuple, configuration plan); every configuration of the plan is executed against the real API inside supervised worker processes; distinct = distinct (driver, result-shape digest); non-trivial = a draw emitted path commands, a paint emitted callbacks or a patch application returned a font");
    run.assume("the worker-side monitor thread, SIGUSR1 backtrace and SIGABRT marker are trusted to attribute a stall/abort to the in-flight case; a stall is a single API call that consumes the per-call watchdog of process CPU time (or 30x that in wall time) without returning");
    run.assume("memory oracle: `draw_memory_size` includes 4 bytes of alignment slack, so 'too small' is judged against need-4 (the sum of the carved arrays), not need-1");
    let quick = run.tier == Tier::Quick;
    let opts = SupOpts {
        workers: std::env::var("VERIF_THREADS").ok().and_then(|s| s.parse().ok()).unwrap_or(16),
        watchdog_ms: run.tier.pick(4_000, 10_000),
        chunk: 4,
    };
    if let Some(case) = replay {
        let c = strip_replay_fields(case);
        run_cases(run, "replay", 1, &|_| c.clone(), &SupOpts { workers: 1, ..opts });
        for (k, (n, _)) in OBSERVATIONS.lock().unwrap().iter() {
            println!("replay: observation (not judged by C02) x{n}: {k}");
        }
        return;
    }
    run.bound("watchdog_cpu_ms_per_call", json!(opts.watchdog_ms));
    let phases = match phases(quick) {
        Ok(p) => p,
        Err(e) => {
            run.machinery_error(&e);
            return;
        }
    };
    let only: Option<Vec<String>> = std::env::var("C02_ONLY").ok().map(|s| s.split(',').map(|x| x.to_string()).collect());
    for ph in &phases {
        for (k, v) in &ph.bounds {
            run.bound(k, v.clone());
        }
        run.sample(ph.sample.clone());
        if std::env::var("C02_SKIP").as_deref() == Ok("dev") && ph.label == "deviations" {
            continue;
        }
        if let Some(o) = &only {
            if !o.iter().any(|x| x == ph.label) {
                continue;
            }
        }
        if quick && ph.label == "klippa" && only.is_none() {
            // klippa is outside C02's statement (observations, never verdicts) and C20 quick executes and judges the
            // same phase: C02 runs it in the thorough tier only, which keeps quick inside its 60 s budget
            run.bound("klippa.executed_in_this_tier", json!("no (thorough only; C20 quick runs and judges this phase)"));
            continue;
        }
        run.count(&format!("{}.cases_enumerated", ph.label), ph.n);
        run_cases(run, ph.label, ph.n, &*ph.get, &SupOpts { chunk: ph.chunk, ..opts.clone() });
    }
    run.extra("digest_cap_per_case", json!(skdrv::MAX_DIGESTS_PER_CASE));
    let obs = OBSERVATIONS.lock().unwrap();
    run.extra(
        "observations_not_judged",
        json!({"note": "findings of drivers outside C02's statement (klippa subsetter); judged by C20 in the strict profile when arithmetic",
               "by_identity": obs.iter().map(|(k, (n, v))| json!({"identity": k, "count": n, "first": v})).collect::<Vec<_>>()}),
    );
    run.count("observations_not_judged.distinct", obs.len() as u64);
}
