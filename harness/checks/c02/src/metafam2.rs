//! METADATA boundary families, part 2: post / glyph names, fvar / avar, hmtx / OS/2 metrics, MVAR, HVAR,
//! cmap selection, sfnt / TTC directory. See `metafam` for the driver and the oracle.
use crate::metafam::{decode, head, hhea, hmtx, maxp, sfnt, w16, w32, Family, Item};
use serde_json::{json, Value};

type Tables = Vec<(&'static [u8; 4], Vec<u8>)>;

/// head / maxp / hhea / hmtx for `n` glyphs with one long metric (keeps 65535-glyph fonts small)
fn shell1(n: u16) -> Tables {
    vec![
        (b"head", head(1000, 0)),
        (b"maxp", maxp(n)),
        (b"hhea", hhea(800, -200, 90, if n == 0 { 0 } else { 1 })),
        (b"hmtx", hmtx(if n == 0 { 0 } else { 1 }, (n as usize).saturating_sub(1))),
    ]
}

fn wi16(v: &mut Vec<u8>, x: i16) {
    v.extend_from_slice(&x.to_be_bytes());
}
fn w24(v: &mut Vec<u8>, x: u32) {
    v.extend_from_slice(&x.to_be_bytes()[1..]);
}

// ---------------------------------------------------------------------------------------------
// post / glyph names
// ---------------------------------------------------------------------------------------------

pub fn post_header(version: u32) -> Vec<u8> {
    let mut v = vec![];
    w32(&mut v, version);
    w32(&mut v, 0xFFF4_0000); // italic angle -12
    wi16(&mut v, -75);
    wi16(&mut v, 50);
    w32(&mut v, 1);
    v.extend_from_slice(&[0; 16]);
    v
}

pub const POST_VERSIONS: [u32; 6] = [0x0002_0000, 0x0001_0000, 0x0002_5000, 0x0003_0000, 0x0004_0000, 0];
pub const POST_GLYPHS: [u16; 7] = [0, 1, 2, 257, 258, 259, 600];
pub const POST_RELATION: [&str; 4] = ["post.numGlyphs = maxp.numGlyphs", "one fewer", "one more", "zero"];
pub const POST_INDEX: [&str; 6] = ["all 0", "identity", "258 + i mod strings", "all 258 + strings - 1", "all 258 + strings (one beyond)", "all 65535"];
pub const POST_STRINGS: [&str; 6] = [
    "no string data",
    "one empty string",
    "lengths 1, 62, 63, 64, 255",
    "lengths 1, 62, 63, 64, 255 with the last one cut short",
    "one non-ASCII string",
    "300 one-char strings",
];
const R_POST: [usize; 5] = [POST_VERSIONS.len(), POST_GLYPHS.len(), POST_RELATION.len(), POST_INDEX.len(), POST_STRINGS.len()];

/// maxp.numGlyphs = 65535 (the u16 limit) x post.numGlyphs relation x index pattern, version 2, 5 strings
fn post_max_item(idx: u64) -> Item {
    let d = decode(idx, &[POST_RELATION.len(), POST_INDEX.len()]);
    post_item_of(&[0, usize::MAX, d[0], d[1], 2])
}

fn post_item(idx: u64) -> Item {
    post_item_of(&decode(idx, &R_POST))
}

fn post_item_of(d: &[usize]) -> Item {
    let (version, n) = (POST_VERSIONS[d[0]], if d[1] == usize::MAX { 65535 } else { POST_GLYPHS[d[1]] });
    let mut post = post_header(version);
    if version == 0x0002_0000 {
        let pn: u16 = match d[2] {
            0 => n,
            1 => n.saturating_sub(1),
            2 => n.saturating_add(1),
            _ => 0,
        };
        let (strings, nstr): (Vec<u8>, usize) = match d[4] {
            0 => (vec![], 0),
            1 => (vec![0], 1),
            2 | 3 => {
                let mut s = vec![];
                for (k, l) in [1usize, 62, 63, 64, 255].iter().enumerate() {
                    s.push(*l as u8);
                    s.extend(std::iter::repeat(b'a' + k as u8).take(*l));
                }
                if d[4] == 3 {
                    s.truncate(s.len() - 7);
                }
                (s, 5)
            }
            4 => (vec![2, b'a', 0xE9], 1),
            _ => {
                let mut s = vec![];
                for k in 0..300 {
                    s.extend_from_slice(&[1, b'A' + (k % 26) as u8]);
                }
                (s, 300)
            }
        };
        w16(&mut post, pn);
        for i in 0..pn as usize {
            let x = match d[3] {
                0 => 0,
                1 => i.min(0xFFFF),
                2 => 258 + if nstr == 0 { 0 } else { i % nstr },
                3 => (258 + nstr).saturating_sub(1),
                4 => 258 + nstr,
                _ => 0xFFFF,
            };
            w16(&mut post, x as u16);
        }
        post.extend_from_slice(&strings);
    }
    let mut t = shell1(n);
    t.push((b"post", post));
    Item::new(
        format!("post version {version:#010x}, maxp.numGlyphs {n}, {}; index {}; strings: {}", POST_RELATION[d[2]], POST_INDEX[d[3]], POST_STRINGS[d[4]]),
        sfnt(&t),
    )
}

// ---------------------------------------------------------------------------------------------
// fvar / avar
// ---------------------------------------------------------------------------------------------

pub const FV_AXES: [usize; 8] = [0, 1, 2, 7, 8, 9, 64, 65];
pub const FV_AXIS_SIZE: [u16; 3] = [20, 19, 24];
pub const FV_INSTANCES: [usize; 3] = [0, 1, 3];
pub const FV_INSTANCE_SIZE: [&str; 4] = ["4a+4", "4a+6 (with postScriptNameID)", "4a+2 (too small)", "0"];
pub const FV_CUT: [&str; 3] = ["complete", "cut inside the last instance", "cut inside the last axis"];
pub const FV_VALUES: [&str; 4] = ["100/400/900", "min = default = max", "min > max", "-32768 / 0 / 32767.99"];
pub const FV_AVAR: [&str; 8] = [
    "no avar",
    "identity 3-entry maps for every axis",
    "one map fewer than axes",
    "0-entry and 1-entry maps",
    "non-monotone map with duplicate from values",
    "avar axisCount larger than fvar's, data cut",
    "avar version 2: identity maps, no axis index map, variation store with one region over all axes",
    "avar version 2: identity maps, axis index map (2-byte entries), variation store",
];
const R_FVAR: [usize; 7] = [FV_AXES.len(), FV_AXIS_SIZE.len(), FV_INSTANCES.len(), 4, 3, 4, FV_AVAR.len()];

fn axis_tag(i: usize) -> [u8; 4] {
    match i {
        0 | 2 => *b"wght", // a repeated tag on purpose
        1 => *b"wdth",
        _ => [b'a', b'x', b'0' + (i / 10) as u8, b'0' + (i % 10) as u8],
    }
}

fn fvar_item(idx: u64) -> Item {
    let d = decode(idx, &R_FVAR);
    let (a, asize, ni) = (FV_AXES[d[0]], FV_AXIS_SIZE[d[1]], FV_INSTANCES[d[2]]);
    let isize: u16 = match d[3] {
        0 => 4 * a as u16 + 4,
        1 => 4 * a as u16 + 6,
        2 => 4 * a as u16 + 2,
        _ => 0,
    };
    let mut fvar = vec![0, 1, 0, 0];
    for x in [16u16, 2, a as u16, asize, ni as u16, isize] {
        w16(&mut fvar, x);
    }
    let vals: [i32; 3] = match d[5] {
        0 => [100 << 16, 400 << 16, 900 << 16],
        1 => [400 << 16, 400 << 16, 400 << 16],
        2 => [900 << 16, 400 << 16, 100 << 16],
        _ => [i32::MIN, 0, i32::MAX],
    };
    for i in 0..a {
        let start = fvar.len();
        fvar.extend_from_slice(&axis_tag(i));
        for v in vals {
            fvar.extend_from_slice(&v.to_be_bytes());
        }
        w16(&mut fvar, (i & 1) as u16);
        w16(&mut fvar, if i % 3 == 0 { 0xFFFF } else { 256 + i as u16 });
        fvar.resize(start + asize as usize, 0);
    }
    let axes_end = fvar.len();
    for k in 0..ni {
        let start = fvar.len();
        w16(&mut fvar, if k == 0 { 0xFFFF } else { 2 });
        w16(&mut fvar, 0);
        for i in 0..a {
            let v: i32 = [100 << 16, 900 << 16, i32::MIN][(k + i) % 3];
            fvar.extend_from_slice(&v.to_be_bytes());
        }
        w16(&mut fvar, 6);
        fvar.resize(start + isize as usize, 0);
    }
    match d[4] {
        1 if fvar.len() > axes_end => fvar.truncate(fvar.len() - 3),
        2 if a > 0 => fvar.truncate(axes_end - 5),
        _ => {}
    }
    let mut t = shell1(3);
    t.push((b"fvar", fvar));
    if d[6] != 0 {
        let mut avar = vec![0, 1, 0, 0, 0, 0];
        let maps = match d[6] {
            2 => a.saturating_sub(1),
            5 => a + 3,
            _ => a,
        };
        w16(&mut avar, if d[6] == 5 { (a + 3) as u16 } else { maps as u16 });
        for i in 0..maps {
            let pts: Vec<(i16, i16)> = match d[6] {
                3 => {
                    if i % 2 == 0 {
                        vec![]
                    } else {
                        vec![(0, 0x2000)]
                    }
                }
                4 => vec![(-0x4000, -0x4000), (0, 0), (0x2000, 0x3000), (0x2000, 0x1000), (0x1000, 0x4000), (0x4000, 0x4000)],
                _ => vec![(-0x4000, -0x4000), (0, 0), (0x4000, 0x4000)],
            };
            w16(&mut avar, pts.len() as u16);
            for (f, to) in pts {
                wi16(&mut avar, f);
                wi16(&mut avar, to);
            }
        }
        if d[6] == 5 {
            avar.truncate(avar.len().saturating_sub(5).max(8));
        }
        if d[6] >= 6 {
            // version 2: axisIndexMapOffset, varStoreOffset (from the table start) follow the segment maps
            avar[1] = 2;
            let pos = avar.len() + 8;
            let map: Vec<u8> = if d[6] == 7 {
                let mut m = vec![0u8, 0x17];
                w16(&mut m, a as u16);
                for i in 0..a {
                    w16(&mut m, i as u16);
                }
                m
            } else {
                vec![]
            };
            w32(&mut avar, if map.is_empty() { 0 } else { pos as u32 });
            w32(&mut avar, (pos + map.len()) as u32);
            avar.extend_from_slice(&map);
            avar.extend_from_slice(&ivs(a as u16, 1, a as u16, 1, 1));
        }
        t.push((b"avar", avar));
    }
    Item::new(
        format!(
            "fvar axisCount {a}, axisSize {asize}, instanceCount {ni}, instanceSize {} = {isize}, {}, axis values {}; {}",
            FV_INSTANCE_SIZE[d[3]], FV_CUT[d[4]], FV_VALUES[d[5]], FV_AVAR[d[6]]
        ),
        sfnt(&t),
    )
}

// ---------------------------------------------------------------------------------------------
// hmtx / hhea / maxp / head / OS/2
// ---------------------------------------------------------------------------------------------

pub const M_UPEM: [u16; 6] = [0, 1, 16, 1000, 16384, 65535];
pub const M_GLYPHS: [u16; 3] = [0, 1, 3];
pub const M_HMETRICS: [u16; 6] = [0, 1, 2, 3, 4, 65535];
pub const M_HMTX: [&str; 6] = ["exact length", "one byte short", "two bytes short", "two bytes long", "empty", "no hmtx table"];
pub const M_OS2: [&str; 9] = [
    "no OS/2",
    "version 0, 78 bytes",
    "version 1, 86 bytes",
    "version 2, 96 bytes",
    "version 5, 100 bytes",
    "version 5 but only 78 bytes",
    "version 4, USE_TYPO_METRICS, italic + oblique, width class 10, weight 65535",
    "version 4, typo all zero (win fallback), width class 0, weight 0",
    "version 0, 68 bytes (legacy short)",
];
pub const M_HHEA: [&str; 2] = ["ascender/descender non-zero", "ascender = descender = 0"];
const R_METRICS: [usize; 6] = [M_UPEM.len(), M_GLYPHS.len(), M_HMETRICS.len(), M_HMTX.len(), M_OS2.len(), 2];

pub fn os2(kind: usize) -> Option<Vec<u8>> {
    let (version, len): (u16, usize) = match kind {
        0 => return None,
        1 => (0, 78),
        2 => (1, 86),
        3 => (2, 96),
        4 => (5, 100),
        5 => (5, 78),
        6 | 7 => (4, 96),
        _ => (0, 68),
    };
    let mut v = vec![0u8; 100];
    let put = |v: &mut Vec<u8>, off: usize, x: u16| v[off..off + 2].copy_from_slice(&x.to_be_bytes());
    put(&mut v, 0, version);
    put(&mut v, 2, 512);
    put(&mut v, 4, 400);
    put(&mut v, 6, 5);
    put(&mut v, 26, 50);
    put(&mut v, 28, 300);
    put(&mut v, 68, 750);
    put(&mut v, 70, (-250i16) as u16);
    put(&mut v, 72, 100);
    put(&mut v, 74, 950);
    put(&mut v, 76, 300);
    put(&mut v, 86, 480);
    put(&mut v, 88, 700);
    if kind == 6 {
        put(&mut v, 62, 0x0080 | 0x0001 | 0x0200);
        put(&mut v, 6, 10);
        put(&mut v, 4, 65535);
    }
    if kind == 7 {
        put(&mut v, 62, 0x0200);
        for off in [68, 70, 72, 4, 6] {
            put(&mut v, off, 0);
        }
    }
    v.truncate(len);
    Some(v)
}

fn metrics_item(idx: u64) -> Item {
    let d = decode(idx, &R_METRICS);
    let (upem, n, nh) = (M_UPEM[d[0]], M_GLYPHS[d[1]], M_HMETRICS[d[2]]);
    let n_long = (nh as usize).min(8);
    let mut hm = hmtx(n_long, (n as usize).saturating_sub(n_long));
    if nh == 65535 {
        hm = hmtx(65535, 0);
    }
    match d[3] {
        1 => hm.truncate(hm.len().saturating_sub(1)),
        2 => hm.truncate(hm.len().saturating_sub(2)),
        3 => hm.extend_from_slice(&[0, 7]),
        4 => hm.clear(),
        _ => {}
    }
    let mut t: Tables = vec![
        (b"head", head(upem, if d[5] == 1 { 3 } else { 0 })),
        (b"maxp", maxp(n)),
        (b"hhea", if d[5] == 0 { hhea(800, -200, 90, nh) } else { hhea(0, 0, 0, nh) }),
        (b"post", post_header(0x0003_0000)),
    ];
    if d[3] != 5 {
        t.push((b"hmtx", hm));
    }
    if let Some(o) = os2(d[4]) {
        t.push((b"OS/2", o));
    }
    Item::new(
        format!("unitsPerEm {upem}, numGlyphs {n}, numberOfHMetrics {nh}, hmtx {}, OS/2: {}, hhea {}", M_HMTX[d[3]], M_OS2[d[4]], M_HHEA[d[5]]),
        sfnt(&t),
    )
}

// ---------------------------------------------------------------------------------------------
// item variation store, MVAR, HVAR
// ---------------------------------------------------------------------------------------------

fn fvar1() -> Vec<u8> {
    let mut fvar = vec![0, 1, 0, 0];
    for x in [16u16, 2, 1, 20, 0, 8] {
        w16(&mut fvar, x);
    }
    fvar.extend_from_slice(b"wght");
    for v in [100i32 << 16, 400 << 16, 900 << 16] {
        fvar.extend_from_slice(&v.to_be_bytes());
    }
    w16(&mut fvar, 0);
    w16(&mut fvar, 256);
    fvar
}

/// ItemVariationStore: `region_axes` axes per region, 1 region (peak +1), `ivds` data blocks of `items` items,
/// each with `ric` region indexes (index k = k, so ric = 2 names a missing region) and `wdc` as wordDeltaCount.
fn ivs(region_axes: u16, ivds: usize, items: u16, ric: u16, wdc: u16) -> Vec<u8> {
    let mut v = vec![];
    w16(&mut v, 1);
    let hdr = 8 + 4 * ivds;
    w32(&mut v, hdr as u32);
    w16(&mut v, ivds as u16);
    let mut regions = vec![];
    w16(&mut regions, region_axes);
    w16(&mut regions, 1);
    for _ in 0..region_axes {
        for x in [0i16, 0x4000, 0x4000] {
            wi16(&mut regions, x);
        }
    }
    let mut ivd = vec![];
    w16(&mut ivd, items);
    w16(&mut ivd, wdc);
    w16(&mut ivd, ric);
    for k in 0..ric {
        w16(&mut ivd, k);
    }
    let long = wdc & 0x8000 != 0;
    let words = (wdc & 0x7FFF).min(ric) as usize;
    let row = if long { 4 * words + 2 * (ric as usize - words) } else { 2 * words + (ric as usize - words) };
    for i in 0..items as usize * row {
        ivd.push((i * 37 + 5) as u8);
    }
    for k in 0..ivds {
        w32(&mut v, (hdr + regions.len() + k * ivd.len()) as u32);
    }
    v.extend_from_slice(&regions);
    for _ in 0..ivds {
        v.extend_from_slice(&ivd);
    }
    v
}

pub const HV_MAP: [&str; 3] = ["no advance map (direct gid)", "DeltaSetIndexMap format 0", "DeltaSetIndexMap format 1"];
pub const HV_ENTRY_FORMAT: [u8; 4] = [0x00, 0x11, 0x3F, 0x20];
pub const HV_MAP_COUNT: [u32; 5] = [0, 1, 2, 3, 4];
pub const HV_ENTRIES: [&str; 4] = ["in range", "outer index = ivd count", "inner index = item count", "all ones"];
pub const HV_ITEMS: [u16; 2] = [0, 3];
pub const HV_RIC: [u16; 3] = [0, 1, 2];
pub const HV_WDC: [u16; 4] = [0, 1, 0x8001, 2];
pub const HV_REGION_AXES: [u16; 2] = [1, 2];
pub const HV_CUT: [&str; 2] = ["complete", "last byte missing"];
const R_HVAR: [usize; 9] = [3, 4, 5, 4, 2, 3, 4, 2, 2];

fn delta_set_index_map(format: u8, entry_format: u8, count: u32, kind: usize, ivds: u32, items: u32) -> Vec<u8> {
    let mut v = vec![format, entry_format];
    if format == 0 {
        w16(&mut v, count as u16);
    } else {
        w32(&mut v, count);
    }
    let size = ((entry_format >> 4) & 3) as usize + 1;
    let bits = (entry_format & 0xF) as u32 + 1;
    for i in 0..count {
        let (outer, inner) = match kind {
            0 => (0, i % items.max(1)),
            1 => (ivds, 0),
            2 => (0, items),
            _ => (u32::MAX, u32::MAX),
        };
        let e: u64 = if kind == 3 { u64::MAX } else { ((outer as u64) << bits) | (inner as u64 & ((1 << bits) - 1)) };
        v.extend_from_slice(&e.to_be_bytes()[8 - size..]);
    }
    v
}

fn hvar_item(idx: u64) -> Item {
    let d = decode(idx, &R_HVAR);
    let (ef, mc, items, ric, wdc, rax) = (HV_ENTRY_FORMAT[d[1]], HV_MAP_COUNT[d[2]], HV_ITEMS[d[4]], HV_RIC[d[5]], HV_WDC[d[6]], HV_REGION_AXES[d[7]]);
    let store = ivs(rax, 1, items, ric, wdc);
    let mut hvar = vec![0, 1, 0, 0];
    w32(&mut hvar, 20);
    if d[0] == 0 {
        w32(&mut hvar, 0);
        w32(&mut hvar, 0);
        w32(&mut hvar, 0);
        hvar.extend_from_slice(&store);
    } else {
        let map = delta_set_index_map((d[0] - 1) as u8, ef, mc, d[3], 1, items as u32);
        let mo = 20 + store.len() as u32;
        w32(&mut hvar, mo);
        w32(&mut hvar, mo);
        w32(&mut hvar, mo + map.len() as u32 + 1); // rsb map: beyond the table
        hvar.extend_from_slice(&store);
        hvar.extend_from_slice(&map);
    }
    if d[8] == 1 {
        hvar.pop();
    }
    let mut t = shell1(3);
    t.push((b"fvar", fvar1()));
    t.push((b"HVAR", hvar));
    Item::new(
        format!(
            "HVAR: {}, entryFormat {ef:#04x}, mapCount {mc}, entries {}, ivd itemCount {items}, regionIndexCount {ric} (1 region), wordDeltaCount {wdc:#x}, region axisCount {rax} (fvar 1), {}",
            HV_MAP[d[0]], HV_ENTRIES[d[3]], HV_CUT[d[8]]
        ),
        sfnt(&t),
    )
}

pub const MV_RECORD_SIZE: [u16; 4] = [8, 6, 10, 0];
pub const MV_COUNT: [usize; 4] = [0, 1, 2, 9];
pub const MV_ORDER: [&str; 3] = ["sorted", "reversed", "all the same tag"];
pub const MV_IVS: [&str; 3] = ["valid offset", "offset 0", "offset = table length"];
pub const MV_INDEX: [&str; 3] = ["valid", "outer = ivd count", "inner = item count"];
const R_MVAR: [usize; 6] = [4, 4, 3, 3, 3, 2];

fn mvar_item(idx: u64) -> Item {
    let d = decode(idx, &R_MVAR);
    let (rs, n) = (MV_RECORD_SIZE[d[0]], MV_COUNT[d[1]]);
    let mut tags: Vec<&[u8; 4]> = vec![b"cpht", b"hasc", b"hdsc", b"hlgp", b"stro", b"strs", b"undo", b"unds", b"xhgt"];
    tags.truncate(n);
    match d[2] {
        1 => tags.reverse(),
        2 => tags.iter_mut().for_each(|t| *t = b"hasc"),
        _ => {}
    }
    let mut mvar = vec![0, 1, 0, 0, 0, 0];
    w16(&mut mvar, rs);
    w16(&mut mvar, n as u16);
    let recs_len = rs as usize * n;
    let store = ivs(1, 1, 3, 1, 1);
    w16(&mut mvar, match d[3] { 0 => 12 + recs_len as u16, 1 => 0, _ => (12 + recs_len + store.len()) as u16 });
    for (k, tag) in tags.iter().enumerate() {
        let start = mvar.len();
        mvar.extend_from_slice(&tag[..]);
        let (o, i) = match d[4] { 0 => (0, (k % 3) as u16), 1 => (1, 0), _ => (0, 3) };
        w16(&mut mvar, o);
        w16(&mut mvar, i);
        mvar.resize(start + rs as usize, 0);
    }
    mvar.extend_from_slice(&store);
    if d[5] == 1 {
        mvar.pop();
    }
    let mut t = shell1(3);
    t.push((b"fvar", fvar1()));
    t.push((b"post", post_header(0x0003_0000)));
    t.push((b"OS/2", os2(4).unwrap()));
    t.push((b"MVAR", mvar));
    Item::new(
        format!("MVAR valueRecordSize {rs}, {n} records {}, ivs {}, indices {}, {}", MV_ORDER[d[2]], MV_IVS[d[3]], MV_INDEX[d[4]], HV_CUT[d[5]]),
        sfnt(&t),
    )
}

// ---------------------------------------------------------------------------------------------
// cmap subtable selection
// ---------------------------------------------------------------------------------------------

fn cmap4(pairs: &[(u16, u16)]) -> Vec<u8> {
    // one segment per pair + the 0xFFFF terminator
    let seg = pairs.len() + 1;
    let mut v = vec![];
    w16(&mut v, 4);
    w16(&mut v, (16 + 8 * seg) as u16);
    w16(&mut v, 0);
    w16(&mut v, 2 * seg as u16);
    v.extend_from_slice(&[0; 6]);
    for (c, _) in pairs {
        w16(&mut v, *c);
    }
    w16(&mut v, 0xFFFF);
    w16(&mut v, 0);
    for (c, _) in pairs {
        w16(&mut v, *c);
    }
    w16(&mut v, 0xFFFF);
    for (c, g) in pairs {
        w16(&mut v, g.wrapping_sub(*c));
    }
    w16(&mut v, 1);
    for _ in 0..seg {
        w16(&mut v, 0);
    }
    v
}
fn cmap12(format: u16, groups: &[(u32, u32, u32)]) -> Vec<u8> {
    let mut v = vec![];
    w16(&mut v, format);
    w16(&mut v, 0);
    w32(&mut v, 16 + 12 * groups.len() as u32);
    w32(&mut v, 0);
    w32(&mut v, groups.len() as u32);
    for (s, e, g) in groups {
        w32(&mut v, *s);
        w32(&mut v, *e);
        w32(&mut v, *g);
    }
    v
}
fn cmap14() -> Vec<u8> {
    let mut v = vec![];
    w16(&mut v, 14);
    w32(&mut v, 10 + 11 + 8 + 9);
    w32(&mut v, 1);
    w24(&mut v, 0xFE00);
    w32(&mut v, 21);
    w32(&mut v, 29);
    w32(&mut v, 1);
    w24(&mut v, 0x41);
    v.push(1);
    w32(&mut v, 1);
    w24(&mut v, 0x100);
    w16(&mut v, 2);
    v
}

pub const CMAP_KINDS: [&str; 14] = [
    "(0,3) format 4", "(0,4) format 12", "(0,5) format 14", "(0,6) format 12", "(3,0) format 4 at U+F0xx", "(3,1) format 4", "(3,10) format 12",
    "(1,0) format 0", "(2,1) format 4", "(3,1) format 6", "(3,10) format 13", "(0,3) offset beyond the table", "(3,0) format 12 at U+F0xx", "(0,5) format 4",
];

fn cmap_kind(k: usize) -> (u16, u16, Option<Vec<u8>>) {
    match k {
        0 => (0, 3, Some(cmap4(&[(0x41, 1), (0xFF, 2)]))),
        1 => (0, 4, Some(cmap12(12, &[(0x41, 0x42, 1), (0x1F600, 0x1F600, 2)]))),
        2 => (0, 5, Some(cmap14())),
        3 => (0, 6, Some(cmap12(12, &[(0x20, 0x20, 2), (0x10FFFF, 0x10FFFF, 1)]))),
        4 => (3, 0, Some(cmap4(&[(0xF020, 1), (0xF041, 2), (0xF0FF, 1)]))),
        5 => (3, 1, Some(cmap4(&[(0x20, 2), (0x100, 1)]))),
        6 => (3, 10, Some(cmap12(12, &[(0, 0, 1), (0x10000, 0x10001, 1)]))),
        7 => {
            let mut v = vec![];
            w16(&mut v, 0);
            w16(&mut v, 262);
            w16(&mut v, 0);
            v.extend((0..256).map(|i| (i % 3) as u8));
            (1, 0, Some(v))
        }
        8 => (2, 1, Some(cmap4(&[(0x41, 2)]))),
        9 => {
            let mut v = vec![];
            for x in [6u16, 14, 0, 0x41, 2, 1, 2] {
                w16(&mut v, x);
            }
            (3, 1, Some(v))
        }
        10 => (3, 10, Some(cmap12(13, &[(0x41, 0x5A, 1)]))),
        11 => (0, 3, None),
        12 => (3, 0, Some(cmap12(12, &[(0xF041, 0xF042, 1)]))),
        _ => (0, 5, Some(cmap4(&[(0x41, 1)]))),
    }
}

const CMAP_N: u64 = 1 + 14 + 14 * 14 + 14 * 14 * 14;

fn cmap_item(idx: u64) -> Item {
    // every sequence of 0..=3 encoding records over the 14 kinds (file order = sequence order)
    let seq: Vec<usize> = if idx == 0 {
        vec![]
    } else if idx < 15 {
        vec![(idx - 1) as usize]
    } else if idx < 15 + 196 {
        decode(idx - 15, &[14, 14])
    } else {
        decode(idx - 211, &[14, 14, 14])
    };
    let mut cmap = vec![];
    w16(&mut cmap, 0);
    w16(&mut cmap, seq.len() as u16);
    let mut data = vec![];
    let base = 4 + 8 * seq.len();
    for k in &seq {
        let (p, e, sub) = cmap_kind(*k);
        w16(&mut cmap, p);
        w16(&mut cmap, e);
        match sub {
            Some(s) => {
                w32(&mut cmap, (base + data.len()) as u32);
                data.extend_from_slice(&s);
            }
            None => w32(&mut cmap, 0x00FF_FFF0),
        }
    }
    cmap.extend_from_slice(&data);
    let mut t = shell1(3);
    t.push((b"cmap", cmap));
    Item::new(format!("cmap encoding records {:?}", seq.iter().map(|k| CMAP_KINDS[*k]).collect::<Vec<_>>()), sfnt(&t))
}

// ---------------------------------------------------------------------------------------------
// sfnt directory / TTC header
// ---------------------------------------------------------------------------------------------

pub const TTC_FONTS: [u32; 6] = [0, 1, 2, 3, 0x1000_0000, 0xFFFF_FFFF];
pub const TTC_OFFSET: [&str; 6] = ["valid", "0 (the ttcf header itself)", "file length - 1", "file length", "file length + 12", "0xFFFFFFFF"];
pub const TTC_VERSION: [u32; 3] = [0x0001_0000, 0x0002_0000, 0x0003_0000];
const R_TTC: [usize; 4] = [6, 6, 3, 2];

fn ttc_item(idx: u64) -> Item {
    let d = decode(idx, &R_TTC);
    let nf = TTC_FONTS[d[0]];
    let listed = nf.min(3) as usize;
    let inner = sfnt(&crate::metafam::shell(2));
    let hdr_len = 12 + 4 * listed + if d[2] >= 1 { 12 } else { 0 };
    let total = hdr_len + inner.len();
    let mut v = b"ttcf".to_vec();
    w32(&mut v, TTC_VERSION[d[2]]);
    w32(&mut v, nf);
    for k in 0..listed {
        // the last listed offset is the hostile one
        let o: u32 = if k + 1 < listed {
            hdr_len as u32
        } else {
            match d[1] {
                0 => hdr_len as u32,
                1 => 0,
                2 => total as u32 - 1,
                3 => total as u32,
                4 => total as u32 + 12,
                _ => u32::MAX,
            }
        };
        w32(&mut v, o);
    }
    if d[2] >= 1 {
        v.extend_from_slice(b"DSIG");
        w32(&mut v, 8);
        w32(&mut v, u32::MAX);
    }
    // inner font: table offsets are relative to the file start
    let mut f = inner.clone();
    let nt = u16::from_be_bytes([f[4], f[5]]) as usize;
    for k in 0..nt {
        let p = 12 + 16 * k + 8;
        let o = u32::from_be_bytes([f[p], f[p + 1], f[p + 2], f[p + 3]]) + hdr_len as u32;
        f[p..p + 4].copy_from_slice(&o.to_be_bytes());
    }
    v.extend_from_slice(&f);
    if d[3] == 1 {
        v.truncate(12 + 4 * listed.saturating_sub(1) + 2);
    }
    let mut it = Item::new(
        format!("ttcf version {:#x}, numFonts {nf:#x} ({listed} offsets present), last offset {}, {}", TTC_VERSION[d[2]], TTC_OFFSET[d[1]], ["complete", "cut inside the offset array"][d[3]]),
        v,
    );
    let mut ix = vec![0, 1, 2, nf.wrapping_sub(1), nf, 0x3FFF_FFFF, 0x4000_0000, u32::MAX];
    ix.sort();
    ix.dedup();
    it.indices = ix;
    it
}

pub const DIR_TABLES: [u16; 6] = [0, 1, 5, 6, 4096, 0xFFFF];
pub const DIR_VERSION: [u32; 4] = [0x0001_0000, 0x4F54_544F, 0x7472_7565, 0];
pub const DIR_NAME_RECORD: [&str; 7] = ["valid", "ends at the file end", "ends one byte past the file end", "offset 0xFFFFFFFF", "length 0xFFFFFFFF", "length 0", "offset + length wraps u32"];
const R_DIR: [usize; 4] = [6, 4, 7, 2];

fn dir_item(idx: u64) -> Item {
    let d = decode(idx, &R_DIR);
    let mut t = crate::metafam::shell(2);
    let recs = [crate::metafam::NameRec { platform: 3, encoding: 1, language: 0x409, name_id: 1, length: 2, offset: 0 }];
    // 'name' sorts last of the five tables and is physically last
    t.push((b"name", crate::metafam::name_table(0, &recs, None, &[0, b'A', 0, 0], 0)));
    let mut f = sfnt(&t);
    f[0..4].copy_from_slice(&DIR_VERSION[d[1]].to_be_bytes());
    f[4..6].copy_from_slice(&DIR_TABLES[d[0]].to_be_bytes());
    let p = 12 + 16 * 4 + 8;
    let off = u32::from_be_bytes([f[p], f[p + 1], f[p + 2], f[p + 3]]);
    let flen = f.len() as u32;
    let (o, l): (u32, u32) = match d[2] {
        0 => (off, 22),
        1 => (off, flen - off),
        2 => (off, flen - off + 1),
        3 => (u32::MAX, 22),
        4 => (off, u32::MAX),
        5 => (off, 0),
        _ => (off, u32::MAX - off + 2),
    };
    f[p..p + 4].copy_from_slice(&o.to_be_bytes());
    f[p + 4..p + 8].copy_from_slice(&l.to_be_bytes());
    if d[3] == 1 {
        // unsorted directory: swap the first and the last record
        let a: Vec<u8> = f[12..28].to_vec();
        let b: Vec<u8> = f[12 + 64..12 + 80].to_vec();
        f[12..28].copy_from_slice(&b);
        f[12 + 64..12 + 80].copy_from_slice(&a);
    }
    let mut it = Item::new(
        format!("sfnt version {:#x}, numTables {} (5 records present), name record {}, directory {}", DIR_VERSION[d[1]], DIR_TABLES[d[0]], DIR_NAME_RECORD[d[2]], ["sorted", "first and last record swapped"][d[3]]),
        f,
    );
    it.ids = vec![1];
    it
}

// ---------------------------------------------------------------------------------------------
// CFF / CFF2 DICT offset operands (CharStrings, Private size / offset, Subrs, FDArray, vstore)
// ---------------------------------------------------------------------------------------------

fn cff_base(cff2: bool) -> Vec<u8> {
    use crate::cffprog::num;
    // rmoveto, rlineto x2, call local subr 0 (= return), endchar
    let mut cs = vec![];
    for v in [100, 100] {
        cs.extend(num(v));
    }
    cs.push(21);
    for v in [300, 0, -150, 400] {
        cs.extend(num(v));
    }
    cs.push(5);
    cs.extend(num(-107));
    cs.push(10);
    let subr = if cff2 { vec![] } else { vec![11u8] };
    if cff2 {
        crate::cff2prog::cff2_table_full(&cs, &[subr.clone()], &[subr], &[], crate::cff2prog::var_store_with(&[1]))
    } else {
        cs.push(14);
        crate::cffprog::cff_table_full(&cs, &[subr.clone()], &[subr], &[])
    }
}
/// positions of 5-byte DICT integers (byte 29 + 4 bytes) that are followed by an operator or another operand
fn cff_operand_positions(t: &[u8]) -> Vec<usize> {
    (0..t.len().saturating_sub(5)).filter(|p| t[*p] == 29 && matches!(t[*p + 5], 12 | 17 | 18 | 19 | 24 | 29)).collect()
}
pub const CFF_EXTRA_VALUES: [i32; 6] = [0x7FFF, 0xFFFF, 0x00FF_FFFF, i32::MAX, -1, i32::MIN];
fn cff_values(len: usize) -> Vec<i32> {
    let mut v: Vec<i32> = (0..=len as i32 + 2).collect();
    v.extend(CFF_EXTRA_VALUES);
    v
}
fn cff_off_item_of(cff2: bool, idx: u64) -> Item {
    let base = cff_base(cff2);
    let pos = cff_operand_positions(&base);
    let vals = cff_values(base.len());
    let d = decode(idx, &[pos.len(), vals.len()]);
    let (p, v) = (pos[d[0]], vals[d[1]]);
    let mut t = base.clone();
    t[p + 1..p + 5].copy_from_slice(&v.to_be_bytes());
    let font = if cff2 { crate::cff2prog::Parts::new().build_with_table(t) } else { crate::cffprog::Parts::new().build_with_table(t) };
    let mut it = Item::new(
        format!("{} table of {} bytes: DICT operand at byte {p} (before operator {}) = {v}", if cff2 { "CFF2" } else { "CFF" }, base.len(), base[p + 5]),
        font,
    );
    it.draw = if cff2 { 2 } else { 1 };
    it
}
fn cff_off_item(idx: u64) -> Item {
    cff_off_item_of(false, idx)
}
fn cff2_off_item(idx: u64) -> Item {
    cff_off_item_of(true, idx)
}
fn cff_off_radices(cff2: bool) -> Vec<usize> {
    let base = cff_base(cff2);
    vec![cff_operand_positions(&base).len(), cff_values(base.len()).len()]
}

// ---------------------------------------------------------------------------------------------

/// post: versions other than 2.0 carry no index / strings, so only the first value of those digits runs
fn post_filter(d: &[usize], _quick: bool) -> bool {
    d[0] == 0 || (d[2] == 0 && d[3] == 0 && d[4] == 0)
}
/// quick: axisCount {0,1,8,9} x axisSize {20,19} x axis values without the degenerate "all equal" x avar version 1
/// kinds; axisCount {64,65} (the avar 2 scratch capacity) x complete 20-byte records x the two avar 2 kinds
fn fvar_filter(d: &[usize], quick: bool) -> bool {
    !quick || ([0, 1, 4, 5].contains(&d[0]) && d[1] < 2 && d[5] != 1 && d[6] < 6) || (d[0] >= 6 && d[1] == 0 && d[4] == 0 && d[6] >= 6) || ([1, 5].contains(&d[0]) && d[1] == 0 && d[4] == 0 && d[6] >= 6)
}
/// quick: unitsPerEm {0,1,1000,65535}
fn metrics_filter(d: &[usize], quick: bool) -> bool {
    !quick || [0, 1, 3, 5].contains(&d[0])
}
/// quick: entryFormat {00,3F,20}, mapCount {0,1,3,4}, itemCount 3, wordDeltaCount {0,8001,2}; without a map the
/// map digits are redundant in both tiers
fn hvar_filter(d: &[usize], quick: bool) -> bool {
    if d[0] == 0 && (d[1] != 0 || d[2] != 0 || d[3] != 0) {
        return false;
    }
    !quick || (d[1] != 1 && d[2] != 2 && d[4] == 1 && d[6] != 1)
}
use crate::metafam::all;

pub fn families() -> Vec<Family> {
    vec![
        Family { name: "post-names", radices: R_POST.to_vec(), item: post_item, filter: post_filter, parts: 8 },
        Family { name: "post-names-65535", radices: vec![POST_RELATION.len(), POST_INDEX.len()], item: post_max_item, filter: all, parts: 8 },
        Family { name: "fvar-avar", radices: R_FVAR.to_vec(), item: fvar_item, filter: fvar_filter, parts: 16 },
        Family { name: "hmtx-os2", radices: R_METRICS.to_vec(), item: metrics_item, filter: metrics_filter, parts: 16 },
        Family { name: "hvar", radices: R_HVAR.to_vec(), item: hvar_item, filter: hvar_filter, parts: 16 },
        Family { name: "mvar", radices: R_MVAR.to_vec(), item: mvar_item, filter: all, parts: 4 },
        Family { name: "cmap-select", radices: vec![CMAP_N as usize], item: cmap_item, filter: all, parts: 8 },
        Family { name: "ttc-header", radices: R_TTC.to_vec(), item: ttc_item, filter: all, parts: 2 },
        Family { name: "sfnt-directory", radices: R_DIR.to_vec(), item: dir_item, filter: all, parts: 2 },
        Family { name: "cff-offsets", radices: cff_off_radices(false), item: cff_off_item, filter: all, parts: 4 },
        Family { name: "cff2-offsets", radices: cff_off_radices(true), item: cff2_off_item, filter: all, parts: 4 },
    ]
}

pub fn bounds(quick: bool) -> Vec<(&'static str, Value)> {
    let q = |quick_note: &str| if quick { json!(quick_note) } else { json!("full product") };
    vec![
        ("tier_selection", json!({"fvar-avar": q("axisCount {0,1,8,9} x axisSize {20,19} x axis values without 'all equal' x avar 1 kinds; axisCount {1,9,64,65} x complete records x the avar 2 kinds"), "hmtx-os2": q("unitsPerEm {0,1,1000,65535}"), "hvar": q("entryFormat {00,3F,20}, mapCount {0,1,3,4}, itemCount 3, wordDeltaCount {0,8001,2}")})),
        ("post-names", json!({"versions": POST_VERSIONS, "maxp_numGlyphs": POST_GLYPHS, "post_numGlyphs": POST_RELATION, "index": POST_INDEX, "strings": POST_STRINGS})),
        ("fvar-avar", json!({"axisCount": FV_AXES, "axisSize": FV_AXIS_SIZE, "instanceCount": FV_INSTANCES, "instanceSize": FV_INSTANCE_SIZE, "cut": FV_CUT, "axis_values": FV_VALUES, "avar": FV_AVAR})),
        ("hmtx-os2", json!({"unitsPerEm": M_UPEM, "numGlyphs": M_GLYPHS, "numberOfHMetrics": M_HMETRICS, "hmtx": M_HMTX, "os2": M_OS2, "hhea": M_HHEA})),
        ("hvar", json!({"map": HV_MAP, "entryFormat": HV_ENTRY_FORMAT, "mapCount": HV_MAP_COUNT, "entries": HV_ENTRIES, "itemCount": HV_ITEMS, "regionIndexCount": HV_RIC, "wordDeltaCount": HV_WDC, "region_axisCount": HV_REGION_AXES, "cut": HV_CUT, "glyphs": 3})),
        ("mvar", json!({"valueRecordSize": MV_RECORD_SIZE, "records": MV_COUNT, "order": MV_ORDER, "ivs": MV_IVS, "indices": MV_INDEX, "cut": HV_CUT})),
        ("cmap-select", json!({"record_kinds": CMAP_KINDS, "sequences": "every sequence of 0..=3 records"})),
        ("ttc-header", json!({"numFonts": TTC_FONTS, "last_offset": TTC_OFFSET, "version": TTC_VERSION, "cut": 2, "indices": "0,1,2,numFonts-1,numFonts,0x3FFFFFFF,0x40000000,u32::MAX"})),
        ("cff-offsets", json!({"tables": "hand-assembled CFF and CFF2 tables (one glyph calling local subr 0; CFF2 with a variation store)", "positions": "every 5-byte DICT integer followed by an operator (CharStrings, Private size/offset, Subrs, FDArray, vstore)",
            "values": "every value 0..=table length + 2, and 0x7FFF, 0xFFFF, 0xFFFFFF, i32::MAX, -1, i32::MIN", "radices_cff": cff_off_radices(false), "radices_cff2": cff_off_radices(true),
            "draws": "cffprog / cff2prog sweep: unhinted unscaled + 13.5, hinted, (CFF2: two locations)"})),
        ("sfnt-directory", json!({"numTables": DIR_TABLES, "sfnt_version": DIR_VERSION, "name_record": DIR_NAME_RECORD, "order": 2})),
    ]
}
