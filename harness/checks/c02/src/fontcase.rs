//! Font cases: a corpus seed font + a list of byte deviations (X3, DESIGN 2.4), fully replayable.

use serde_json::{json, Value};
use std::sync::OnceLock;

/// Replace `bytes` at `off` inside table `table` (4-char tag, of font 0 for collections) — or at the
/// absolute file offset when `table` is empty.
#[derive(Clone, Debug, PartialEq)]
pub struct Dev {
    pub table: String,
    pub off: u32,
    pub bytes: Vec<u8>,
}

#[derive(Clone, Debug, PartialEq)]
pub struct FontCase {
    /// corpus-relative path (`vcore::corpus_fonts()` key)
    pub seed: String,
    pub devs: Vec<Dev>,
    /// truncation: (table tag, k) — the table record's length is reduced by k bytes and, when the table is the
    /// physically last one of the file, the file is cut there too
    pub trunc: Option<(String, u32)>,
}

impl FontCase {
    pub fn to_json(&self) -> Value {
        let mut v = json!({"seed": self.seed,
               "devs": self.devs.iter().map(|d| json!({"table": d.table, "off": d.off, "bytes": vcore::hex(&d.bytes)})).collect::<Vec<_>>()});
        if let Some((t, k)) = &self.trunc {
            v["trunc"] = json!({"table": t, "by": k});
        }
        v
    }
    pub fn from_json(v: &Value) -> Option<FontCase> {
        Some(FontCase {
            seed: v["seed"].as_str()?.to_string(),
            trunc: v["trunc"]["table"].as_str().map(|t| (t.to_string(), v["trunc"]["by"].as_u64().unwrap_or(0) as u32)),
            devs: v["devs"]
                .as_array()
                .map(|a| {
                    a.iter()
                        .map(|d| Dev {
                            table: d["table"].as_str().unwrap_or("").to_string(),
                            off: d["off"].as_u64().unwrap_or(0) as u32,
                            bytes: vcore::unhex(d["bytes"].as_str().unwrap_or("")),
                        })
                        .collect()
                })
                .unwrap_or_default(),
        })
    }
    /// Bytes of the deviated font; None if the seed is unknown or a deviation falls outside the file.
    pub fn bytes(&self) -> Option<Vec<u8>> {
        let seed = seed_bytes(&self.seed)?;
        let bytes = apply(seed, &self.devs)?;
        match &self.trunc {
            None => Some(bytes),
            Some((table, k)) => truncate_table(&bytes, table, *k as usize),
        }
    }
}

pub fn corpus() -> &'static Vec<(String, Vec<u8>)> {
    static C: OnceLock<Vec<(String, Vec<u8>)>> = OnceLock::new();
    C.get_or_init(vcore::corpus_fonts)
}

pub fn seed_bytes(name: &str) -> Option<&'static [u8]> {
    corpus()
        .iter()
        .find(|(n, _)| n == name)
        .map(|(_, b)| b.as_slice())
}

fn be16(d: &[u8], o: usize) -> Option<usize> {
    Some(u16::from_be_bytes([*d.get(o)?, *d.get(o + 1)?]) as usize)
}
fn be32(d: &[u8], o: usize) -> Option<usize> {
    Some(u32::from_be_bytes([*d.get(o)?, *d.get(o + 1)?, *d.get(o + 2)?, *d.get(o + 3)?]) as usize)
}

/// Table directory (tag, offset, length) of a single font, or of font 0 of a collection. Own parser so
/// that the case description does not depend on the code under test.
pub fn table_dir(data: &[u8]) -> Vec<(String, usize, usize)> {
    let mut base = 0usize;
    if data.get(0..4) == Some(b"ttcf") {
        match be32(data, 12) {
            Some(o) => base = o,
            None => return vec![],
        }
    }
    let Some(n) = be16(data, base + 4) else {
        return vec![];
    };
    let mut out = vec![];
    for i in 0..n {
        let r = base + 12 + 16 * i;
        let Some(tag) = data.get(r..r + 4) else { break };
        let (Some(off), Some(len)) = (be32(data, r + 8), be32(data, r + 12)) else {
            break;
        };
        if off.checked_add(len).map(|e| e <= data.len()).unwrap_or(false) {
            out.push((String::from_utf8_lossy(tag).to_string(), off, len));
        }
    }
    out
}

/// Position of the table record (tag, checksum, offset, length) of `table` in font 0 of the file.
fn table_record_pos(data: &[u8], table: &str) -> Option<usize> {
    let mut base = 0usize;
    if data.get(0..4) == Some(b"ttcf") {
        base = be32(data, 12)?;
    }
    let n = be16(data, base + 4)?;
    (0..n).map(|i| base + 12 + 16 * i).find(|r| data.get(*r..*r + 4) == Some(table.as_bytes()))
}

/// Shorten `table` by `k` bytes: the record's length field is reduced; if the table's data ends at (or within
/// 3 padding bytes of) the end of the file, the file is physically cut as well. None if k exceeds the length.
pub fn truncate_table(data: &[u8], table: &str, k: usize) -> Option<Vec<u8>> {
    let r = table_record_pos(data, table)?;
    let off = be32(data, r + 8)?;
    let len = be32(data, r + 12)?;
    if k > len {
        return None;
    }
    let mut out = data.to_vec();
    out[r + 12..r + 16].copy_from_slice(&((len - k) as u32).to_be_bytes());
    let end = off.checked_add(len)?;
    if end <= data.len() && data.len() - end <= 3 {
        out.truncate(end - k);
    }
    Some(out)
}

/// Tables with trailing variable-size records: every prefix length over their last 32 bytes is enumerated.
pub const TRAILING_TABLES: [&str; 18] = [
    "COLR", "CPAL", "gvar", "glyf", "loca", "cmap", "GSUB", "GPOS", "GDEF", "HVAR", "MVAR", "CFF ", "CFF2", "name", "post", "sbix",
    "CBDT", "CBLC",
];

/// Truncation amounts for `table` of length `len`: `ks` for every table, 1..=32 for `TRAILING_TABLES`.
pub fn truncations(table: &str, len: usize, ks: &[usize], trailing: bool) -> Vec<usize> {
    let mut v: Vec<usize> = ks.to_vec();
    if trailing && TRAILING_TABLES.contains(&table) {
        v.extend(1..=32);
    }
    v.retain(|k| *k <= len);
    v.sort();
    v.dedup();
    v
}

pub fn apply(seed: &[u8], devs: &[Dev]) -> Option<Vec<u8>> {
    let mut out = seed.to_vec();
    let dir = if devs.iter().any(|d| !d.table.is_empty()) {
        table_dir(seed)
    } else {
        vec![]
    };
    for d in devs {
        let base = if d.table.is_empty() {
            0
        } else {
            dir.iter().find(|(t, _, _)| *t == d.table)?.1
        };
        let at = base + d.off as usize;
        out.get_mut(at..at + d.bytes.len())?.copy_from_slice(&d.bytes);
    }
    Some(out)
}

/// One-byte alphabet and big-endian u16 boundary alphabet of X3.
pub const BYTE_ALPHABET: [u8; 6] = [0x00, 0x01, 0x02, 0x7F, 0x80, 0xFF];
pub const U16_ALPHABET: [u16; 5] = [0, 1, 0x7FFF, 0x8000, 0xFFFF];

/// All single deviations of the first `max_bytes` bytes of one table: every byte position × BYTE_ALPHABET
/// (values different from the original), and every 2-aligned position × U16_ALPHABET where *both* bytes
/// change (the others are already one-byte deviations). Deterministic order: by offset, bytes first.
pub fn table_deviations(table: &str, tdata: &[u8], max_bytes: usize) -> Vec<Dev> {
    table_deviations_ext(table, tdata, max_bytes, false)
}

/// `rich` adds, at every 2-aligned position, the length- and position-relative u16 values of X3
/// {len−2, len−1, len, len+1, pos, pos+1, pos+2} (len = table length) and the off-by-one neighbours
/// {orig−1, orig+1} of the value already there — the values that put a count or offset exactly on a bound.
pub fn table_deviations_ext(table: &str, tdata: &[u8], max_bytes: usize, rich: bool) -> Vec<Dev> {
    let n = tdata.len().min(max_bytes);
    let len = tdata.len();
    let mut out = vec![];
    for o in 0..n {
        for v in BYTE_ALPHABET {
            if tdata[o] != v {
                out.push(Dev {
                    table: table.to_string(),
                    off: o as u32,
                    bytes: vec![v],
                });
            }
        }
        if o % 2 == 0 && o + 1 < n {
            for w in U16_ALPHABET {
                let b = w.to_be_bytes();
                if b[0] != tdata[o] && b[1] != tdata[o + 1] {
                    out.push(Dev {
                        table: table.to_string(),
                        off: o as u32,
                        bytes: b.to_vec(),
                    });
                }
            }
            if rich {
                let orig = u16::from_be_bytes([tdata[o], tdata[o + 1]]);
                let mut extra: Vec<u16> = vec![];
                for v in [
                    len as i64 - 2,
                    len as i64 - 1,
                    len as i64,
                    len as i64 + 1,
                    o as i64,
                    o as i64 + 1,
                    o as i64 + 2,
                    orig as i64 - 1,
                    orig as i64 + 1,
                ] {
                    if (0..=0xFFFF).contains(&v) {
                        extra.push(v as u16);
                    }
                }
                extra.sort();
                extra.dedup();
                for w in extra {
                    let b = w.to_be_bytes();
                    let one_byte_dev = (b[0] == tdata[o] && BYTE_ALPHABET.contains(&b[1])) || (b[1] == tdata[o + 1] && BYTE_ALPHABET.contains(&b[0]));
                    let both_in_u16 = U16_ALPHABET.contains(&w) && b[0] != tdata[o] && b[1] != tdata[o + 1];
                    if w != orig && !one_byte_dev && !both_in_u16 {
                        out.push(Dev {
                            table: table.to_string(),
                            off: o as u32,
                            bytes: b.to_vec(),
                        });
                    }
                }
            }
        }
    }
    out
}

/// Table kinds deviated for the skrifa drivers: outline, metric, variation, hinting, colour, naming and
/// the shaping table the auto-hinter reads.
pub const TABLE_KINDS: [&str; 25] = [
    "head", "hhea", "maxp", "hmtx", "loca", "glyf", "fpgm", "prep", "cvt ", "fvar", "avar", "gvar", "HVAR",
    "MVAR", "cvar", "CFF ", "CFF2", "COLR", "CPAL", "cmap", "name", "post", "OS/2", "GSUB", "hdmx",
];
