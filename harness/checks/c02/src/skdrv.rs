//! Driver 1: the skrifa configuration product over one font case (DESIGN C02 E.1).
//!
//! Enumerated per font (every listed sub-product is enumerated completely, in the nesting order written):
//!   P1 metadata : attributes, axes (+ normalize / location with hostile settings and slice lengths), named
//!                 instances, localized strings (ids 0..=25, 255, 256, 0xFFFF), glyph names, charmap (boundary
//!                 code points, mappings/variant_mappings up to an iteration horizon), and for every
//!                 coords × size: metrics, glyph_metrics(advance, lsb, bounds) for every gid of G.
//!   P2 unhinted : coords × size × gid × PathStyle{FreeType,HarfBuzz} with internal memory; and the memory
//!                 sub-product coords_mem × sizes_mem × gid × style × buffer length {0, raw−1, need−1, need,
//!                 need+1} × buffer address alignment.
//!   P3 hinted   : coords × size × engine × target (first target through HintingInstance::new, the others
//!                 through reconfigure) × pedantic × gid (FreeType style, internal memory) + one HarfBuzz style
//!                 draw per instance and gid; and the memory sub-product for the interpreter engine.
//!   P4 colour   : coords × gid × {bounding_box × size, paint × paint_cached_color_glyph ∈ {Unimplemented, Ok}}.
//!
//! Oracle (C02): every call returns (per-call watchdog in the worker), none panics; a caller buffer that is
//! smaller than the sum of the arrays carved from it (need − alignment slack) never yields Ok for
//! FreeType-style glyf draws (R1, "documented misuse is an error"); a buffer of `draw_memory_size` bytes at
//! any alignment is never rejected as InsufficientMemory unless the same draw without caller memory is (R2);
//! on unmodified corpus fonts a draw without caller memory never reports InsufficientMemory (R3); a hinted
//! draw with PathStyle::HarfBuzz is the documented error HarfBuzzHintingUnsupported, never Ok (R4).

use crate::sup::{mark, tick, CaseOut, Viol};
use read_fonts::{FontRef, TableProvider};
use skrifa::color::{Brush, ColorGlyphFormat, ColorPainter, CompositeMode, PaintCachedColorGlyph, PaintError, Transform};
use skrifa::instance::{LocationRef, NormalizedCoord, Size};
use skrifa::outline::pen::PathStyle;
use skrifa::outline::{
    DrawError, DrawSettings, Engine, GlyphStyles, Hinting, HintingInstance, HintingOptions, OutlineGlyphFormat,
    OutlinePen, SmoothMode, Target,
};
use skrifa::raw::types::{BoundingBox, GlyphId};
use skrifa::string::StringId;
use skrifa::{MetadataProvider, Tag};
use std::collections::{BTreeMap, HashSet};
use vcore::Fnv;

// ---------------------------------------------------------------------------------------------
// accumulation
// ---------------------------------------------------------------------------------------------

pub struct Acc {
    pub driver: &'static str,
    pub all: HashSet<u64>,
    pub nt: HashSet<u64>,
    pub evals: u64,
    pub calls: u64,
    pub viols: Vec<Viol>,
    pub counters: BTreeMap<&'static str, u64>,
    /// per-case digest of everything observed, in order
    pub h: Fnv,
    /// batch drivers: index of the sub-case being executed (recorded in violations instead of the call count)
    pub sub_override: Option<u64>,
}

pub const MAX_DIGESTS_PER_CASE: usize = 4096;
pub const MAX_VIOLS_PER_CASE: usize = 12;

impl Acc {
    pub fn new(driver: &'static str) -> Self {
        Acc {
            driver,
            all: HashSet::new(),
            nt: HashSet::new(),
            evals: 0,
            calls: 0,
            viols: vec![],
            counters: BTreeMap::new(),
            h: Fnv::new(),
            sub_override: None,
        }
    }
    pub fn count(&mut self, k: &'static str) {
        *self.counters.entry(k).or_insert(0) += 1;
    }
    pub fn observe(&mut self, d: u64, nontrivial: bool) {
        self.h.u64(d);
        if self.all.len() < MAX_DIGESTS_PER_CASE || self.all.contains(&d) {
            self.all.insert(d);
            if nontrivial {
                self.nt.insert(d);
            }
        }
    }
    pub fn viol(&mut self, kind: &str, stage: usize, what: String, p: Option<vcore::PanicInfo>) {
        self.count("violations_raw");
        // one entry per (kind, stage, panic site+kind) per case
        let key = |v: &Viol| (v.kind.clone(), v.op.clone(), v.file.clone(), vcore::PanicInfo { message: v.message.clone(), file: String::new(), line: 0 }.kind());
        let v = Viol {
            kind: kind.into(),
            op: format!("{}: {}", self.driver, crate::sup::STAGES[stage]),
            what,
            sub: self.sub_override.unwrap_or(self.calls),
            message: p.as_ref().map(|p| p.message.clone()).unwrap_or_default(),
            file: p.as_ref().map(|p| p.file.clone()).unwrap_or_default(),
            line: p.as_ref().map(|p| p.line).unwrap_or(0),
        };
        if self.viols.len() < MAX_VIOLS_PER_CASE && !self.viols.iter().any(|o| key(o) == key(&v)) {
            self.viols.push(v);
        }
    }
    /// One guarded call into the code under test.
    #[inline]
    pub fn call<R>(&mut self, stage: usize, f: impl FnOnce() -> R) -> Option<R> {
        self.calls += 1;
        // batch drivers: the marker names the sub-case (item / program index) so that a worker death is
        // attributed to it and the batch resumes right after it; otherwise the call counter
        mark(stage, self.sub_override.unwrap_or(self.calls));
        match vcore::guard(f) {
            Ok(r) => Some(r),
            Err(p) => {
                self.count("panics");
                let what = format!("panic: {} at {}:{}", p.message, p.file, p.line);
                self.viol("panic", stage, what, Some(p));
                None
            }
        }
    }
    pub fn finish(self) -> CaseOut {
        let mut digests: Vec<u64> = self.all.into_iter().collect();
        digests.sort();
        let mut nontrivial: Vec<u64> = self.nt.into_iter().collect();
        nontrivial.sort();
        CaseOut {
            digests,
            nontrivial,
            evals: self.evals,
            calls: self.calls,
            viols: self.viols,
            ms: 0,
            counters: self.counters.into_iter().map(|(k, v)| (k.to_string(), v)).collect(),
        }
    }
}

// ---------------------------------------------------------------------------------------------
// pens / painters
// ---------------------------------------------------------------------------------------------

#[derive(Default)]
pub struct HashPen {
    pub h: Fnv,
    pub n: u64,
}
impl HashPen {
    fn f(&mut self, v: f32) {
        self.h.u64(v.to_bits() as u64)
    }
}
impl OutlinePen for HashPen {
    fn move_to(&mut self, x: f32, y: f32) {
        self.h.byte(1);
        self.f(x);
        self.f(y);
        self.n += 1;
    }
    fn line_to(&mut self, x: f32, y: f32) {
        self.h.byte(2);
        self.f(x);
        self.f(y);
        self.n += 1;
    }
    fn quad_to(&mut self, a: f32, b: f32, x: f32, y: f32) {
        self.h.byte(3);
        for v in [a, b, x, y] {
            self.f(v)
        }
        self.n += 1;
    }
    fn curve_to(&mut self, a: f32, b: f32, c: f32, d: f32, x: f32, y: f32) {
        self.h.byte(4);
        for v in [a, b, c, d, x, y] {
            self.f(v)
        }
        self.n += 1;
    }
    fn close(&mut self) {
        self.h.byte(5);
        self.n += 1;
    }
}

/// Records every callback into a hash; answers `paint_cached_color_glyph` per mode.
pub struct RecPainter {
    pub h: Fnv,
    pub n: u64,
    pub cached_ok: bool,
}
impl RecPainter {
    fn ev(&mut self, tag: u8) {
        self.h.byte(tag);
        self.n += 1;
    }
    fn brush(&mut self, b: &Brush) {
        match b {
            Brush::Solid { palette_index, alpha } => {
                self.h.byte(10);
                self.h.u64(*palette_index as u64);
                self.h.u64(alpha.to_bits() as u64);
            }
            Brush::LinearGradient { p0, p1, color_stops, extend } => {
                self.h.byte(11);
                for v in [p0.x, p0.y, p1.x, p1.y] {
                    self.h.u64(v.to_bits() as u64);
                }
                self.h.u64(color_stops.len() as u64);
                self.h.u64(*extend as u64);
            }
            Brush::RadialGradient { c0, r0, c1, r1, color_stops, extend } => {
                self.h.byte(12);
                for v in [c0.x, c0.y, *r0, c1.x, c1.y, *r1] {
                    self.h.u64(v.to_bits() as u64);
                }
                self.h.u64(color_stops.len() as u64);
                self.h.u64(*extend as u64);
            }
            Brush::SweepGradient { c0, start_angle, end_angle, color_stops, extend } => {
                self.h.byte(13);
                for v in [c0.x, c0.y, *start_angle, *end_angle] {
                    self.h.u64(v.to_bits() as u64);
                }
                self.h.u64(color_stops.len() as u64);
                self.h.u64(*extend as u64);
            }
        }
    }
}
impl ColorPainter for RecPainter {
    fn push_transform(&mut self, t: Transform) {
        self.ev(1);
        for v in [t.xx, t.yx, t.xy, t.yy, t.dx, t.dy] {
            self.h.u64(v.to_bits() as u64);
        }
    }
    fn pop_transform(&mut self) {
        self.ev(2)
    }
    fn push_clip_glyph(&mut self, g: GlyphId) {
        self.ev(3);
        self.h.u64(g.to_u32() as u64);
    }
    fn push_clip_box(&mut self, b: BoundingBox<f32>) {
        self.ev(4);
        for v in [b.x_min, b.y_min, b.x_max, b.y_max] {
            self.h.u64(v.to_bits() as u64);
        }
    }
    fn pop_clip(&mut self) {
        self.ev(5)
    }
    fn fill(&mut self, b: Brush<'_>) {
        self.ev(6);
        self.brush(&b);
    }
    fn fill_glyph(&mut self, g: GlyphId, t: Option<Transform>, b: Brush<'_>) {
        self.ev(7);
        self.h.u64(g.to_u32() as u64);
        self.h.byte(t.is_some() as u8);
        self.brush(&b);
    }
    fn paint_cached_color_glyph(&mut self, g: GlyphId) -> Result<PaintCachedColorGlyph, PaintError> {
        self.ev(8);
        self.h.u64(g.to_u32() as u64);
        Ok(if self.cached_ok {
            PaintCachedColorGlyph::Ok
        } else {
            PaintCachedColorGlyph::Unimplemented
        })
    }
    fn push_layer(&mut self, m: CompositeMode) {
        self.ev(9);
        self.h.u64(m as u64);
    }
    fn pop_layer(&mut self) {
        self.ev(10)
    }
}

// ---------------------------------------------------------------------------------------------
// plan (alphabets)
// ---------------------------------------------------------------------------------------------

#[derive(Clone, Debug)]
pub struct Plan {
    pub name: &'static str,
    /// enumerate every glyph id when the font has at most this many glyphs
    pub all_gids_below: u32,
    pub sizes: Vec<Option<f32>>,
    /// indices into the coordinate-vector alphabet (see `coord_vectors`)
    pub coord_kinds: Vec<u8>,
    /// 0 Interpreter, 1 Auto(None), 2 AutoFallback, 3 Auto(Some(precomputed styles))
    pub engines: Vec<u8>,
    pub targets: Vec<Target>,
    pub pedantic: Vec<bool>,
    pub styles: Vec<PathStyle>,
    /// memory sub-product
    pub mem_aligns: Vec<usize>,
    pub mem_sizes: Vec<Option<f32>>,
    pub mem_coord_kinds: Vec<u8>,
    pub mem_targets: Vec<Target>,
    pub metadata: bool,
    pub colour: bool,
    /// the font is an unmodified corpus font (enables rule R3)
    pub pristine: bool,
}

pub fn all_targets() -> Vec<Target> {
    let mut t = vec![Target::Mono];
    for mode in [SmoothMode::Normal, SmoothMode::Light, SmoothMode::Lcd, SmoothMode::VerticalLcd] {
        for preserve_linear_metrics in [false, true] {
            for symmetric_rendering in [true, false] {
                t.push(Target::Smooth {
                    mode,
                    symmetric_rendering,
                    preserve_linear_metrics,
                });
            }
        }
    }
    t
}

pub const ALL_SIZES: [Option<f32>; 8] = [
    None,
    Some(0.0),
    Some(1.0),
    Some(13.5),
    Some(1e9),
    Some(-1.0),
    Some(f32::NAN),
    Some(f32::INFINITY),
];

impl Plan {
    /// "full": the complete product of the DESIGN alphabets (memory as a complete sub-product).
    /// "reduced": every alphabet still covered, fewer combinations (used for deviated fonts, thorough).
    /// "min": smallest product that still reaches every engine and every kind of argument (deviated fonts, quick).
    pub fn named(name: &str) -> Option<Plan> {
        let smooth = |mode, plm, sym| Target::Smooth {
            mode,
            symmetric_rendering: sym,
            preserve_linear_metrics: plm,
        };
        Some(match name {
            "full" => Plan {
                name: "full",
                all_gids_below: 24,
                sizes: ALL_SIZES.to_vec(),
                coord_kinds: (0..8).collect(),
                engines: vec![0, 1, 2, 3],
                targets: all_targets(),
                pedantic: vec![false, true],
                styles: vec![PathStyle::FreeType, PathStyle::HarfBuzz],
                mem_aligns: (0..8).collect(),
                mem_sizes: vec![None, Some(13.5)],
                mem_coord_kinds: vec![0, 2],
                mem_targets: vec![Target::Mono, Target::default()],
                metadata: true,
                colour: true,
                pristine: false,
            },
            "reduced" => Plan {
                name: "reduced",
                all_gids_below: 8,
                sizes: vec![None, Some(0.0), Some(13.5), Some(1e9), Some(f32::NAN)],
                coord_kinds: vec![0, 2, 3, 5, 6],
                engines: vec![0, 1, 2],
                targets: vec![
                    Target::Mono,
                    Target::default(),
                    smooth(SmoothMode::Light, true, false),
                    smooth(SmoothMode::Lcd, false, true),
                    smooth(SmoothMode::VerticalLcd, true, true),
                ],
                pedantic: vec![false, true],
                styles: vec![PathStyle::FreeType, PathStyle::HarfBuzz],
                mem_aligns: vec![0, 1],
                mem_sizes: vec![Some(13.5)],
                mem_coord_kinds: vec![0],
                mem_targets: vec![Target::default()],
                metadata: true,
                colour: true,
                pristine: false,
            },
            "min" => Plan {
                name: "min",
                all_gids_below: 4,
                sizes: vec![None, Some(13.5), Some(f32::NAN)],
                coord_kinds: vec![0, 2],
                engines: vec![0, 1],
                targets: vec![Target::Mono, smooth(SmoothMode::Light, true, true)],
                pedantic: vec![true],
                styles: vec![PathStyle::FreeType, PathStyle::HarfBuzz],
                mem_aligns: vec![1],
                mem_sizes: vec![Some(13.5)],
                mem_coord_kinds: vec![0],
                mem_targets: vec![Target::Mono],
                metadata: true,
                colour: true,
                pristine: false,
            },
            // the memory alphabet crossed with *every* size, coordinate vector and target (thorough, few fonts)
            "memfull" => Plan {
                name: "memfull",
                all_gids_below: 24,
                sizes: ALL_SIZES.to_vec(),
                coord_kinds: (0..8).collect(),
                engines: vec![0, 2],
                targets: all_targets(),
                pedantic: vec![false, true],
                styles: vec![PathStyle::FreeType, PathStyle::HarfBuzz],
                mem_aligns: (0..8).collect(),
                mem_sizes: ALL_SIZES.to_vec(),
                mem_coord_kinds: (0..8).collect(),
                mem_targets: all_targets(),
                metadata: false,
                colour: false,
                pristine: false,
            },
            // deviations of tables that only feed metadata queries (name, post, OS/2, CPAL) in the quick tier
            "meta" => Plan {
                name: "meta",
                all_gids_below: 4,
                sizes: vec![None, Some(13.5), Some(f32::NAN)],
                coord_kinds: vec![0, 2],
                engines: vec![],
                targets: vec![],
                pedantic: vec![],
                styles: vec![PathStyle::FreeType],
                mem_aligns: vec![],
                mem_sizes: vec![],
                mem_coord_kinds: vec![],
                mem_targets: vec![],
                metadata: true,
                colour: true,
                pristine: false,
            },
            // for c20 (strict profile): sizes that drive scaling arithmetic to its limits
            "strict" => Plan {
                name: "strict",
                all_gids_below: 8,
                sizes: vec![None, Some(1.0), Some(13.5), Some(65535.0), Some(1e9)],
                coord_kinds: vec![0, 2, 3, 6, 7],
                engines: vec![0, 1],
                targets: vec![Target::Mono, Target::default(), smooth(SmoothMode::Light, true, false)],
                pedantic: vec![false, true],
                styles: vec![PathStyle::FreeType, PathStyle::HarfBuzz],
                mem_aligns: vec![1],
                mem_sizes: vec![Some(13.5)],
                mem_coord_kinds: vec![0],
                mem_targets: vec![Target::default()],
                metadata: true,
                colour: true,
                pristine: false,
            },
            _ => return None,
        })
    }
    pub fn describe(&self) -> serde_json::Value {
        serde_json::json!({
            "gids": format!("all when glyph count <= {}, else {{0,1,last,last+1,0xFFFF,u32::MAX}}", self.all_gids_below),
            "sizes": self.sizes.iter().map(|s| match s { None => "unscaled".to_string(), Some(v) => format!("{v}") }).collect::<Vec<_>>(),
            "coord_kinds": self.coord_kinds.iter().map(|k| COORD_KIND_NAMES[*k as usize]).collect::<Vec<_>>(),
            "engines": self.engines.iter().map(|e| ENGINE_NAMES[*e as usize]).collect::<Vec<_>>(),
            "targets": self.targets.len(),
            "pedantic": self.pedantic,
            "path_styles": self.styles.len(),
            "memory": {"lengths": "0, raw-1, need-1, need, need+1", "alignments": self.mem_aligns,
                       "sizes": self.mem_sizes.len(), "coord_kinds": self.mem_coord_kinds, "targets": self.mem_targets.len()},
        })
    }
}

pub const ENGINE_NAMES: [&str; 4] = ["Interpreter", "Auto(None)", "AutoFallback", "Auto(Some(styles))"];
pub const COORD_KIND_NAMES: [&str; 8] = [
    "none",
    "zeros(axis_count)",
    "+1 x axis_count",
    "-1 x axis_count",
    "length 1",
    "length axis_count+1",
    "raw 0x7FFF x axis_count",
    "raw 0x8000 x axis_count",
];

/// The coordinate-vector alphabet for a font with `axes` axes.
pub fn coord_vector(kind: u8, axes: usize) -> Vec<NormalizedCoord> {
    let f = NormalizedCoord::from_f32;
    match kind {
        0 => vec![],
        1 => vec![f(0.0); axes],
        2 => vec![f(1.0); axes],
        3 => vec![f(-1.0); axes],
        4 => vec![f(1.0); 1],
        5 => vec![f(0.5); axes + 1],
        6 => vec![NormalizedCoord::from_bits(0x7FFF); axes.max(1)],
        _ => vec![NormalizedCoord::from_bits(-0x8000); axes.max(1)],
    }
}

fn size_of(s: Option<f32>) -> Size {
    match s {
        None => Size::unscaled(),
        Some(v) => Size::new(v),
    }
}

fn engine_of(e: u8, styles: &Option<GlyphStyles>) -> Engine {
    match e {
        0 => Engine::Interpreter,
        1 => Engine::Auto(None),
        2 => Engine::AutoFallback,
        _ => Engine::Auto(styles.clone()),
    }
}

// ---------------------------------------------------------------------------------------------
// result digests
// ---------------------------------------------------------------------------------------------

fn draw_err_class(e: &DrawError) -> (&'static str, u8) {
    match e {
        DrawError::NoSources => ("err NoSources", 1),
        DrawError::GlyphNotFound(_) => ("err GlyphNotFound", 2),
        DrawError::InsufficientMemory => ("err InsufficientMemory", 3),
        DrawError::RecursionLimitExceeded(_) => ("err RecursionLimitExceeded", 4),
        DrawError::TooManyPoints(_) => ("err TooManyPoints", 5),
        DrawError::HintingFailed(_) => ("err HintingFailed", 6),
        DrawError::InvalidAnchorPoint(..) => ("err InvalidAnchorPoint", 7),
        DrawError::PostScript(_) => ("err PostScript", 8),
        DrawError::ToPath(_) => ("err ToPath", 9),
        DrawError::Read(_) => ("err Read", 10),
        DrawError::HarfBuzzHintingUnsupported => ("err HarfBuzzHintingUnsupported", 11),
    }
}


// ---------------------------------------------------------------------------------------------
// the driver
// ---------------------------------------------------------------------------------------------

pub const ST_FONT: usize = 1;
pub const ST_META: usize = 2;
pub const ST_GET: usize = 3;
pub const ST_DRAW_U: usize = 4;
pub const ST_NEW: [usize; 4] = [5, 6, 7, 6];
pub const ST_DRAW_H: [usize; 4] = [8, 9, 10, 9];
pub const ST_PAINT: usize = 11;
pub const ST_BBOX: usize = 12;
pub const ST_RECONF: usize = 19;
pub const ST_CMAP: usize = 20;
pub const ST_STYLES: usize = 21;

/// A caller buffer of `len` bytes whose address is ≡ `align` (mod 8), filled with 0xAA.
pub struct Mem {
    store: Vec<u8>,
    off: usize,
    len: usize,
}
impl Mem {
    pub fn new(len: usize, align: usize) -> Mem {
        let store = vec![0xAAu8; len + 16];
        let base = store.as_ptr() as usize;
        let off = (8 - base % 8) % 8 + (align % 8);
        Mem { store, off, len }
    }
    pub fn slice(&mut self) -> &mut [u8] {
        &mut self.store[self.off..self.off + self.len]
    }
}

pub fn run(data: &[u8], plan: &Plan) -> CaseOut {
    let mut acc = Acc::new("skrifa");
    // single fonts and collections (index 0, 1 and an out-of-range index)
    let is_ttc = data.get(0..4) == Some(b"ttcf");
    let indices: &[u32] = if is_ttc { &[0, 1, u32::MAX] } else { &[0] };
    for &ix in indices {
        let font = acc.call(ST_FONT, || {
            if is_ttc {
                FontRef::from_index(data, ix)
            } else {
                FontRef::new(data)
            }
        });
        match font {
            Some(Ok(font)) => {
                acc.count("fonts_parsed");
                run_font(&mut acc, &font, plan);
            }
            Some(Err(e)) => {
                acc.count("fonts_rejected");
                let mut h = Fnv::new();
                h.str("font err");
                h.str(&format!("{e:?}"));
                acc.observe(h.finish(), false);
            }
            None => {}
        }
    }
    acc.finish()
}

fn gid_set(n: u32, all_below: u32) -> Vec<u32> {
    let mut g: Vec<u32> = if n <= all_below {
        (0..=n).collect()
    } else {
        vec![0, 1, n.saturating_sub(1), n]
    };
    g.extend([0xFFFF, u32::MAX]);
    g.sort();
    g.dedup();
    g
}

fn run_font(acc: &mut Acc, font: &FontRef, plan: &Plan) {
    let axes = acc.call(ST_META, || font.axes().len()).unwrap_or(0);
    let nglyphs = acc
        .call(ST_META, || font.maxp().map(|m| m.num_glyphs() as u32).unwrap_or(0))
        .unwrap_or(0);
    let gids = gid_set(nglyphs, plan.all_gids_below);
    // distinct coordinate vectors, in alphabet order
    let mut coordsets: Vec<(u8, Vec<NormalizedCoord>)> = vec![];
    for &k in &plan.coord_kinds {
        let v = coord_vector(k, axes);
        if !coordsets.iter().any(|(_, o)| *o == v) {
            coordsets.push((k, v));
        }
    }
    if plan.metadata {
        metadata(acc, font, plan, &gids, &coordsets, axes);
    }
    outlines(acc, font, plan, &gids, &coordsets);
    if plan.colour {
        colour(acc, font, plan, &gids, &coordsets);
    }
}

fn hf(h: &mut Fnv, v: f32) {
    h.u64(v.to_bits() as u64)
}
fn hof(h: &mut Fnv, v: Option<f32>) {
    match v {
        None => h.byte(0),
        Some(v) => {
            h.byte(1);
            hf(h, v)
        }
    }
}

pub fn metadata(
    acc: &mut Acc,
    font: &FontRef,
    plan: &Plan,
    gids: &[u32],
    coordsets: &[(u8, Vec<NormalizedCoord>)],
    axes: usize,
) {
    // attributes
    if let Some(d) = acc.call(ST_META, || {
        let a = font.attributes();
        let mut h = Fnv::new();
        h.str("attributes");
        h.str(&format!("{:?}", a));
        h.finish()
    }) {
        acc.evals += 1;
        acc.observe(d, false);
    }
    // axes: fields, normalize on boundary values, get/get_by_tag out of range, location with hostile settings
    if let Some(d) = acc.call(ST_META, || {
        let ax = font.axes();
        let mut h = Fnv::new();
        h.str("axes");
        h.u64(ax.len() as u64);
        h.byte(ax.is_empty() as u8);
        for a in ax.iter().take(64) {
            h.str(&a.tag().to_string());
            h.u64(a.index() as u64);
            h.u64(a.name_id().to_u16() as u64);
            h.byte(a.is_hidden() as u8);
            for v in [a.min_value(), a.default_value(), a.max_value()] {
                hf(&mut h, v);
            }
            for v in [a.min_value(), a.max_value(), 0.0, -1e30, 1e30, f32::NAN, f32::INFINITY, f32::NEG_INFINITY] {
                h.u64(a.normalize(v).to_bits() as u64);
            }
        }
        for i in [0usize, 1, ax.len(), usize::MAX] {
            h.byte(ax.get(i).is_some() as u8);
        }
        for t in [Tag::new(b"wght"), Tag::new(b"wdth"), Tag::new(b"\0\0\0\0"), Tag::new(b"zzzz")] {
            h.byte(ax.get_by_tag(t).is_some() as u8);
        }
        let settings: [&[(&str, f32)]; 5] = [
            &[],
            &[("wght", 250.0), ("wdth", 75.0)],
            &[("wght", f32::NAN), ("wght", f32::INFINITY), ("zzzz", 1.0)],
            &[("wght", -1e30), ("wdth", 1e30), ("opsz", 0.0), ("slnt", -90.0)],
            &[("wght", 1.0), ("wght", 2.0), ("wght", 3.0), ("wght", 1000.0), ("wght", 0.0)],
        ];
        for s in settings {
            let loc = ax.location(s.iter().copied());
            for c in loc.coords() {
                h.u64(c.to_bits() as u64);
            }
            // slices of the wrong length
            for len in [0usize, 1, axes.saturating_sub(1), axes + 1] {
                let mut buf = vec![NormalizedCoord::from_bits(0x1234); len];
                ax.location_to_slice(s.iter().copied(), &mut buf);
                for c in &buf {
                    h.u64(c.to_bits() as u64);
                }
            }
            h.u64(ax.filter(s.iter().copied()).count() as u64);
        }
        h.finish()
    }) {
        acc.evals += 1;
        acc.observe(d, false);
    }
    // named instances
    if let Some(d) = acc.call(ST_META, || {
        let ni = font.named_instances();
        let mut h = Fnv::new();
        h.str("named_instances");
        h.u64(ni.len() as u64);
        h.byte(ni.is_empty() as u8);
        for i in [0usize, 1, ni.len().saturating_sub(1), ni.len(), usize::MAX] {
            if let Some(inst) = ni.get(i) {
                h.u64(inst.subfamily_name_id().to_u16() as u64);
                h.u64(inst.postscript_name_id().map(|s| s.to_u16() as u64).unwrap_or(0x10000));
                for v in inst.user_coords().take(256) {
                    hf(&mut h, v);
                }
                for c in inst.location().coords() {
                    h.u64(c.to_bits() as u64);
                }
                for len in [0usize, 1, axes + 1] {
                    let mut buf = vec![NormalizedCoord::default(); len];
                    inst.location_to_slice(&mut buf);
                    for c in &buf {
                        h.u64(c.to_bits() as u64);
                    }
                }
            } else {
                h.byte(0);
            }
        }
        h.u64(ni.iter().take(4096).count() as u64);
        h.finish()
    }) {
        acc.evals += 1;
        acc.observe(d, false);
    }
    // localized strings
    let mut ids: Vec<u16> = (0..=25).collect();
    ids.extend([255, 256, 0x7FFF, 0xFFFF]);
    for id in ids {
        if let Some(d) = acc.call(ST_META, || {
            let mut h = Fnv::new();
            h.str("localized_strings");
            h.u64(id as u64);
            let ls = font.localized_strings(StringId::new(id));
            h.u64(ls.id().to_u16() as u64);
            let mut n = 0u64;
            for s in ls.clone().take(512) {
                n += 1;
                h.str(s.language().unwrap_or("-"));
                for c in s.chars().take(2048) {
                    h.u64(c as u64);
                }
            }
            h.u64(n);
            if let Some(s) = ls.english_or_first() {
                h.str(&s.to_string().chars().take(256).collect::<String>());
            }
            h.finish()
        }) {
            acc.evals += 1;
            acc.observe(d, false);
        }
    }
    // glyph names
    if let Some(d) = acc.call(ST_META, || {
        let gn = font.glyph_names();
        let mut h = Fnv::new();
        h.str("glyph_names");
        h.str(&format!("{:?}", gn.source()));
        h.u64(gn.num_glyphs() as u64);
        for &g in gids {
            match gn.get(GlyphId::new(g)) {
                Some(n) => {
                    h.str(n.as_str());
                    h.byte(n.is_synthesized() as u8);
                }
                None => h.byte(0),
            }
        }
        let mut n = 0u64;
        for (g, name) in gn.iter().take(70_000) {
            n += 1;
            if n <= 64 {
                h.u64(g.to_u32() as u64);
                h.str(name.as_str());
            }
        }
        h.u64(n);
        h.finish()
    }) {
        acc.evals += 1;
        acc.observe(d, false);
    }
    // charmap
    if let Some(d) = acc.call(ST_CMAP, || {
        let cm = font.charmap();
        let mut h = Fnv::new();
        h.str("charmap");
        h.byte(cm.has_map() as u8);
        h.byte(cm.is_symbol() as u8);
        h.byte(cm.has_variant_map() as u8);
        for c in [
            0u32, 1, 0x20, 0x41, 0x7F, 0x80, 0xFF, 0x100, 0x3A9, 0x5D0, 0xD7FF, 0xD800, 0xDFFF, 0xE000, 0xF020,
            0xF0FF, 0xFFFE, 0xFFFF, 0x10000, 0x1F600, 0x10FFFF, 0x110000, 0x7FFFFFFF, 0xFFFFFFFF,
        ] {
            h.u64(cm.map(c).map(|g| g.to_u32() as u64).unwrap_or(u64::MAX));
            for sel in [0xFE00u32, 0xFE0F, 0xE0100, 0, u32::MAX] {
                h.str(&format!("{:?}", cm.map_variant(c, sel)));
            }
        }
        // iteration horizon: 300k items (a cmap12 group may legally span the whole code space)
        let mut n = 0u64;
        for (c, g) in cm.mappings().take(300_000) {
            n += 1;
            if n & 0xFFF == 0 {
                tick();
            }
            if n <= 256 {
                h.u64(c as u64);
                h.u64(g.to_u32() as u64);
            }
        }
        h.u64(n);
        let mut n = 0u64;
        for (c, s, m) in cm.variant_mappings().take(300_000) {
            n += 1;
            if n & 0xFFF == 0 {
                tick();
            }
            if n <= 256 {
                h.u64(c as u64);
                h.u64(s as u64);
                h.str(&format!("{:?}", m));
            }
        }
        h.u64(n);
        h.finish()
    }) {
        acc.evals += 1;
        acc.observe(d, false);
    }
    // metrics / glyph metrics for coords × size
    for (_, coords) in coordsets {
        for &s in &plan.sizes {
            let size = size_of(s);
            if let Some(d) = acc.call(ST_META, || {
                let m = font.metrics(size, LocationRef::new(coords));
                let mut h = Fnv::new();
                h.str("metrics");
                h.str(&format!("{:?}", m));
                let gm = font.glyph_metrics(size, LocationRef::new(coords));
                h.u64(gm.glyph_count() as u64);
                for &g in gids {
                    let g = GlyphId::new(g);
                    hof(&mut h, gm.advance_width(g));
                    hof(&mut h, gm.left_side_bearing(g));
                    h.str(&format!("{:?}", gm.bounds(g)));
                }
                h.finish()
            }) {
                acc.evals += 1;
                acc.observe(d, false);
            }
        }
    }
}

/// Result class of one draw: (class id, observation digest)
fn draw_once(
    acc: &mut Acc,
    stage: usize,
    glyph: &skrifa::OutlineGlyph,
    settings: DrawSettings,
    ctx: u64,
) -> Option<Result<u64, DrawError>> {
    let r = acc.call(stage, || {
        let mut pen = HashPen::default();
        let r = glyph.draw(settings, &mut pen);
        (r, pen)
    });
    acc.evals += 1;
    let (r, pen) = r?;
    let mut h = Fnv::new();
    h.u64(ctx);
    match r {
        Ok(m) => {
            acc.count("draw_ok");
            h.byte(0);
            h.u64(pen.h.finish());
            h.u64(pen.n);
            h.byte(m.has_overlaps as u8);
            hof(&mut h, m.lsb);
            hof(&mut h, m.advance_width);
            let d = h.finish();
            acc.observe(d, pen.n > 0);
            Some(Ok(d))
        }
        Err(e) => {
            let (name, id) = draw_err_class(&e);
            acc.count(name);
            h.byte(id);
            h.str(&format!("{e:?}"));
            acc.observe(h.finish(), false);
            Some(Err(e))
        }
    }
}

/// memory-length alphabet for a draw whose documented requirement is `need` bytes
fn mem_lengths(need: usize, extra_raw: usize) -> Vec<usize> {
    let raw = need.saturating_sub(4);
    let mut v = vec![0, raw.saturating_sub(1), need.saturating_sub(1), need, need + 1];
    if extra_raw > 0 {
        v.push(extra_raw - 1);
    }
    v.sort();
    v.dedup();
    v
}

fn outlines(acc: &mut Acc, font: &FontRef, plan: &Plan, gids: &[u32], coordsets: &[(u8, Vec<NormalizedCoord>)]) {
    let Some(oc) = acc.call(ST_GET, || font.outline_glyphs()) else {
        return;
    };
    let format = oc.format();
    {
        let mut h = Fnv::new();
        h.str("outline collection");
        h.str(&format!("{:?}", format));
        if let Some(b) = acc.call(ST_GET, || (oc.prefer_interpreter(), oc.require_interpreter())) {
            h.byte(b.0 as u8);
            h.byte(b.1 as u8);
        }
        if let Some(n) = acc.call(ST_GET, || oc.iter().take(70_000).count()) {
            h.u64(n as u64);
        }
        acc.observe(h.finish(), false);
    }
    let is_glyf = format == Some(OutlineGlyphFormat::Glyf);
    let prefer_interp = acc.call(ST_GET, || oc.prefer_interpreter()).unwrap_or(true);
    // glyph handles
    let mut glyphs = vec![];
    for &g in gids {
        if let Some(Some(gl)) = acc.call(ST_GET, || oc.get(GlyphId::new(g))) {
            let mut h = Fnv::new();
            h.str("glyph");
            h.u64(gl.glyph_id().to_u32() as u64);
            h.str(&format!("{:?} {:?} {:?}", gl.format(), gl.has_overlaps(), gl.has_hinting()));
            h.u64(gl.draw_memory_size(Hinting::None) as u64);
            h.u64(gl.draw_memory_size(Hinting::Embedded) as u64);
            acc.observe(h.finish(), false);
            glyphs.push(gl);
        } else {
            acc.count("glyph_absent");
        }
    }
    // ---- P2 unhinted ----
    for (ck, coords) in coordsets {
        for (si, &s) in plan.sizes.iter().enumerate() {
            let size = size_of(s);
            let mem_here = plan.mem_coord_kinds.contains(ck)
                && plan.mem_sizes.iter().any(|m| m.map(f32::to_bits) == s.map(f32::to_bits));
            for gl in &glyphs {
                for (sti, &style) in plan.styles.iter().enumerate() {
                    let ctx = 0x1000 + ((*ck as u64) << 8) + ((si as u64) << 4) + sti as u64;
                    let base = draw_once(
                        acc,
                        ST_DRAW_U,
                        gl,
                        DrawSettings::unhinted(size, LocationRef::new(coords)).with_path_style(style),
                        ctx,
                    );
                    check_internal_memory(acc, ST_DRAW_U, &base, plan.pristine);
                    if !mem_here || !is_glyf {
                        continue;
                    }
                    let need = gl.draw_memory_size(Hinting::None);
                    let raw = need.saturating_sub(4);
                    let base_insufficient = matches!(base, Some(Err(DrawError::InsufficientMemory)));
                    for len in mem_lengths(need, 0) {
                        for &al in &plan.mem_aligns {
                            let mut mem = Mem::new(len, al);
                            let r = draw_once(
                                acc,
                                ST_DRAW_U,
                                gl,
                                DrawSettings::unhinted(size, LocationRef::new(coords))
                                    .with_path_style(style)
                                    .with_memory(Some(mem.slice())),
                                ctx ^ 0x5555_0000 ^ ((len as u64) << 32) ^ ((al as u64) << 20),
                            );
                            acc.count("draws_with_caller_memory");
                            check_memory_rules(acc, ST_DRAW_U, &r, len, raw, need, base_insufficient, matches!(style, PathStyle::FreeType));
                        }
                    }
                }
            }
        }
    }
    // ---- P3 hinted ----
    let styles_pre: Option<GlyphStyles> = if plan.engines.contains(&3) {
        acc.call(ST_STYLES, || GlyphStyles::new(&oc))
    } else {
        None
    };
    for (ck, coords) in coordsets {
        for (si, &s) in plan.sizes.iter().enumerate() {
            let size = size_of(s);
            for &e in &plan.engines {
                let mut inst: Option<HintingInstance> = None;
                for (ti, &target) in plan.targets.iter().enumerate() {
                    let opts = HintingOptions {
                        engine: engine_of(e, &styles_pre),
                        target,
                    };
                    // first target: `new`; later targets: `reconfigure` of the same instance
                    let res: Option<Result<(), DrawError>> = match inst.as_mut() {
                        None => acc
                            .call(ST_NEW[e as usize], || HintingInstance::new(&oc, size, LocationRef::new(coords), opts))
                            .map(|r| r.map(|i| inst = Some(i))),
                        Some(i) => acc.call(ST_RECONF, || i.reconfigure(&oc, size, LocationRef::new(coords), opts)),
                    };
                    acc.evals += 1;
                    let ctx = 0x2000_0000 + ((*ck as u64) << 20) + ((si as u64) << 16) + ((e as u64) << 12) + ((ti as u64) << 4);
                    match res {
                        None => {
                            // a panic inside reconfigure leaves the instance in an unspecified state: drop it
                            inst = None;
                            continue;
                        }
                        Some(Err(err)) => {
                            let (name, id) = draw_err_class(&err);
                            acc.count("instance_err");
                            let _ = name;
                            let mut h = Fnv::new();
                            h.u64(ctx);
                            h.byte(id);
                            h.str(&format!("{err:?}"));
                            acc.observe(h.finish(), false);
                            // a failed reconfigure leaves a disabled instance behind: still legal to draw with it
                            if inst.is_none() {
                                continue;
                            }
                        }
                        Some(Ok(())) => acc.count("instance_ok"),
                    }
                    let Some(instance) = inst.as_ref() else { continue };
                    let enabled = instance.is_enabled();
                    {
                        let mut h = Fnv::new();
                        h.u64(ctx);
                        h.byte(enabled as u8);
                        h.str(&format!("{:?} {:?} {}", instance.size(), instance.target(), instance.location().coords().len()));
                        acc.observe(h.finish(), false);
                    }
                    // does a caller buffer matter on this path? (auto-hinter ignores it)
                    let uses_interp = match e {
                        0 => true,
                        2 => prefer_interp,
                        _ => false,
                    };
                    let mem_here = uses_interp
                        && is_glyf
                        && plan.mem_coord_kinds.contains(ck)
                        && plan.mem_sizes.iter().any(|m| m.map(f32::to_bits) == s.map(f32::to_bits))
                        && plan.mem_targets.contains(&target);
                    for gl in &glyphs {
                        for &ped in &plan.pedantic {
                            let base = draw_once(
                                acc,
                                ST_DRAW_H[e as usize],
                                gl,
                                DrawSettings::hinted(instance, ped),
                                ctx + ped as u64,
                            );
                            check_internal_memory(acc, ST_DRAW_H[e as usize], &base, plan.pristine);
                            if !mem_here {
                                continue;
                            }
                            let need_e = gl.draw_memory_size(Hinting::Embedded);
                            let need_n = gl.draw_memory_size(Hinting::None);
                            // the arrays actually carved: hinted layout when the instance is enabled, else unhinted
                            let raw = if enabled { need_e } else { need_n }.saturating_sub(4);
                            let base_insufficient = matches!(base, Some(Err(DrawError::InsufficientMemory)));
                            for len in mem_lengths(need_e, need_n.saturating_sub(4)) {
                                for &al in &plan.mem_aligns {
                                    let mut mem = Mem::new(len, al);
                                    let r = draw_once(
                                        acc,
                                        ST_DRAW_H[e as usize],
                                        gl,
                                        DrawSettings::hinted(instance, ped).with_memory(Some(mem.slice())),
                                        (ctx + ped as u64) ^ 0x5555_0000_0000 ^ ((len as u64) << 40) ^ ((al as u64) << 36),
                                    );
                                    acc.count("draws_with_caller_memory");
                                    check_memory_rules(acc, ST_DRAW_H[e as usize], &r, len, raw, need_e, base_insufficient, true);
                                }
                            }
                        }
                        if plan.styles.iter().any(|s| matches!(s, PathStyle::HarfBuzz)) {
                            let r = draw_once(
                                acc,
                                ST_DRAW_H[e as usize],
                                gl,
                                DrawSettings::hinted(instance, false).with_path_style(PathStyle::HarfBuzz),
                                ctx + 8,
                            );
                            // R4: hinted HarfBuzz-style drawing is documented as unsupported
                            // (DrawError::HarfBuzzHintingUnsupported: "Error rather than silently returning unhinted")
                            if matches!(r, Some(Ok(_))) {
                                acc.viol(
                                    "ok-instead-of-error",
                                    ST_DRAW_H[e as usize],
                                    "hinted draw with PathStyle::HarfBuzz returned Ok instead of HarfBuzzHintingUnsupported".into(),
                                    None,
                                );
                            }
                        }
                    }
                }
            }
        }
    }
}

/// R3: when the caller supplies no buffer "any necessary memory will be allocated internally"
/// (DrawSettings::with_memory docs), so on an unmodified, well-formed corpus font InsufficientMemory from such
/// a draw means the internal size computation and the carve-up disagree. Only judged for pristine seeds:
/// on hostile bytes the error is a legitimate way to refuse inconsistent point counts.
fn check_internal_memory(acc: &mut Acc, stage: usize, r: &Option<Result<u64, DrawError>>, pristine: bool) {
    if matches!(r, Some(Err(DrawError::InsufficientMemory))) {
        acc.count("internal_memory_insufficient");
        if pristine {
            acc.viol(
                "internal-memory-insufficient",
                stage,
                "draw without caller memory returned InsufficientMemory on an unmodified corpus font".into(),
                None,
            );
        }
    }
}

/// R1 / R2 of the module comment.
#[allow(clippy::too_many_arguments)]
fn check_memory_rules(
    acc: &mut Acc,
    stage: usize,
    r: &Option<Result<u64, DrawError>>,
    len: usize,
    raw: usize,
    need: usize,
    base_insufficient: bool,
    freetype_layout: bool,
) {
    let Some(r) = r else { return };
    if freetype_layout && raw > 0 && len < raw && r.is_ok() {
        acc.viol(
            "ok-instead-of-error",
            stage,
            format!("draw returned Ok with a caller buffer of {len} bytes although the arrays carved from it need {raw} bytes (draw_memory_size = {need})"),
            None,
        );
    }
    if len >= need && matches!(r, Err(DrawError::InsufficientMemory)) && !base_insufficient {
        acc.viol(
            "need-rejected",
            stage,
            format!("draw returned InsufficientMemory for a caller buffer of {len} bytes >= draw_memory_size = {need}, while the same draw with internal memory does not"),
            None,
        );
    }
}

fn colour(acc: &mut Acc, font: &FontRef, plan: &Plan, gids: &[u32], coordsets: &[(u8, Vec<NormalizedCoord>)]) {
    let Some(cc) = acc.call(ST_PAINT, || font.color_glyphs()) else {
        return;
    };
    for &g in gids {
        let gid = GlyphId::new(g);
        let variants = acc.call(ST_PAINT, || {
            [
                cc.get(gid),
                cc.get_with_format(gid, ColorGlyphFormat::ColrV0),
                cc.get_with_format(gid, ColorGlyphFormat::ColrV1),
            ]
        });
        let Some(variants) = variants else { continue };
        for (vi, cg) in variants.iter().enumerate() {
            let Some(cg) = cg else { continue };
            acc.count("colour_glyphs");
            for (ck, coords) in coordsets {
                for (si, &s) in plan.sizes.iter().enumerate() {
                    let size = size_of(s);
                    if let Some(b) = acc.call(ST_BBOX, || cg.bounding_box(LocationRef::new(coords), size)) {
                        acc.evals += 1;
                        let mut h = Fnv::new();
                        h.str("bbox");
                        h.u64(((*ck as u64) << 8) + si as u64);
                        h.str(&format!("{b:?}"));
                        acc.observe(h.finish(), false);
                    }
                }
                for cached_ok in [false, true] {
                    let r = acc.call(ST_PAINT, || {
                        let mut p = RecPainter {
                            h: Fnv::new(),
                            n: 0,
                            cached_ok,
                        };
                        let r = cg.paint(LocationRef::new(coords), &mut p);
                        (r, p.h.finish(), p.n)
                    });
                    acc.evals += 1;
                    let Some((r, ph, pn)) = r else { continue };
                    let mut h = Fnv::new();
                    h.str("paint");
                    h.u64(((vi as u64) << 16) + ((*ck as u64) << 8) + cached_ok as u64);
                    match r {
                        Ok(()) => {
                            acc.count("paint_ok");
                            h.u64(ph);
                            h.u64(pn);
                            acc.observe(h.finish(), pn > 0);
                        }
                        Err(e) => {
                            acc.count("paint_err");
                            h.str(&format!("{e:?}"));
                            acc.observe(h.finish(), false);
                        }
                    }
                }
            }
        }
    }
}
