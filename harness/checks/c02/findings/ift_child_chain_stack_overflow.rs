//! Standalone reproduction (drop into incremental-font-transfer/tests/ and run `cargo test --release`):
//! a format 2 patch map with a chain of 200 000 *ignored* entries, each naming its predecessor as its only
//! child entry, followed by one live entry whose child is the last of them (1 MB of table data; entryCount
//! may be as large as 2^24 - 1). `add_intersecting_format2_patches` skips ignored entries, so their
//! intersection results are never cached; the first live entry then walks the whole chain through
//! `EntryIntersectionCache::intersects -> compute_intersection -> all/some_children_intersect -> intersects`
//! recursively: "thread has overflowed its stack", SIGABRT (8 MiB main-thread stack; a 2 MiB thread stack
//! overflows much earlier).
use incremental_font_transfer::patchmap::{intersecting_patches, SubsetDefinition};
use read_fonts::{tables::ift::IFT_TAG, FontRef};
use write_fonts::FontBuilder;

#[test]
fn long_chain_of_ignored_child_entries() {
    let depth = 200_000u32;
    let mode_and_count = 0x81u8; // conjunctive, 1 child (0x01 = disjunctive overflows as well)
    let mut t: Vec<u8> = vec![2, 0, 0, 0, 0];
    for c in [6u32, 7, 8, 9] {
        t.extend_from_slice(&c.to_be_bytes());
    }
    t.push(3); // default patch format: glyph keyed
    t.extend_from_slice(&(depth + 2).to_be_bytes()[1..]); // entryCount
    t.extend_from_slice(&41u32.to_be_bytes()); // entries offset
    t.extend_from_slice(&0u32.to_be_bytes()); // no id strings
    t.extend_from_slice(&6u16.to_be_bytes());
    t.extend_from_slice(b"p/{id}");
    assert_eq!(t.len(), 41);
    t.push(0x40); // entry 0: ignored
    for i in 1..=depth {
        t.extend_from_slice(&[0x42, mode_and_count]); // CHILD_INDICES | IGNORED
        t.extend_from_slice(&(i - 1).to_be_bytes()[1..]);
    }
    t.extend_from_slice(&[0x02, mode_and_count]); // live entry
    t.extend_from_slice(&depth.to_be_bytes()[1..]);
    let mut b = FontBuilder::default();
    b.add_raw(IFT_TAG, t);
    let font = b.build();
    let font = FontRef::new(&font).unwrap();
    let patches = intersecting_patches(&font, &SubsetDefinition::all()).unwrap();
    assert_eq!(patches.len(), 1);
}
