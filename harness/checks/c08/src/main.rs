//! C08 — character maps built from a mapping answer exactly that mapping.
//!
//! Bounded exhaustive exploration of `write_fonts::tables::cmap::Cmap::from_mappings` and the readers
//! (`read_fonts` Cmap / Cmap4 / Cmap12 / Cmap14, `skrifa::charmap::Charmap`). See DESIGN.md §3 C08.
//!
//! Enumerated spaces (fixed order, no sampling):
//!  F1  every conflict-free mapping that touches <= K of the 11 boundary code points P, each mapped
//!      to one of 6 glyph ids G(cp)                      (K = 5 quick, 7 thorough)
//!      - lookups on P ∪ P±1 ∪ {0, 0xFFFF, 0x110000}; for mappings touching <= Kb points additionally
//!        every BMP code point                              (Kb = 2 quick, 4 thorough)
//!  F2  dense runs of length 1..=300 at 3 base positions with glyph strides {+1, -1, +1 with one break
//!      at every position}
//!  F3  every sequence of <= 3 blocks (type in {ordered, reversed, stride-2}, length 1..=Lb) joined
//!      contiguously or with a one-character gap — the `should_combine` cost decisions
//!  F4  every Cmap14 with <= 2 selectors, each with default ranges (absent / 0..2 ranges) and
//!      non-default mappings (absent / 0..2 mappings), built from the generated write types
//!
//!  F5..F9 see the functions below; F10..F13 (sub-table selection incl. symbol maps, hand-encoded format 4,
//!      idDelta / sign-bit / surrogate-gap boundaries, plane-16 variation sequences) are in audit.rs
//!
//! Oracle = the input mapping itself (sorted vector + binary search), and independently of the library's
//! readers the from-specification decoder in spec.rs run on the compiled bytes (AUDIT.md lists what
//! each clause is there for).

use font_types::{GlyphId, Tag, Uint24};
use rayon::prelude::*;
use read_fonts::tables::cmap as rc;
use read_fonts::{FontRef, TableProvider};
use serde_json::{json, Value};
use skrifa::charmap::{Charmap, MapVariant, MappingIndex};
use skrifa::MetadataProvider;
use std::collections::HashSet;
use std::sync::OnceLock;
use vcore::*;
use write_fonts::tables::cmap as wc;
use write_fonts::tables::maxp::Maxp;
use write_fonts::{dump_table, FontBuilder};

mod audit;
mod spec;

fn main() {
    main_for("C08", body)
}

/// glyph count of the wrapping font: every gid used (max 0xFFFE) is "below the font's glyph count"
const NUM_GLYPHS: u16 = 0xFFFF;

const P: [u32; 11] = [
    0x20, 0x21, 0x22, 0x23, 0x7F, 0x80, 0xFFFD, 0xFFFE, 0x10000, 0x10001, 0x10FFFF,
];

pub const ID_DELTA: &str = "Cmap::from_mappings panic: format-4 delta >= 32768";
pub const ID_10FFFF: &str = "Charmap::mappings omits U+10FFFF";
pub const ID_CMAP4_LEN: &str = "Cmap compile panic: format-4 subtable longer than 65535 bytes";
pub const ID_RANGE_OFFSET: &str = "Cmap::from_mappings panic: format-4 idRangeOffset exceeds 65535";

/// G(cp): exactly six distinct glyph ids in 1..=0xFFFE per code point (DESIGN §3 C08):
/// 1, 2, cp-0x1F (in-order run), 0x24-cp (reversed run), 0x8000+cp (delta > 32767), 0xFFFE —
/// reduced mod 65536; invalid (0 / 0xFFFF) or duplicate candidates are replaced from {3,4,5,0x7FFF}.
fn gids_for(cp: u32) -> [u16; 6] {
    let cands: [i64; 10] = [
        1,
        2,
        cp as i64 - 0x1F,
        0x24 - cp as i64,
        0x8000 + cp as i64,
        0xFFFE,
        3,
        4,
        5,
        0x7FFF,
    ];
    let mut out = [0u16; 6];
    let mut n = 0;
    for c in cands {
        let g = c.rem_euclid(0x10000) as u16;
        if g == 0 || g == 0xFFFF || out[..n].contains(&g) {
            continue;
        }
        out[n] = g;
        n += 1;
        if n == 6 {
            break;
        }
    }
    assert_eq!(n, 6);
    out
}

type Mapping = Vec<(u32, u16)>; // ascending, unique code points

struct Local {
    all: HashSet<u64>,
    nontrivial: HashSet<u64>,
    evals: u64,
    trans: u64,
    panics_delta: u64,
    compiled: u64,
    lookups: u64,
}
impl Local {
    fn new() -> Self {
        Local {
            all: HashSet::new(),
            nontrivial: HashSet::new(),
            evals: 0,
            trans: 0,
            panics_delta: 0,
            compiled: 0,
            lookups: 0,
        }
    }
    fn merge(self, run: &Run, prefix: &str) {
        run.observe_many(&self.all, &self.nontrivial);
        run.evals(self.evals);
        run.trans(self.trans);
        run.count(&format!("{prefix}.cases"), self.evals);
        run.count(&format!("{prefix}.compiled"), self.compiled);
        run.count(&format!("{prefix}.builder_panics_delta"), self.panics_delta);
        run.count(&format!("{prefix}.lookups_checked"), self.lookups);
    }
}

fn maxp_bytes() -> &'static [u8] {
    static M: OnceLock<Vec<u8>> = OnceLock::new();
    M.get_or_init(|| dump_table(&Maxp::new(NUM_GLYPHS)).expect("maxp compiles"))
}

fn region(c: u32) -> &'static str {
    match c {
        0xFFFF => "U+FFFF",
        0..=0xFFFE => "BMP",
        0x10FFFF => "U+10FFFF",
        0x10000..=0x10FFFE => "supplementary",
        _ => "beyond U+10FFFF",
    }
}

fn expected(m: &Mapping, c: u32) -> Option<u16> {
    m.binary_search_by(|e| e.0.cmp(&c)).ok().map(|i| m[i].1)
}

thread_local! {
    /// set while the plain look-up surface is checked on a font that also carries a Cmap14
    static CASE_OVERRIDE: std::cell::RefCell<Option<Value>> = const { std::cell::RefCell::new(None) };
}

thread_local! {
    /// set while a hand-encoded sub-table is checked: explicit glyph-0 entries are legal there and are
    /// filtered from the low-level enumerations; the glyph-id count of the length formula is given
    static HAND: std::cell::Cell<Option<usize>> = const { std::cell::Cell::new(None) };
}

/// The compiled bytes decoded by the specification's procedures (spec.rs, no library code): header
/// invariants of every format-4 / format-12 sub-table and the table-level answer for every query.
fn spec_check(font_bytes: &[u8], m: &Mapping, queries: &[u32]) -> Result<(), (String, String)> {
    let bad = |e: String| ("from-spec decode of the compiled cmap: structure violates the specification".to_string(), e);
    thread_local! {
        static RECS: std::cell::RefCell<Vec<spec::Rec>> = const { std::cell::RefCell::new(Vec::new()) };
    }
    let cmap = spec::cmap_of_font(font_bytes).map_err(bad)?;
    // per-thread scratch buffer: this runs once per case in the hot loops
    let mut recs = RECS.with(|r| std::mem::take(&mut *r.borrow_mut()));
    let r = spec_check_records(cmap, &mut recs, m, queries);
    RECS.with(|c| *c.borrow_mut() = recs);
    r
}

fn spec_check_records(cmap: &[u8], recs: &mut Vec<spec::Rec>, m: &Mapping, queries: &[u32]) -> Result<(), (String, String)> {
    let bad = |e: String| ("from-spec decode of the compiled cmap: structure violates the specification".to_string(), e);
    spec::records_into(cmap, recs).map_err(bad)?;
    let recs: &[spec::Rec] = recs;
    for (i, r) in recs.iter().enumerate() {
        // sub-tables shared by several records are checked once
        if recs[..i].iter().any(|p| p.offset == r.offset) {
            continue;
        }
        match r.format {
            4 => spec::check4(cmap, r.offset, HAND.with(|h| h.get())).map_err(|e| {
                ("from-spec decode of the compiled cmap: format-4 header / arrays violate the specification".to_string(), e)
            })?,
            12 => spec::check12(cmap, r.offset).map_err(|e| {
                ("from-spec decode of the compiled cmap: format-12 header / groups violate the specification".to_string(), e)
            })?,
            _ => {}
        }
    }
    for &c in queries {
        let got = spec::lookup(cmap, recs, c).map_err(bad)?;
        let exp = expected(m, c);
        if got != exp.map_or(0, |g| g as u32) {
            return Err((
                format!("from-spec decode of the compiled cmap: {}", match exp {
                    Some(_) => format!("wrong glyph for a mapped character ({})", region(c)),
                    None => format!("a glyph for an unmapped character ({})", region(c)),
                }),
                format!("U+{c:04X} decodes to glyph {got}, input says {exp:?}"),
            ));
        }
    }
    Ok(())
}

fn case_json(m: &Mapping, full_bmp: bool) -> Value {
    if let Some(v) = CASE_OVERRIDE.with(|c| c.borrow().clone()) {
        return v;
    }
    json!({
        "kind": "map",
        "composition": COMPOSITION.with(|c| c.get()),
        "full_bmp": full_bmp,
        "mapping": m.iter().map(|(c, g)| json!([c, g])).collect::<Vec<_>>(),
    })
}

/// Format-4 header fields recomputed from the specification:
/// searchRange = 2 * 2^floor(log2 segCount), entrySelector = floor(log2 segCount),
/// rangeShift = 2 * segCount - searchRange, length = 16 + 8 segCount + 2 (glyph ids used by range-offset segments).
fn format4_header_mismatch(t: &rc::Cmap4) -> Option<String> {
    let seg_x2 = t.seg_count_x2() as u32;
    let seg = seg_x2 / 2;
    let n = seg as usize;
    if seg == 0
        || seg_x2 % 2 != 0
        || n != t.end_code().len()
        || n != t.start_code().len()
        || n != t.id_delta().len()
        || n != t.id_range_offsets().len()
    {
        return Some(format!(
            "segCountX2 = {seg_x2} for {} end codes, {} start codes, {} deltas, {} range offsets",
            t.end_code().len(),
            t.start_code().len(),
            t.id_delta().len(),
            t.id_range_offsets().len()
        ));
    }
    let log2 = 31 - seg.leading_zeros();
    let want = (2 * (1u32 << log2), log2, 2 * seg - 2 * (1u32 << log2));
    let got = (t.search_range() as u32, t.entry_selector() as u32, t.range_shift() as u32);
    if got != want {
        return Some(format!("segCount {seg}: (searchRange, entrySelector, rangeShift) = {got:?}, specification {want:?}"));
    }
    // the reader's glyph_id_array runs to the end of the cmap table; count the ids the range-offset
    // segments actually use (the builder never shares them between segments)
    let ids: usize = (0..seg as usize)
        .filter(|i| t.id_range_offsets()[*i].get() != 0)
        .map(|i| (t.end_code()[i].get() as usize).saturating_sub(t.start_code()[i].get() as usize) + 1)
        .sum();
    let len = 16 + 8 * seg as usize + 2 * HAND.with(|h| h.get()).unwrap_or(ids);
    if t.length() as usize != len {
        return Some(format!("length field {} for a {len}-byte sub-table", t.length()));
    }
    None
}

/// table-level rule: mapped -> Some(gid); unmapped -> None or the missing-glyph id
fn table_level_ok(got: Option<GlyphId>, exp: Option<u16>) -> bool {
    match exp {
        Some(g) => got == Some(GlyphId::new(g as u32)),
        None => got.is_none() || got == Some(GlyphId::NOTDEF),
    }
}

fn lookup_identity(api: &str, exp: Option<u16>, c: u32) -> String {
    match exp {
        Some(_) => format!("{api} wrong answer for a mapped character ({})", region(c)),
        None => format!("{api} returns a glyph for an unmapped character ({})", region(c)),
    }
}

/// Compare an enumeration with the expected ascending list; returns (identity suffix, detail) on mismatch.
fn diff_enumeration(got: &[(u32, u32)], exp: &[(u32, u32)]) -> Option<(String, String)> {
    if got == exp {
        return None;
    }
    if got.windows(2).any(|w| w[0].0 >= w[1].0) {
        let w = got.windows(2).find(|w| w[0].0 >= w[1].0).unwrap();
        return Some((
            format!("is not strictly ascending ({})", region(w[1].0)),
            format!("{:#x} followed by {:#x}", w[0].0, w[1].0),
        ));
    }
    // both ascending: walk
    let (mut i, mut j) = (0, 0);
    while i < got.len() || j < exp.len() {
        match (got.get(i), exp.get(j)) {
            (Some(g), Some(e)) if g.0 == e.0 => {
                if g.1 != e.1 {
                    return Some((
                        format!("yields a wrong glyph ({})", region(g.0)),
                        format!("U+{:04X}: got gid {}, mapped {}", g.0, g.1, e.1),
                    ));
                }
                i += 1;
                j += 1;
            }
            (Some(g), Some(e)) if g.0 < e.0 => {
                return Some((
                    format!("yields an unmapped character ({})", region(g.0)),
                    format!("U+{:04X} -> gid {} is not in the input", g.0, g.1),
                ));
            }
            (Some(g), None) => {
                return Some((
                    format!("yields an unmapped character ({})", region(g.0)),
                    format!("U+{:04X} -> gid {} is not in the input", g.0, g.1),
                ));
            }
            (_, Some(e)) => {
                return Some((
                    format!("omits a mapped character ({})", region(e.0)),
                    format!("U+{:04X} -> gid {} never produced", e.0, e.1),
                ));
            }
            (None, None) => unreachable!(),
        }
    }
    None
}

fn boundary_set() -> Vec<u32> {
    let mut b = vec![0u32, 0xFFFF, 0x110000];
    for p in P {
        b.extend([p - 1, p, p + 1]);
    }
    b.sort();
    b.dedup();
    b
}

/// The whole oracle for one mapping. `full_bmp`: also look up every BMP code point.
fn check_mapping(run: &Run, m: &Mapping, full_bmp: bool, l: &mut Local) {
    l.evals += 1;
    // input handed over in descending order (from_mappings promises to sort)
    let input: Vec<(char, GlyphId)> = m
        .iter()
        .rev()
        .map(|(c, g)| (char::from_u32(*c).expect("scalar value"), GlyphId::new(*g as u32)))
        .collect();
    l.trans += 1;
    let built = match guard(|| wc::Cmap::from_mappings(input)) {
        Ok(Ok(c)) => c,
        Ok(Err(e)) => {
            run.violation(
                "Cmap::from_mappings reports a conflict for a conflict-free mapping",
                &format!("{e}"),
                case_json(m, full_bmp),
            );
            return;
        }
        Err(p) => {
            // gid - cp > 32767 in the BMP makes `rem_euclid(0x10000).try_into::<i16>().unwrap()` fail
            let big = m.iter().any(|(c, g)| *c <= 0xFFFF && (*g as i32 - *c as i32) > 32767);
            if big && p.message.contains("TryFromIntError") && p.file.ends_with("tables/cmap.rs") {
                l.panics_delta += 1;
                run.violation(
                    ID_DELTA,
                    &format!(
                        "from_mappings({:x?}) panicked: {} ({}:{})",
                        m, p.message, p.file, p.line
                    ),
                    case_json(m, full_bmp),
                );
            } else {
                run.violation(
                    &format!("Cmap::from_mappings panic: {} in {}", p.kind(), p.site()),
                    &format!(
                        "from_mappings({:x?}) panicked: {} ({}:{})",
                        m, p.message, p.file, p.line
                    ),
                    case_json(m, full_bmp),
                );
            }
            let mut h = Fnv::new();
            h.str("panic");
            h.str(&p.kind());
            l.all.insert(h.finish());
            return;
        }
    };
    l.trans += 1;
    let bytes = match guard(|| dump_table(&built)) {
        Ok(Ok(b)) => b,
        Ok(Err(e)) => {
            run.violation(
                "Cmap from from_mappings fails to compile",
                &format!("dump_table: {e}"),
                case_json(m, full_bmp),
            );
            return;
        }
        Err(p) => {
            run.violation(
                &format!("Cmap compile panic: {} in {}", p.kind(), p.site()),
                &p.message,
                case_json(m, full_bmp),
            );
            return;
        }
    };
    l.compiled += 1;
    let font_bytes = wrap_font(bytes);
    let r = guard(|| check_compiled(run, m, full_bmp, &font_bytes, l));
    if let Err(p) = r {
        run.violation(
            &format!("cmap reader panic: {} in {}", p.kind(), p.site()),
            &format!("{} ({}:{})", p.message, p.file, p.line),
            case_json(m, full_bmp),
        );
    }
}

fn check_compiled(run: &Run, m: &Mapping, full_bmp: bool, font_bytes: &[u8], l: &mut Local) {
    let font = match FontRef::new(font_bytes) {
        Ok(f) => f,
        Err(e) => {
            run.violation("built font does not parse", &format!("{e}"), case_json(m, full_bmp));
            return;
        }
    };
    let cmap = match font.cmap() {
        Ok(c) => c,
        Err(e) => {
            run.violation("compiled cmap does not parse", &format!("{e}"), case_json(m, full_bmp));
            return;
        }
    };
    let charmap = Charmap::new(&font);
    let charmap2 = font.charmap();
    // the cacheable route: indices found once, character map materialised from them
    let charmap_ix = MappingIndex::new(&font).charmap(&font);
    // sub-tables + structure digest (N: distinct segment structures)
    let mut h = Fnv::new();
    let mut c4: Vec<rc::Cmap4> = vec![];
    let mut c12: Vec<rc::Cmap12> = vec![];
    // sub-tables that several encoding records share byte for byte are looked up once
    let mut seen_offsets: Vec<u32> = vec![];
    for rec in cmap.encoding_records() {
        h.u64(rec.platform_id() as u64);
        h.u64(rec.encoding_id() as u64);
        let off = rec.subtable_offset().to_u32();
        if seen_offsets.contains(&off) {
            h.u64(off as u64);
            continue;
        }
        seen_offsets.push(off);
        match rec.subtable(cmap.offset_data()) {
            Ok(rc::CmapSubtable::Format4(t)) => {
                h.str("f4");
                // checked access: the four arrays come from the library under test
                for i in 0..t.start_code().len() {
                    h.u64(t.start_code().get(i).map_or(u64::MAX, |v| v.get() as u64));
                    h.u64(t.end_code().get(i).map_or(u64::MAX, |v| v.get() as u64));
                    h.i64(t.id_delta().get(i).map_or(i64::MAX, |v| v.get() as i64));
                    h.u64(t.id_range_offsets().get(i).map_or(u64::MAX, |v| v.get() as u64));
                }
                h.u64(t.glyph_id_array().len() as u64);
                if let Some(what) = format4_header_mismatch(&t) {
                    run.violation(
                        "Cmap4 header: searchRange / entrySelector / rangeShift / length differ from the specification's formulas",
                        &format!("mapping {:x?}: {what}", m),
                        case_json(m, full_bmp),
                    );
                }
                c4.push(t);
            }
            Ok(rc::CmapSubtable::Format12(t)) => {
                h.str("f12");
                for g in t.groups() {
                    h.u64(g.start_char_code() as u64);
                    h.u64(g.end_char_code() as u64);
                    h.u64(g.start_glyph_id() as u64);
                }
                c12.push(t);
            }
            Ok(_) => {
                h.str("other");
            }
            Err(e) => {
                run.violation(
                    "compiled cmap sub-table does not parse",
                    &format!("{e}"),
                    case_json(m, full_bmp),
                );
                return;
            }
        }
    }
    let d = h.finish();
    l.all.insert(d);
    if !m.is_empty() {
        l.nontrivial.insert(d);
    }

    // ---- lookups -------------------------------------------------------
    // at most 3 reports per mapping: a broken table fails thousands of look-ups in the same way
    let budget = std::cell::Cell::new(3u32);
    let report = |api: &str, c: u32, exp: Option<u16>, got: Option<GlyphId>| {
        if budget.get() == 0 {
            return;
        }
        budget.set(budget.get() - 1);
        run.violation(
            &lookup_identity(api, exp, c),
            &format!(
                "mapping {:x?}: {api}(U+{c:04X}) = {:?}, input says {:?}",
                m,
                got.map(|g| g.to_u32()),
                exp
            ),
            case_json(m, full_bmp),
        );
    };
    let mut lookups = 0u64;
    let mut one = |c: u32| {
        let exp = expected(m, c);
        let got = cmap.map_codepoint(c);
        if !table_level_ok(got, exp) {
            report("Cmap::map_codepoint", c, exp, got);
        }
        let got = charmap.map(c);
        if got != exp.map(|g| GlyphId::new(g as u32)) {
            report("Charmap::map", c, exp, got);
        }
        let got = charmap_ix.map(c);
        if got != exp.map(|g| GlyphId::new(g as u32)) {
            report("MappingIndex::charmap().map", c, exp, got);
        }
        lookups += 1;
        for t in &c4 {
            let got = t.map_codepoint(c);
            let e4 = if c <= 0xFFFF { exp } else { None };
            if !table_level_ok(got, e4) {
                report("Cmap4::map_codepoint", c, e4, got);
            }
            lookups += 1;
        }
        for t in &c12 {
            let got = t.map_codepoint(c);
            if !table_level_ok(got, exp) {
                report("Cmap12::map_codepoint", c, exp, got);
            }
            lookups += 1;
        }
        lookups += 2;
    };
    static B: OnceLock<Vec<u32>> = OnceLock::new();
    for &c in B.get_or_init(boundary_set) {
        one(c);
    }
    for &(c, _) in m.iter() {
        one(c);
        one(c + 1);
        if c > 0 {
            one(c - 1);
        }
    }
    // a 16-bit table must not answer for a code point that merely has the same low 16 bits, nor a
    // 21-bit one for anything beyond U+10FFFF: every mapped character shifted by whole planes / high bits
    thread_local! {
        static QUERIES: std::cell::RefCell<Vec<u32>> = const { std::cell::RefCell::new(Vec::new()) };
    }
    let mut spec_queries: Vec<u32> = QUERIES.with(|q| std::mem::take(&mut *q.borrow_mut()));
    spec_queries.clear();
    spec_queries.extend([0, 0xFFFF, 0x110000]);
    for &(c, _) in m.iter() {
        spec_queries.extend([c.saturating_sub(1), c, c + 1]);
        // one plane up / the low 16 bits for every mapped character; the high-bit variants for the first
        let first = c == m[0].0;
        let aliases: [u32; 2] = if c <= 0xFFFF { [c + 0x10000, c | 0xFFFF_0000] } else { [c & 0xFFFF, c.wrapping_add(0xFFF0_0000)] };
        for &alias in &aliases[..if first { 2 } else { 1 }] {
            one(alias);
            spec_queries.push(alias);
        }
    }
    if full_bmp {
        for c in 0..=0xFFFFu32 {
            one(c);
        }
    }
    if let Err((id, what)) = spec_check(font_bytes, m, &spec_queries) {
        run.violation(&id, &format!("mapping {:x?}: {what}", m), case_json(m, full_bmp));
    }
    QUERIES.with(|q| *q.borrow_mut() = spec_queries);
    // the MetadataProvider route must be the same object
    for &(c, g) in m.iter().take(2) {
        if charmap2.map(c) != Some(GlyphId::new(g as u32)) {
            report("MetadataProvider::charmap().map", c, Some(g), charmap2.map(c));
        }
    }
    l.lookups += lookups;
    l.trans += lookups;

    // ---- enumerations --------------------------------------------------
    let exp_all: Vec<(u32, u32)> = m.iter().map(|(c, g)| (*c, *g as u32)).collect();
    let exp_bmp: Vec<(u32, u32)> = exp_all.iter().copied().filter(|e| e.0 <= 0xFFFF).collect();
    let cap = m.len() + 70_000;
    for t in &c4 {
        l.trans += 1;
        // the format's own U+FFFF -> glyph 0 sentinel entry is exempt (property statement)
        let got: Vec<(u32, u32)> = t
            .iter()
            .take(cap)
            .map(|(c, g)| (c, g.to_u32()))
            .filter(|e| !(e.0 == 0xFFFF && e.1 == 0))
            .filter(|e| !(HAND.with(|h| h.get()).is_some() && e.1 == 0))
            .collect();
        if let Some((id, detail)) = diff_enumeration(&got, &exp_bmp) {
            run.violation(
                &format!("Cmap4::iter {id}"),
                &format!("mapping {:x?}: {detail}; iter gave {:x?}", m, &got[..got.len().min(12)]),
                case_json(m, full_bmp),
            );
        }
    }
    for t in &c12 {
        l.trans += 1;
        let got: Vec<(u32, u32)> = t.iter().take(cap).map(|(c, g)| (c, g.to_u32())).collect();
        if let Some((id, detail)) = diff_enumeration(&got, &exp_all) {
            run.violation(
                &format!("Cmap12::iter {id}"),
                &format!("mapping {:x?}: {detail}; iter gave {:x?}", m, &got[..got.len().min(12)]),
                case_json(m, full_bmp),
            );
        }
    }
    // Cmap12::iter_with_limits: limits that admit every input pair (the font's, the type's default, and
    // the tightest admissible ones) must not lose a pair; limits one below the largest character /
    // glyph cut exactly the pairs beyond them (groups have ascending glyph ids, so a cut group ends there)
    for t in &c12 {
        let (Some(maxc), Some(maxg)) = (exp_all.last().map(|e| e.0), exp_all.iter().map(|e| e.1).max()) else { continue };
        let lims = [
            ("the font's default limits", rc::Cmap12IterLimits::default_for_font(&font)),
            ("Cmap12IterLimits::default()", rc::Cmap12IterLimits::default()),
            ("the tightest admissible limits", rc::Cmap12IterLimits { max_char: maxc, glyph_count: maxg + 1 }),
            ("max_char one below the last character", rc::Cmap12IterLimits { max_char: maxc.saturating_sub(1), glyph_count: maxg + 1 }),
            ("glyph_count equal to the largest glyph id", rc::Cmap12IterLimits { max_char: maxc, glyph_count: maxg }),
        ];
        for (name, lim) in lims {
            l.trans += 1;
            let admitted = |e: &(u32, u32)| e.0 <= lim.max_char && e.1 < lim.glyph_count;
            // allocation-free comparison first; the lists are only materialised for the report
            if t.iter_with_limits(lim).take(cap).map(|(c, g)| (c, g.to_u32())).eq(exp_all.iter().copied().filter(admitted)) {
                continue;
            }
            let want: Vec<(u32, u32)> = exp_all.iter().copied().filter(admitted).collect();
            let got: Vec<(u32, u32)> = t.iter_with_limits(lim).take(cap).map(|(c, g)| (c, g.to_u32())).collect();
            if let Some((id, detail)) = diff_enumeration(&got, &want) {
                run.violation(
                    &format!("Cmap12::iter_with_limits ({name}) {id}"),
                    &format!("mapping {:x?}, limits {lim:?}: {detail}; iter gave {:x?}", m, &got[..got.len().min(12)]),
                    case_json(m, full_bmp),
                );
            }
        }
    }
    l.trans += 1;
    let got: Vec<(u32, u32)> = charmap
        .mappings()
        .take(cap)
        .map(|(c, g)| (c, g.to_u32()))
        .collect();
    if let Some((id, detail)) = diff_enumeration(&got, &exp_all) {
        // the one known shape: everything is there except the last Unicode scalar value
        let without_last: Vec<(u32, u32)> =
            exp_all.iter().copied().filter(|e| e.0 != 0x10FFFF).collect();
        let identity = if got == without_last && exp_all.len() != without_last.len() {
            ID_10FFFF.to_string()
        } else {
            format!("Charmap::mappings {id}")
        };
        run.violation(
            &identity,
            &format!("mapping {:x?}: {detail}; mappings() gave {:x?}", m, &got[..got.len().min(12)]),
            case_json(m, full_bmp),
        );
    }
    l.trans += 2;
    let got: Vec<(u32, u32)> = charmap_ix.mappings().take(cap).map(|(c, g)| (c, g.to_u32())).collect();
    if let Some((id, detail)) = diff_enumeration(&got, &exp_all) {
        run.violation(
            &format!("MappingIndex::charmap().mappings {id}"),
            &format!("mapping {:x?}: {detail}; mappings() gave {:x?}", m, &got[..got.len().min(12)]),
            case_json(m, full_bmp),
        );
    }
    // the two routes must also agree on what they selected
    if (charmap_ix.has_map(), charmap_ix.is_symbol(), charmap_ix.has_variant_map())
        != (charmap.has_map(), charmap.is_symbol(), charmap.has_variant_map())
        || charmap.has_map() != !cmap.encoding_records().is_empty()
        || charmap.is_symbol()
    {
        run.violation(
            "MappingIndex::charmap() / Charmap::new disagree on has_map / is_symbol / has_variant_map",
            &format!(
                "mapping {:x?}: index route {:?}, direct {:?}",
                m,
                (charmap_ix.has_map(), charmap_ix.is_symbol(), charmap_ix.has_variant_map()),
                (charmap.has_map(), charmap.is_symbol(), charmap.has_variant_map())
            ),
            case_json(m, full_bmp),
        );
    }
}

// ---------------------------------------------------------------------------
// F1: point family
// ---------------------------------------------------------------------------

fn subsets_up_to(k: usize) -> Vec<Vec<usize>> {
    // all index subsets of 0..11 with <= k elements, ordered by size then lexicographically
    let mut out: Vec<Vec<usize>> = vec![];
    for size in 0..=k {
        let mut cur: Vec<usize> = (0..size).collect();
        if size > P.len() {
            break;
        }
        loop {
            out.push(cur.clone());
            // next combination
            let mut i = size;
            while i > 0 && cur[i - 1] == P.len() - size + (i - 1) {
                i -= 1;
            }
            if i == 0 {
                break;
            }
            cur[i - 1] += 1;
            for j in i..size {
                cur[j] = cur[j - 1] + 1;
            }
        }
    }
    out
}

fn point_family(run: &Run) {
    let k = run.tier.pick(5usize, 7usize);
    let kb = run.tier.pick(2usize, 4usize);
    run.bound("F1.code_points_P", json!(P.iter().map(|p| format!("{p:#x}")).collect::<Vec<_>>()));
    run.bound(
        "F1.glyph_ids_G",
        json!(P
            .iter()
            .map(|p| (format!("{p:#x}"), gids_for(*p).to_vec()))
            .collect::<Vec<_>>()),
    );
    run.bound("F1.max_points_touched", json!(k));
    run.bound("F1.full_BMP_lookup_up_to_points", json!(kb));
    let subsets = subsets_up_to(k);
    run.count("F1.subsets", subsets.len() as u64);
    let gtab: Vec<[u16; 6]> = P.iter().map(|p| gids_for(*p)).collect();
    // samples: first few cases, deterministic
    run.sample(json!({"family":"F1","mapping":[[0x20,1]], "note":"one point"}));
    // tasks: (subset, first gid choice) for parallel grain
    let tasks: Vec<(usize, usize)> = subsets
        .iter()
        .enumerate()
        .flat_map(|(i, s)| {
            let n = if s.is_empty() { 1 } else { 6 };
            (0..n).map(move |g| (i, g))
        })
        .collect();
    // subsets of size <= 1 are run first and sequentially, so that when a defect is visible on a
    // one-point mapping the replay file written for its identity is that minimal case
    let split = tasks.iter().position(|&(si, _)| subsets[si].len() > 1).unwrap_or(tasks.len());
    let work = |&(si, g0): &(usize, usize)| {
            let s = &subsets[si];
            let mut l = Local::new();
            let full = s.len() <= kb;
            let n = s.len();
            // odometer over gid choices, first digit fixed to g0
            let mut digits = vec![0usize; n];
            if n > 0 {
                digits[0] = g0;
            }
            loop {
                let m: Mapping = (0..n).map(|i| (P[s[i]], gtab[s[i]][digits[i]])).collect();
                check_mapping(run, &m, full, &mut l);
                // increment digits[1..]
                let mut i = n;
                loop {
                    if i <= 1 {
                        i = 0;
                        break;
                    }
                    i -= 1;
                    digits[i] += 1;
                    if digits[i] < 6 {
                        break;
                    }
                    digits[i] = 0;
                }
                if i == 0 {
                    break;
                }
            }
            l
        };
    let mut locals: Vec<Local> = tasks[..split].iter().map(work).collect();
    locals.extend(tasks[split..].par_iter().map(work).collect::<Vec<_>>());
    for l in locals {
        l.merge(run, "F1");
    }
}

// ---------------------------------------------------------------------------
// F2: dense runs
// ---------------------------------------------------------------------------

fn run_family(run: &Run) {
    let max_len = 300u32;
    run.bound("F2.run_lengths", json!("1..=300"));
    run.bound("F2.bases", json!(["0x100", "ending at 0xFFFE", "0x10000"]));
    run.bound("F2.strides", json!(["+1", "-1", "+1 with one break (every position)"]));
    let lens: Vec<u32> = (1..=max_len).collect();
    let locals: Vec<Local> = lens
        .par_iter()
        .map(|&len| {
            let mut l = Local::new();
            for base_kind in 0..3 {
                let base = match base_kind {
                    0 => 0x100,
                    1 => 0xFFFE - (len - 1),
                    _ => 0x10000,
                };
                // +1
                let m: Mapping = (0..len).map(|i| (base + i, (7 + i) as u16)).collect();
                check_mapping(run, &m, false, &mut l);
                // -1
                let m: Mapping = (0..len).map(|i| (base + i, (1000 - i) as u16)).collect();
                check_mapping(run, &m, false, &mut l);
                // +1 with one break after position b (gids jump by 5)
                for b in 1..len {
                    let m: Mapping = (0..len)
                        .map(|i| (base + i, (7 + i + if i >= b { 5 } else { 0 }) as u16))
                        .collect();
                    check_mapping(run, &m, false, &mut l);
                }
            }
            l
        })
        .collect();
    for l in locals {
        l.merge(run, "F2");
    }
    run.sample(json!({"family":"F2","base":"0x100","len":3,"stride":"+1 break after 1","mapping":[[0x100,7],[0x101,13],[0x102,14]]}));
}

// ---------------------------------------------------------------------------
// F3: block sequences (should_combine)
// ---------------------------------------------------------------------------

#[derive(Clone, Copy)]
struct Block {
    ty: u8,  // 0 ordered (+1), 1 reversed (-1), 2 stride 2
    len: u8, // 1..
    gap: bool, // one unmapped character before this block
}

fn blocks_to_mapping(base: u32, blocks: &[Block]) -> Mapping {
    let mut m = vec![];
    let mut cp = base;
    let mut gbase = 10u32;
    for b in blocks {
        if b.gap {
            cp += 1;
        }
        for i in 0..b.len as u32 {
            let g = match b.ty {
                0 => gbase + i,
                1 => gbase + b.len as u32 - 1 - i,
                _ => gbase + 2 * i,
            };
            m.push((cp, g as u16));
            cp += 1;
        }
        gbase += 40; // never continues the previous block's glyph run
    }
    m
}

fn block_family(run: &Run) {
    let lb = run.tier.pick(6u8, 8u8);
    let nb = run.tier.pick(3usize, 4usize);
    run.bound("F3.block_types", json!(["ordered", "reversed", "stride2"]));
    run.bound("F3.block_len_max", json!(lb));
    run.bound("F3.blocks_max", json!(nb));
    run.bound("F3.bases", json!(["0x41", "ending at 0xFFFE"]));
    // enumerate block lists depth-first in a fixed order
    let mut lists: Vec<Vec<Block>> = vec![];
    fn rec(cur: &mut Vec<Block>, nb: usize, lb: u8, out: &mut Vec<Vec<Block>>) {
        if !cur.is_empty() {
            out.push(cur.clone());
        }
        if cur.len() == nb {
            return;
        }
        for ty in 0..3u8 {
            for len in 1..=lb {
                for gap in [false, true] {
                    if cur.is_empty() && gap {
                        continue;
                    }
                    cur.push(Block { ty, len, gap });
                    rec(cur, nb, lb, out);
                    cur.pop();
                }
            }
        }
    }
    rec(&mut vec![], nb, lb, &mut lists);
    run.count("F3.block_lists", lists.len() as u64);
    let locals: Vec<Local> = lists
        .par_chunks(512)
        .map(|chunk| {
            let mut l = Local::new();
            for bl in chunk {
                let total: u32 = bl.iter().map(|b| b.len as u32 + b.gap as u32).sum();
                for base in [0x41u32, 0xFFFE - (total - 1)] {
                    let m = blocks_to_mapping(base, bl);
                    check_mapping(run, &m, false, &mut l);
                }
            }
            l
        })
        .collect();
    for l in locals {
        l.merge(run, "F3");
    }
    run.sample(json!({"family":"F3","blocks":"reversed(2) ordered(5) reversed(2) contiguous at 0x41",
        "mapping": blocks_to_mapping(0x41, &[Block{ty:1,len:2,gap:false},Block{ty:0,len:5,gap:false},Block{ty:1,len:2,gap:false}])
            .iter().map(|(c,g)| json!([c,g])).collect::<Vec<_>>()}));
}

// ---------------------------------------------------------------------------
// F4: variation sequences (Cmap14)
// ---------------------------------------------------------------------------

#[derive(Clone, Debug, PartialEq)]
struct SelSpec {
    sel: u32,
    def: Option<Vec<(u32, u8)>>,     // (start, additional_count)
    nondef: Option<Vec<(u32, u16)>>, // (cp, gid)
}

const UVS_BASE: [(u32, u16); 3] = [(0x30, 1), (0x31, 2), (0x41, 3)];
const UVS_SELECTORS: [u32; 5] = [0xFE00, 0xFE01, 0xE0100, 0xFE0F, 0xE01EF];
const UVS_RANGES: [(u32, u8); 5] = [(0x30, 0), (0x30, 2), (0x40, 255), (0x4E00, 0), (0x10000, 1)];
const UVS_ND_CPS: [u32; 4] = [0x31, 0x41, 0x4E00, 0x10001];
const UVS_ND_GIDS: [u16; 2] = [5, 0xFFFE];
/// the last four: plane-16 boundaries (24-bit fields) and 0x41 with a bit above the 24-bit field
const UVS_QUERY_CPS: [u32; 23] = [
    0x2F, 0x30, 0x31, 0x32, 0x33, 0x3F, 0x40, 0x41, 0x42, 0x13F, 0x140, 0x4DFF, 0x4E00, 0x4E01,
    0xFFFF, 0x10000, 0x10001, 0x10002, 0x10FFFF, 0xFFFFF, 0x100000, 0x10FFFE, 0x1000041,
];
/// the last one: U+FE00 with a bit above the 24-bit field
const UVS_QUERY_SELS: [u32; 13] = [
    0xFDFF, 0xFE00, 0xFE01, 0xFE02, 0xFE0E, 0xFE0F, 0xFE10, 0xE00FF, 0xE0100, 0xE01EE, 0xE01EF, 0xE01F0,
    0x100FE00,
];

fn uvs_json(spec: &[SelSpec]) -> Value {
    json!({"kind":"uvs","composition":COMPOSITION.with(|c| c.get()),"selectors": spec.iter().map(|s| json!({
        "sel": s.sel,
        "def": s.def.as_ref().map(|d| d.iter().map(|(a,b)| json!([a,b])).collect::<Vec<_>>()),
        "nondef": s.nondef.as_ref().map(|d| d.iter().map(|(a,b)| json!([a,b])).collect::<Vec<_>>()),
    })).collect::<Vec<_>>()})
}

fn uvs_from_json(v: &Value) -> Vec<SelSpec> {
    v["selectors"]
        .as_array()
        .cloned()
        .unwrap_or_default()
        .iter()
        .map(|s| SelSpec {
            sel: s["sel"].as_u64().unwrap() as u32,
            def: s["def"].as_array().map(|a| {
                a.iter()
                    .map(|p| (p[0].as_u64().unwrap() as u32, p[1].as_u64().unwrap() as u8))
                    .collect()
            }),
            nondef: s["nondef"].as_array().map(|a| {
                a.iter()
                    .map(|p| (p[0].as_u64().unwrap() as u32, p[1].as_u64().unwrap() as u16))
                    .collect()
            }),
        })
        .collect()
}

/// every per-selector body: default ranges (None, 0, 1 or 2 ascending disjoint ranges) ×
/// non-default mappings (None, 0, 1 or 2 ascending), excluding bodies in which a non-default
/// character lies inside a default range (the answer would be ambiguous).
fn uvs_bodies(want_clash: bool) -> Vec<(Option<Vec<(u32, u8)>>, Option<Vec<(u32, u16)>>)> {
    let mut defs: Vec<Option<Vec<(u32, u8)>>> = vec![None, Some(vec![])];
    for r in UVS_RANGES {
        defs.push(Some(vec![r]));
    }
    for (i, a) in UVS_RANGES.iter().enumerate() {
        for b in UVS_RANGES.iter().skip(i + 1) {
            if a.0 + a.1 as u32 >= b.0 {
                continue; // overlapping
            }
            defs.push(Some(vec![*a, *b]));
        }
    }
    let mut nds: Vec<Option<Vec<(u32, u16)>>> = vec![None, Some(vec![])];
    for c in UVS_ND_CPS {
        for g in UVS_ND_GIDS {
            nds.push(Some(vec![(c, g)]));
        }
    }
    for (i, c1) in UVS_ND_CPS.iter().enumerate() {
        for c2 in UVS_ND_CPS.iter().skip(i + 1) {
            for g1 in UVS_ND_GIDS {
                for g2 in UVS_ND_GIDS {
                    nds.push(Some(vec![(*c1, g1), (*c2, g2)]));
                }
            }
        }
    }
    let mut out = vec![];
    for d in &defs {
        for n in &nds {
            let clash = match (d, n) {
                (Some(d), Some(n)) => n
                    .iter()
                    .any(|(c, _)| d.iter().any(|(s, k)| *c >= *s && *c <= *s + *k as u32)),
                _ => false,
            };
            if clash == want_clash {
                out.push((d.clone(), n.clone()));
            }
        }
    }
    out
}

fn uvs_expected(spec: &[SelSpec], cp: u32, sel: u32) -> Option<MapVariant> {
    uvs_expected2(spec, cp, sel).0
}

/// (answer, alternative): when a character is both in a default range and a non-default mapping of
/// one selector (ill-formed per the specification) either encoded answer is accepted.
fn uvs_expected2(spec: &[SelSpec], cp: u32, sel: u32) -> (Option<MapVariant>, Option<MapVariant>) {
    let Some(s) = spec.iter().find(|s| s.sel == sel) else {
        return (None, None);
    };
    let d = s
        .def
        .as_ref()
        .and_then(|d| d.iter().any(|(st, k)| cp >= *st && cp <= *st + *k as u32).then_some(MapVariant::UseDefault));
    let n = s.nondef.as_ref().and_then(|n| {
        n.iter().find(|(c, _)| *c == cp).map(|(_, g)| MapVariant::Variant(GlyphId::new(*g as u32)))
    });
    match (d, n) {
        (Some(d), Some(n)) => (Some(d), Some(n)),
        (Some(d), None) => (Some(d), None),
        (None, n) => (n, None),
    }
}

fn check_uvs(run: &Run, spec: &[SelSpec], l: &mut Local) {
    check_uvs_with(run, spec, &UVS_BASE, 1, false, l)
}

fn combined_json(spec: &[SelSpec], base: &[(u32, u16)], pos: usize) -> Value {
    let mut v = uvs_json(spec);
    v["kind"] = json!("combined");
    v["mapping"] = json!(base.iter().map(|(c, g)| json!([c, g])).collect::<Vec<_>>());
    v["pos"] = json!(pos);
    v
}

/// One cmap holding the sub-tables of `from_mappings(base)` and a Cmap14 built from `spec`, whose
/// encoding record is inserted at index `pos`. Variation look-ups are always checked; with `plain_too`
/// the whole plain look-up surface (check_compiled) is checked on the same font as well.
fn check_uvs_with(run: &Run, spec: &[SelSpec], base: &[(u32, u16)], pos: usize, plain_too: bool, l: &mut Local) {
    l.evals += 1;
    let case = || if plain_too { combined_json(spec, base, pos) } else { uvs_json(spec) };
    let r = guard(|| {
        let mut cmap = wc::Cmap::from_mappings(
            base.iter()
                .map(|(c, g)| (char::from_u32(*c).unwrap(), GlyphId::new(*g as u32))),
        )
        .expect("base mapping is conflict free");
        let mut length = 10u32 + 11 * spec.len() as u32;
        let records: Vec<wc::VariationSelector> = spec
            .iter()
            .map(|s| {
                let d = s.def.as_ref().map(|d| {
                    length += 4 + 4 * d.len() as u32;
                    wc::DefaultUvs::new(
                        d.len() as u32,
                        d.iter().map(|(st, k)| wc::UnicodeRange::new(Uint24::new(*st), *k)).collect(),
                    )
                });
                let n = s.nondef.as_ref().map(|n| {
                    length += 4 + 5 * n.len() as u32;
                    wc::NonDefaultUvs::new(
                        n.len() as u32,
                        n.iter().map(|(c, g)| wc::UvsMapping::new(Uint24::new(*c), *g)).collect(),
                    )
                });
                wc::VariationSelector::new(Uint24::new(s.sel), d, n)
            })
            .collect();
        let sub = wc::CmapSubtable::format_14(length, spec.len() as u32, records);
        // records are ordered (platform, encoding): (0,3) (0,5) (3,1)
        let at = pos.min(cmap.encoding_records.len());
        cmap.encoding_records
            .insert(at, wc::EncodingRecord::new(wc::PlatformId::Unicode, 5, sub));
        dump_table(&cmap)
    });
    l.trans += 2;
    let bytes = match r {
        Ok(Ok(b)) => b,
        Ok(Err(e)) => {
            run.violation("Cmap14 fails to compile", &format!("{e}"), case());
            return;
        }
        Err(p) => {
            run.violation(
                &format!("Cmap14 compile panic: {} in {}", p.kind(), p.site()),
                &p.message,
                case(),
            );
            return;
        }
    };
    l.compiled += 1;
    let font_bytes = wrap_font(bytes);
    let r = guard(|| {
        let (font, cmap) = match FontRef::new(&font_bytes).map_err(|e| format!("{e}")).and_then(|f| f.cmap().map(|c| (f.clone(), c)).map_err(|e| format!("{e}"))) {
            Ok(x) => x,
            Err(e) => {
                run.violation("compiled cmap (with a format-14 sub-table) does not parse", &e, case());
                return;
            }
        };
        let charmap = Charmap::new(&font);
        let mut c14 = None;
        for rec in cmap.encoding_records() {
            if let Ok(rc::CmapSubtable::Format14(t)) = rec.subtable(cmap.offset_data()) {
                c14 = Some(t);
            }
        }
        let Some(c14) = c14 else {
            run.violation("compiled Cmap14 sub-table not found / unreadable", "", case());
            return;
        };
        if !charmap.has_variant_map() {
            run.violation("Charmap does not select the format-14 sub-table", "", case());
            return;
        }
        let charmap_ix = MappingIndex::new(&font).charmap(&font);
        if !charmap_ix.has_variant_map() || !charmap_ix.has_map() || charmap_ix.is_symbol() {
            run.violation("MappingIndex::charmap() does not select the format-14 / format-4 sub-tables", "", case());
            return;
        }
        let mut lookups = 0u64;
        // the compiled bytes decoded by the specification's procedure (spec.rs; no library code)
        let raw14 = spec::cmap_of_font(&font_bytes).and_then(|c| {
            let recs = spec::records(c)?;
            let r = recs.iter().find(|r| r.format == 14).copied().ok_or("no format-14 record")?;
            Ok((c, r.offset))
        });
        let raw14 = match raw14 {
            Ok(x) => x,
            Err(e) => {
                run.violation("from-spec decode of the compiled cmap: format-14 sub-table not found", &e, case());
                return;
            }
        };
        for cp in UVS_QUERY_CPS {
            for sel in UVS_QUERY_SELS {
                let exp = uvs_expected(spec, cp, sel);
                {
                    let conv = |v: Option<MapVariant>| match v {
                        None => spec::Uvs::None,
                        Some(MapVariant::UseDefault) => spec::Uvs::Default,
                        Some(MapVariant::Variant(g)) => spec::Uvs::Glyph(g.to_u32() as u16),
                    };
                    let (e, a) = uvs_expected2(spec, cp, sel);
                    match spec::lookup14(raw14.0, raw14.1, cp, sel) {
                        Ok(got) if got == (conv(e), conv(a)) => {}
                        other => run.violation(
                            &format!("from-spec decode of the compiled Cmap14 bytes differs from the encoded sequences ({})", region(cp)),
                            &format!("(U+{cp:04X}, U+{sel:04X}) decodes to {other:?}, encoded {e:?} / {a:?}; {spec:x?}"),
                            case(),
                        ),
                    }
                }
                let kind = match exp {
                    Some(MapVariant::UseDefault) => "a default sequence",
                    Some(MapVariant::Variant(_)) => "a non-default sequence",
                    None => "an unencoded sequence",
                };
                let alt = uvs_expected2(spec, cp, sel).1;
                let got = c14.map_variant(cp, sel);
                if got != exp && !(alt.is_some() && got == alt) {
                    run.violation(
                        &format!("Cmap14::map_variant wrong answer for {kind} ({})", region(cp)),
                        &format!("map_variant(U+{cp:04X}, U+{sel:04X}) = {got:?}, encoded {exp:?}; {spec:x?}"),
                        case(),
                    );
                }
                let got = charmap.map_variant(cp, sel);
                if got != exp && !(alt.is_some() && got == alt) {
                    run.violation(
                        &format!("Charmap::map_variant wrong answer for {kind} ({})", region(cp)),
                        &format!("map_variant(U+{cp:04X}, U+{sel:04X}) = {got:?}, encoded {exp:?}; {spec:x?}"),
                        case(),
                    );
                }
                let got = charmap_ix.map_variant(cp, sel);
                if got != exp && !(alt.is_some() && got == alt) {
                    run.violation(
                        &format!("MappingIndex::charmap().map_variant wrong answer for {kind} ({})", region(cp)),
                        &format!("map_variant(U+{cp:04X}, U+{sel:04X}) = {got:?}, encoded {exp:?}; {spec:x?}"),
                        case(),
                    );
                }
                lookups += 3;
            }
        }
        // enumerations (as sets: the statement fixes the answers, not an order, for sequences)
        let mut exp: Vec<(u32, u32, u32)> = vec![];
        for s in spec {
            if let Some(d) = &s.def {
                for (st, k) in d {
                    for c in *st..=*st + *k as u32 {
                        exp.push((c, s.sel, u32::MAX));
                    }
                }
            }
            if let Some(n) = &s.nondef {
                for (c, g) in n {
                    exp.push((*c, s.sel, *g as u32));
                }
            }
        }
        exp.sort();
        let norm = |v: MapVariant| match v {
            MapVariant::UseDefault => u32::MAX,
            MapVariant::Variant(g) => g.to_u32(),
        };
        let mut got: Vec<(u32, u32, u32)> =
            c14.iter().take(exp.len() + 1000).map(|(c, s, v)| (c, s, norm(v))).collect();
        got.sort();
        if got != exp {
            run.violation(
                "Cmap14::iter differs from the encoded sequences",
                &format!("{spec:x?}: got {} entries, expected {}", got.len(), exp.len()),
                case(),
            );
        }
        let mut got: Vec<(u32, u32, u32)> = charmap
            .variant_mappings()
            .take(exp.len() + 1000)
            .map(|(c, s, v)| (c, s, norm(v)))
            .collect();
        got.sort();
        if got != exp {
            run.violation(
                "Charmap::variant_mappings differs from the encoded sequences",
                &format!("{spec:x?}: got {} entries, expected {}", got.len(), exp.len()),
                case(),
            );
        }
        let mut got: Vec<(u32, u32, u32)> = charmap_ix
            .variant_mappings()
            .take(exp.len() + 1000)
            .map(|(c, s, v)| (c, s, norm(v)))
            .collect();
        got.sort();
        if got != exp {
            run.violation(
                "MappingIndex::charmap().variant_mappings differs from the encoded sequences",
                &format!("{spec:x?}: got {} entries, expected {}", got.len(), exp.len()),
                case(),
            );
        }
        // the nominal mapping next to it is undisturbed
        for &(c, g) in base {
            if charmap_ix.map(c) != Some(GlyphId::new(g as u32)) {
                run.violation(
                    "MappingIndex::charmap().map wrong answer for a mapped character (BMP) beside a Cmap14",
                    &format!("U+{c:04X}"),
                    case(),
                );
            }
            if charmap.map(c) != Some(GlyphId::new(g as u32)) {
                run.violation(
                    "Charmap::map wrong answer for a mapped character (BMP) beside a Cmap14",
                    &format!("U+{c:04X}"),
                    case(),
                );
            }
        }
        lookups += 2;
        l.lookups += lookups;
        l.trans += lookups;
        let mut h = Fnv::new();
        h.str("uvs");
        for e in &exp {
            h.u64(e.0 as u64);
            h.u64(e.1 as u64);
            h.u64(e.2 as u64);
        }
        h.u64(spec.len() as u64);
        l.all.insert(h.finish());
        if !exp.is_empty() {
            l.nontrivial.insert(h.finish());
        }
    });
    if let Err(p) = r {
        run.violation(
            &format!("Cmap14 reader panic: {} in {}", p.kind(), p.site()),
            &format!("{} ({}:{})", p.message, p.file, p.line),
            case(),
        );
    }
    if plain_too {
        // the full plain look-up surface on the same font; replay files carry the combined case
        let mut m: Mapping = base.to_vec();
        m.sort();
        CASE_OVERRIDE.with(|c| *c.borrow_mut() = Some(case()));
        let r = guard(|| check_compiled(run, &m, false, &font_bytes, l));
        CASE_OVERRIDE.with(|c| *c.borrow_mut() = None);
        if let Err(p) = r {
            run.violation(
                &format!("cmap reader panic beside a format-14 sub-table: {} in {}", p.kind(), p.site()),
                &format!("{} ({}:{})", p.message, p.file, p.line),
                case(),
            );
        }
    }
}


/// F6: plain mappings (incl. out-of-order glyph runs, i.e. glyphIdArray segments) and a Cmap14 in ONE
/// cmap, the format-14 record at every position; format-14 sizes of both parities.
fn combined_family(run: &Run) {
    let plain: Vec<Vec<(u32, u16)>> = {
        let ooo = vec![(0x41u32, 9u16), (0x42, 5), (0x43, 7), (0x44, 6)];
        let inorder = vec![(0x61u32, 20u16), (0x62, 21), (0x63, 22)];
        let ooo2 = vec![(0x4E00u32, 40u16), (0x4E01, 38), (0x4E02, 39)];
        let supp = vec![(0x10000u32, 30u16), (0x10001, 29)];
        let mut v = vec![];
        for base in [
            ooo.clone(),
            [ooo.clone(), inorder.clone()].concat(),
            inorder.clone(),
            [ooo.clone(), ooo2.clone()].concat(),
        ] {
            v.push(base.clone());
            v.push([base, supp.clone()].concat());
        }
        v
    };
    // per-selector bodies: default ranges 0..2, non-default mappings 0..3 (disjoint from the ranges)
    let defs: Vec<Option<Vec<(u32, u8)>>> = vec![None, Some(vec![(0x30, 0)]), Some(vec![(0x30, 0), (0x5000, 1)])];
    let nds: Vec<Option<Vec<(u32, u16)>>> = vec![
        None,
        Some(vec![(0x41, 5)]),
        Some(vec![(0x41, 5), (0x4E01, 0xFFFE)]),
        Some(vec![(0x41, 5), (0x4E01, 0xFFFE), (0x10001, 7)]),
    ];
    let mut bodies = vec![];
    for d in &defs {
        for n in &nds {
            bodies.push((d.clone(), n.clone()));
        }
    }
    let sels = [0xFE00u32, 0xFE01, 0xE0100];
    let sel_lists: Vec<Vec<u32>> = vec![
        vec![sels[0]], vec![sels[1]], vec![sels[2]],
        vec![sels[0], sels[1]], vec![sels[0], sels[2]], vec![sels[1], sels[2]],
        sels.to_vec(),
    ];
    let mut specs: Vec<Vec<SelSpec>> = vec![];
    for sl in &sel_lists {
        let mut digits = vec![0usize; sl.len()];
        loop {
            specs.push(
                sl.iter()
                    .zip(digits.iter())
                    .map(|(s, b)| SelSpec { sel: *s, def: bodies[*b].0.clone(), nondef: bodies[*b].1.clone() })
                    .collect(),
            );
            let mut i = digits.len();
            let mut done = true;
            while i > 0 {
                i -= 1;
                digits[i] += 1;
                if digits[i] < bodies.len() {
                    done = false;
                    break;
                }
                digits[i] = 0;
            }
            if done {
                break;
            }
        }
    }
    run.bound("F6.plain_mappings", json!(plain.len()));
    run.bound("F6.uvs_tables", json!(specs.len()));
    run.bound("F6.record_positions", json!("format-14 record inserted at every index 0..=records"));
    let odd = specs
        .iter()
        .filter(|sp| {
            let len: usize = 10 + 11 * sp.len()
                + sp.iter().map(|s| s.def.as_ref().map_or(0, |d| 4 + 4 * d.len()) + s.nondef.as_ref().map_or(0, |n| 4 + 5 * n.len())).sum::<usize>();
            len % 2 == 1
        })
        .count();
    run.count("F6.uvs_tables_with_odd_nominal_size", odd as u64);
    let locals: Vec<Local> = specs
        .par_iter()
        .map(|spec| {
            let mut l = Local::new();
            for base in &plain {
                let nrec = if base.iter().any(|p| p.0 > 0xFFFF) { 4 } else { 2 };
                for pos in 0..=nrec {
                    check_uvs_with(run, spec, base, pos, true, &mut l);
                }
            }
            l
        })
        .collect();
    for l in locals {
        l.merge(run, "F6");
    }
    run.sample(combined_json(&specs[5], &plain[0], 2));
}

/// F7: format-4 sub-tables built directly from the generated write type with k single-character delta
/// segments + the sentinel, k = 0..=8 (segCount 1..=9). `from_mappings` never emits segCount 1 (it
/// emits no format 4 at all without BMP characters), the write type can.
fn direct_format4_family(run: &Run) {
    let mut l = Local::new();
    for k in 0..=8u16 {
        l.evals += 1;
        let m: Mapping = (0..k).map(|i| (0x100 + 3 * i as u32, 7 + i)).collect();
        let case = || json!({"kind":"direct4","segments":k});
        let r = guard(|| {
            let mut end: Vec<u16> = m.iter().map(|p| p.0 as u16).collect();
            let mut delta: Vec<i16> = m.iter().map(|p| (p.1 as i32 - p.0 as i32) as i16).collect();
            end.push(0xFFFF);
            delta.push(1);
            let sub = wc::CmapSubtable::format_4(0, end.clone(), end.clone(), delta, vec![0; end.len()], vec![]);
            let cmap = wc::Cmap::new(vec![
                wc::EncodingRecord::new(wc::PlatformId::Unicode, 3, sub.clone()),
                wc::EncodingRecord::new(wc::PlatformId::Windows, 1, sub),
            ]);
            dump_table(&cmap)
        });
        let bytes = match r {
            Ok(Ok(b)) => b,
            Ok(Err(e)) => {
                run.violation("hand-built Cmap4 fails to compile", &format!("{e}"), case());
                continue;
            }
            Err(p) => {
                run.violation(&format!("hand-built Cmap4 compile panic: {} in {}", p.kind(), p.site()), &p.message, case());
                continue;
            }
        };
        l.compiled += 1;
        let font_bytes = wrap_font(bytes);
        CASE_OVERRIDE.with(|c| *c.borrow_mut() = Some(case()));
        let r = guard(|| check_compiled(run, &m, false, &font_bytes, &mut l));
        CASE_OVERRIDE.with(|c| *c.borrow_mut() = None);
        if let Err(p) = r {
            run.violation(&format!("cmap reader panic: {} in {}", p.kind(), p.site()), &p.message, case());
        }
    }
    run.bound("F7.direct_format4_segment_counts", json!("1..=9 (sentinel only .. 8 characters + sentinel)"));
    l.merge(run, "F7");
}

/// F8: 32-bit count fields around 65535 / 65536, built through the write-side types:
/// one selector with n non-default mappings, one selector with n default ranges, n selector records.
fn check_uvs_counts(run: &Run, d: &Value, l: &mut Local) {
    l.evals += 1;
    let what = d["what"].as_str().unwrap_or("").to_string();
    let n = d["n"].as_u64().unwrap_or(0) as u32;
    let case = || {
        let mut c = d.clone();
        c["kind"] = json!("uvs_counts");
        c["composition"] = json!(COMPOSITION.with(|c| c.get()));
        c
    };
    // expected answers for a (character, selector) pair
    let nd_cp = |i: u32| 0x10000 + i;
    let nd_gid = |i: u32| 1 + (i % 65000) as u16;
    let rg_cp = |i: u32| 0x20000 + 2 * i;
    let sel_of = |i: u32| 0x10_0000 + i; // n distinct ascending 24-bit selector values
    let r = guard(|| {
        let mut cmap = wc::Cmap::from_mappings(
            UVS_BASE.iter().map(|(c, g)| (char::from_u32(*c).unwrap(), GlyphId::new(*g as u32))),
        )
        .expect("base mapping is conflict free");
        let one_nd = |cp: u32, g: u16| wc::NonDefaultUvs::new(1, vec![wc::UvsMapping::new(Uint24::new(cp), g)]);
        let (records, length): (Vec<wc::VariationSelector>, u32) = match what.as_str() {
            "nondefault" => (
                vec![wc::VariationSelector::new(
                    Uint24::new(0xFE00),
                    None,
                    Some(wc::NonDefaultUvs::new(n, (0..n).map(|i| wc::UvsMapping::new(Uint24::new(nd_cp(i)), nd_gid(i))).collect())),
                )],
                10 + 11 + 4 + 5 * n,
            ),
            "default" => (
                vec![wc::VariationSelector::new(
                    Uint24::new(0xFE00),
                    Some(wc::DefaultUvs::new(n, (0..n).map(|i| wc::UnicodeRange::new(Uint24::new(rg_cp(i)), 0)).collect())),
                    None,
                )],
                10 + 11 + 4 + 4 * n,
            ),
            _ => (
                (0..n)
                    .map(|i| {
                        let nd = (i == 0 || i == n - 1 || i == n / 2).then(|| one_nd(0x41, nd_gid(i)));
                        wc::VariationSelector::new(Uint24::new(sel_of(i)), None, nd)
                    })
                    .collect(),
                10 + 11 * n + 3 * 9,
            ),
        };
        let count = records.len() as u32;
        let sub = wc::CmapSubtable::format_14(length, count, records);
        cmap.encoding_records.insert(1, wc::EncodingRecord::new(wc::PlatformId::Unicode, 5, sub));
        dump_table(&cmap)
    });
    l.trans += 2;
    let bytes = match r {
        Ok(Ok(b)) => b,
        Ok(Err(e)) => {
            run.violation(
                &format!("Cmap14 with a 32-bit {what} count above 65535 is refused by the compiler"),
                &format!("{what} count {n}: {e}"),
                case(),
            );
            return;
        }
        Err(p) => {
            run.violation(&format!("Cmap14 compile panic: {} in {}", p.kind(), p.site()), &format!("{what} count {n}: {}", p.message), case());
            return;
        }
    };
    l.compiled += 1;
    let font_bytes = wrap_font(bytes);
    let r = guard(|| {
        let (font, cmap) = match FontRef::new(&font_bytes).map_err(|e| format!("{e}")).and_then(|f| f.cmap().map(|c| (f.clone(), c)).map_err(|e| format!("{e}"))) {
            Ok(x) => x,
            Err(e) => {
                run.violation("compiled cmap (with a format-14 sub-table) does not parse", &e, case());
                return;
            }
        };
        let charmap = Charmap::new(&font);
        let charmap_ix = MappingIndex::new(&font).charmap(&font);
        let mut c14 = None;
        for rec in cmap.encoding_records() {
            if let Ok(rc::CmapSubtable::Format14(t)) = rec.subtable(cmap.offset_data()) {
                c14 = Some(t);
            }
        }
        let Some(c14) = c14 else {
            run.violation("compiled Cmap14 sub-table not found / unreadable", &format!("{what} count {n}"), case());
            return;
        };
        // boundary sample: first / middle / last entry and non-members on both sides
        let mut queries: Vec<(u32, u32, Option<MapVariant>)> = vec![];
        let v = |g: u16| Some(MapVariant::Variant(GlyphId::new(g as u32)));
        match what.as_str() {
            "nondefault" => {
                // entry indices, every one clamped to the table (n may be below 65535)
                for i in [0, 1, n / 2, 65534.min(n - 1), 65535.min(n - 1), n - 2, n - 1] {
                    queries.push((nd_cp(i), 0xFE00, v(nd_gid(i))));
                }
                queries.push((nd_cp(0) - 1, 0xFE00, None));
                queries.push((nd_cp(n), 0xFE00, None));
                queries.push((nd_cp(0), 0xFE01, None));
            }
            "default" => {
                // entry indices, every one clamped to the table (n may be below 65535)
                for i in [0, 1, n / 2, 65534.min(n - 1), 65535.min(n - 1), n - 2, n - 1] {
                    queries.push((rg_cp(i), 0xFE00, Some(MapVariant::UseDefault)));
                    queries.push((rg_cp(i) + 1, 0xFE00, None));
                }
                queries.push((rg_cp(0) - 1, 0xFE00, None));
            }
            _ => {
                for i in [0, n / 2, n - 1] {
                    queries.push((0x41, sel_of(i), v(nd_gid(i))));
                }
                for i in [1, 65534.min(n - 2), n - 2] {
                    if i != n / 2 {
                        queries.push((0x41, sel_of(i), None));
                    }
                }
                queries.push((0x41, sel_of(n), None));
            }
        }
        for (cp, sel, exp) in queries {
            for (api, got) in [
                ("Cmap14::map_variant", c14.map_variant(cp, sel)),
                ("Charmap::map_variant", charmap.map_variant(cp, sel)),
                ("MappingIndex::charmap().map_variant", charmap_ix.map_variant(cp, sel)),
            ] {
                if got != exp {
                    run.violation(
                        &format!("{api} wrong answer in a table with a {what} count around 65536"),
                        &format!("{what} count {n}: (U+{cp:04X}, U+{sel:04X}) = {got:?}, encoded {exp:?}"),
                        case(),
                    );
                }
            }
            l.lookups += 3;
        }
        let want = match what.as_str() {
            "selectors" => 3,
            _ => n as usize,
        };
        let got = c14.iter().take(want + 10).count();
        if got != want || charmap.variant_mappings().take(want + 10).count() != want {
            run.violation(
                &format!("Cmap14::iter yields the wrong number of sequences in a table with a {what} count around 65536"),
                &format!("{what} count {n}: {got} sequences, {want} encoded"),
                case(),
            );
        }
        for (c, g) in UVS_BASE {
            if charmap.map(c) != Some(GlyphId::new(g as u32)) {
                run.violation("Charmap::map wrong answer for a mapped character (BMP) beside a Cmap14", &format!("U+{c:04X}"), case());
            }
        }
        let mut h = Fnv::new();
        h.str("uvs_counts");
        h.str(&what);
        h.u64(n as u64);
        l.all.insert(h.finish());
        l.nontrivial.insert(h.finish());
    });
    if let Err(p) = r {
        run.violation(&format!("Cmap14 reader panic: {} in {}", p.kind(), p.site()), &format!("{what} count {n}: {}", p.message), case());
    }
}

fn uvs_counts_family(run: &Run) {
    let counts: Vec<u32> = match run.tier {
        Tier::Quick => vec![65535, 65536],
        Tier::Thorough => vec![65534, 65535, 65536, 65537, 70000],
    };
    run.bound("F8.counts", json!(counts));
    run.bound("F8.fields", json!(["numUVSMappings of one selector", "numUnicodeValueRanges of one selector", "numVarSelectorRecords"]));
    let mut cases = vec![];
    for what in ["nondefault", "default", "selectors"] {
        for &n in &counts {
            cases.push(json!({"what": what, "n": n}));
        }
    }
    let locals: Vec<Local> = cases
        .par_iter()
        .map(|d| {
            let mut l = Local::new();
            check_uvs_counts(run, d, &mut l);
            l
        })
        .collect();
    for l in locals {
        l.merge(run, "F8");
    }
}

thread_local! {
    /// which other tables accompany cmap + maxp in the wrapper font (0 = none); set by the F9 family
    static COMPOSITION: std::cell::Cell<u8> = const { std::cell::Cell::new(0) };
}

/// The wrapper font of every high-level check. Compositions: 0 maxp + cmap; 1 also an empty (zero-length)
/// glyf and a loca; 2 also zero-length tables whose tags sort before and after 'cmap'; 3 cmap alone.
fn wrap_font(cmap: Vec<u8>) -> Vec<u8> {
    let mut b = FontBuilder::new();
    b.add_raw(Tag::new(b"cmap"), cmap);
    if COMPOSITION.with(|c| c.get()) != 3 {
        b.add_raw(Tag::new(b"maxp"), maxp_bytes());
    }
    match COMPOSITION.with(|c| c.get()) {
        1 => {
            b.add_raw(Tag::new(b"glyf"), Vec::<u8>::new()).add_raw(Tag::new(b"loca"), vec![0u8, 0]);
        }
        2 => {
            b.add_raw(Tag::new(b"DSIG"), Vec::<u8>::new())
                .add_raw(Tag::new(b"aaaa"), Vec::<u8>::new())
                .add_raw(Tag::new(b"zzzz"), Vec::<u8>::new());
        }
        _ => {}
    }
    b.build()
}

/// F9: one representative of every family re-run with the two other font compositions (the high-level
/// API reads cmap through the table directory, so directory offsets must survive empty neighbours).
fn composition_family(run: &Run) {
    run.bound("F9.compositions", json!(["maxp + cmap (all other families)", "+ zero-length glyf + loca", "+ zero-length tables sorting before and after cmap", "cmap alone (no maxp: the documented 65535-glyph default limit applies)"]));
    let mut l = Local::new();
    for comp in [1u8, 2, 3] {
        COMPOSITION.with(|c| c.set(comp));
        // F1: every mapping touching <= 1 point; two mixed BMP / supplementary ones
        check_mapping(run, &vec![], true, &mut l);
        for p in P {
            for g in gids_for(p) {
                check_mapping(run, &vec![(p, g)], false, &mut l);
            }
        }
        check_mapping(run, &vec![(0x20, 1), (0x21, 2), (0x23, 1)], true, &mut l);
        check_mapping(run, &vec![(0xFFFE, 2), (0x10000, 1), (0x10FFFF, 3)], false, &mut l);
        // F2 / F3 representatives
        check_mapping(run, &(0..7u32).map(|i| (0x100 + i, (7 + i + if i >= 3 { 5 } else { 0 }) as u16)).collect(), false, &mut l);
        check_mapping(
            run,
            &blocks_to_mapping(0x41, &[Block { ty: 1, len: 2, gap: false }, Block { ty: 0, len: 5, gap: false }, Block { ty: 1, len: 2, gap: true }]),
            false,
            &mut l,
        );
        // F4 / F6 representatives
        let spec = vec![
            SelSpec { sel: 0xFE00, def: Some(vec![(0x30, 2)]), nondef: Some(vec![(0x41, 5)]) },
            SelSpec { sel: 0xE0100, def: None, nondef: Some(vec![(0x31, 0xFFFE), (0x10001, 5)]) },
        ];
        check_uvs(run, &spec, &mut l);
        check_uvs_with(run, &spec, &[(0x41, 9), (0x42, 5), (0x43, 7), (0x44, 6), (0x10000, 30)], 2, true, &mut l);
        // F5 / F8 representatives
        check_edge(run, &json!({"family":"dup","n":1,"supp":true}), &mut l);
        check_edge(run, &json!({"family":"isolated","n":100,"supp":false}), &mut l);
        check_uvs_counts(run, &json!({"what":"selectors","n":3}), &mut l);
    }
    COMPOSITION.with(|c| c.set(0));
    l.merge(run, "F9");
}

fn uvs_family(run: &Run) {
    let bodies = uvs_bodies(false);
    run.bound("F4.selectors", json!(UVS_SELECTORS));
    run.bound("F4.default_ranges", json!(UVS_RANGES));
    run.bound("F4.nondefault_chars", json!(UVS_ND_CPS));
    run.bound("F4.nondefault_gids", json!(UVS_ND_GIDS));
    run.bound("F4.bodies_per_selector", json!(bodies.len()));
    run.bound("F4.max_selectors", json!(2));
    // selector lists: [], [a], [a<b]
    let mut sel_lists: Vec<Vec<u32>> = vec![vec![]];
    for s in UVS_SELECTORS {
        sel_lists.push(vec![s]);
    }
    // pairs: quick = pairs of the first three selectors; thorough = all ascending pairs of the five
    let npair = run.tier.pick(3usize, 5usize);
    let mut sorted = UVS_SELECTORS[..npair].to_vec();
    sorted.sort();
    for (i, a) in sorted.iter().enumerate() {
        for b in sorted.iter().skip(i + 1) {
            sel_lists.push(vec![*a, *b]);
        }
    }
    run.bound("F4.selector_pairs_from_first", json!(npair));
    let stride2 = 1usize;
    let mut tasks: Vec<(usize, usize)> = vec![];
    for (si, s) in sel_lists.iter().enumerate() {
        if s.is_empty() {
            tasks.push((si, 0));
        } else {
            for b in 0..bodies.len() {
                tasks.push((si, b));
            }
        }
    }
    let locals: Vec<Local> = tasks
        .par_iter()
        .map(|&(si, b0)| {
            let mut l = Local::new();
            let sels = &sel_lists[si];
            match sels.len() {
                0 => check_uvs(run, &[], &mut l),
                1 => check_uvs(
                    run,
                    &[SelSpec { sel: sels[0], def: bodies[b0].0.clone(), nondef: bodies[b0].1.clone() }],
                    &mut l,
                ),
                _ => {
                    let mut b1 = 0;
                    while b1 < bodies.len() {
                        check_uvs(
                            run,
                            &[
                                SelSpec { sel: sels[0], def: bodies[b0].0.clone(), nondef: bodies[b0].1.clone() },
                                SelSpec { sel: sels[1], def: bodies[b1].0.clone(), nondef: bodies[b1].1.clone() },
                            ],
                            &mut l,
                        );
                        b1 += stride2;
                    }
                }
            }
            l
        })
        .collect();
    for l in locals {
        l.merge(run, "F4");
    }
    // F4b: one selector whose default ranges and non-default mappings overlap (ill-formed): no panic,
    // every overlapping sequence answers one of its two encoded answers, all others exactly
    let clash = uvs_bodies(true);
    run.bound("F4b.overlapping_bodies", json!(clash.len()));
    let mut l = Local::new();
    for s in UVS_SELECTORS {
        for b in &clash {
            check_uvs(run, &[SelSpec { sel: s, def: b.0.clone(), nondef: b.1.clone() }], &mut l);
        }
    }
    l.merge(run, "F4b");
    run.sample(uvs_json(&[SelSpec {
        sel: 0xFE00,
        def: Some(vec![(0x30, 2)]),
        nondef: Some(vec![(0x41, 5)]),
    }]));
}

// ---------------------------------------------------------------------------
// F5: edge inputs — duplicates, conflicts, glyph 0, U+FFFF, very large mappings
// ---------------------------------------------------------------------------

/// raw input list of an edge case, from its description (replayable without storing 60k pairs)
fn edge_input(d: &Value) -> (Vec<(u32, u16)>, bool) {
    let base: Vec<(u32, u16)> = vec![(0x41, 5), (0x42, 6), (0x43, 9), (0x2000, 7), (0xFFFD, 3), (0xFFFE, 4)];
    let n = d["n"].as_u64().unwrap_or(0) as usize;
    let g = d["g"].as_u64().unwrap_or(0) as u16;
    let supp = d["supp"].as_bool().unwrap_or(false);
    let mut conflict = false;
    let scalar = |c: u32| !(0xD800..=0xDFFF).contains(&c);
    let mut v: Vec<(u32, u16)> = match d["family"].as_str().unwrap_or("") {
        // every pair n+1 times, interleaved
        "dup" => (0..=n).flat_map(|_| base.clone()).collect(),
        // pair number n of the base list gets a second, different glyph
        "conflict" => {
            conflict = true;
            let mut v = base.clone();
            v.push((base[n % base.len()].0, base[n % base.len()].1 + 100 + g));
            v
        }
        // character number n of the base list maps to glyph 0
        "gid0" => {
            let mut v = base.clone();
            let k = n % v.len();
            v[k].1 = 0;
            v
        }
        // U+FFFF -> g, with U+FFFE mapped (n = 1) or not (n = 0)
        "ffff" => {
            let mut v: Vec<(u32, u16)> = base.iter().copied().filter(|p| n == 1 || p.0 != 0xFFFE).collect();
            v.push((0xFFFF, g));
            v
        }
        // n isolated characters (every other code point from U+0100): n + 1 format-4 segments
        "isolated" => (0..n as u32)
            .map(|i| 0x100 + 2 * i)
            .map(|c| if c >= 0xD800 { c + 0x800 } else { c })
            .enumerate()
            .map(|(i, c)| (c, 1 + (i % 60000) as u16))
            .collect(),
        // every BMP scalar value except U+FFFF: g = 0 in order, 1 reversed, 2 stride 2 in glyph ids
        "allbmp" => {
            let cps: Vec<u32> = (0..0xFFFFu32).filter(|c| scalar(*c)).collect();
            let k = cps.len();
            cps.iter()
                .enumerate()
                .map(|(i, c)| {
                    (*c, match g {
                        0 => 1 + i as u16,
                        1 => (k - i) as u16,
                        _ => 1 + ((2 * i) % 65533) as u16,
                    })
                })
                .collect()
        }
        // n isolated supplementary characters: n format-12 groups (32-bit numGroups)
        "isolated_supp" => (0..n as u32).map(|i| (0x10000 + 2 * i, 1 + (i % 60000) as u16)).collect(),
        // a run of n characters with unordered glyphs: one range-offset segment with n glyph ids
        "scrambled" => (0..n as u32).map(|i| (0x100 + i, 1 + ((i * 7919) % 60000) as u16)).collect(),
        _ => vec![],
    };
    if supp {
        v.push((0x10000, 11));
        v.push((0x10FFFF, 12));
    }
    (v, conflict)
}

fn check_edge(run: &Run, d: &Value, l: &mut Local) {
    l.evals += 1;
    let family = d["family"].as_str().unwrap_or("?").to_string();
    let (raw, expect_conflict) = edge_input(d);
    let case = || {
        let mut c = d.clone();
        c["kind"] = json!("edge");
        c["composition"] = json!(COMPOSITION.with(|c| c.get()));
        c
    };
    let input: Vec<(char, GlyphId)> = raw
        .iter()
        .map(|(c, g)| (char::from_u32(*c).expect("scalar"), GlyphId::new(*g as u32)))
        .collect();
    // expected map: deduplicated; glyph-0 targets and U+FFFF are outside the statement (no panic only)
    let mut m: Mapping = raw.clone();
    m.sort();
    m.dedup();
    let exempt = |c: u32, g: u16| c == 0xFFFF || g == 0;
    l.trans += 1;
    let built = match guard(|| wc::Cmap::from_mappings(input)) {
        Ok(Ok(c)) => {
            if expect_conflict {
                run.violation(
                    "Cmap::from_mappings accepts a character mapped to two different glyphs",
                    &format!("{d}"),
                    case(),
                );
                return;
            }
            c
        }
        Ok(Err(e)) => {
            if !expect_conflict {
                run.violation(
                    &format!("Cmap::from_mappings reports a conflict for a conflict-free mapping ({family})"),
                    &format!("{e}"),
                    case(),
                );
            } else {
                let mut h = Fnv::new();
                h.str("conflict");
                h.str(&format!("{e}"));
                l.all.insert(h.finish());
                l.nontrivial.insert(h.finish());
            }
            return;
        }
        Err(p) => {
            // known shape: the glyph-id array of a range-offset segment lies more than 65535 bytes
            // behind its idRangeOffset word (`id_range_offset.try_into().unwrap()`)
            let huge = m.iter().filter(|p| p.0 <= 0xFFFF).count() > 8000;
            let id = if huge && p.message.contains("TryFromIntError") && p.file.ends_with("tables/cmap.rs") {
                ID_RANGE_OFFSET.to_string()
            } else {
                format!("Cmap::from_mappings panic ({family} input): {} in {}", p.kind(), p.site())
            };
            run.violation(
                &id,
                &format!("{d}: {} ({}:{})", p.message, p.file, p.line),
                case(),
            );
            return;
        }
    };
    l.trans += 1;
    let bytes = match guard(|| dump_table(&built)) {
        Ok(Ok(b)) => b,
        Ok(Err(e)) => {
            // a clean refusal of an over-large table is acceptable ("error or be correct")
            let mut h = Fnv::new();
            h.str("refused");
            h.str(&family);
            l.all.insert(h.finish());
            run.count(&format!("F5.refused_by_dump_table.{family}"), 1);
            let _ = e;
            return;
        }
        Err(p) => {
            let id = if p.message.starts_with("cmap4 overflow") {
                ID_CMAP4_LEN.to_string()
            } else {
                format!("Cmap compile panic ({family} input): {} in {}", p.kind(), p.site())
            };
            run.violation(
                &id,
                &format!("{d} ({} pairs): {} ({}:{})", m.len(), p.message, p.file, p.line),
                case(),
            );
            return;
        }
    };
    l.compiled += 1;
    let font_bytes = wrap_font(bytes);
    let r = guard(|| {
        let Ok(font) = FontRef::new(&font_bytes) else {
            run.violation(&format!("built font does not parse ({family} input)"), "", case());
            return;
        };
        let cmap = match font.cmap() {
            Ok(c) => c,
            Err(e) => {
                run.violation(&format!("compiled cmap does not parse ({family} input)"), &format!("{e}"), case());
                return;
            }
        };
        let charmap = Charmap::new(&font);
        let charmap_ix = MappingIndex::new(&font).charmap(&font);
        let mut lookups = 0u64;
        let mut budget = 3;
        for &(c, g) in &m {
            // the exempt characters themselves: any answer, but no panic
            let top = cmap.map_codepoint(c);
            let hi = charmap.map(c);
            if charmap_ix.map(c) != hi && budget > 0 {
                budget -= 1;
                run.violation(
                    &format!("MappingIndex::charmap().map differs from Charmap::new(..).map ({family} input, {})", region(c)),
                    &format!("{d}: U+{c:04X} -> {:?} vs {hi:?}", charmap_ix.map(c)),
                    case(),
                );
            }
            lookups += 2;
            if exempt(c, g) {
                continue;
            }
            if (top != Some(GlyphId::new(g as u32)) || hi != Some(GlyphId::new(g as u32))) && budget > 0 {
                budget -= 1;
                run.violation(
                    &format!("wrong answer for a mapped character ({family} input, {})", region(c)),
                    &format!("{d}: U+{c:04X} -> table {top:?}, Charmap {hi:?}, input {g}"),
                    case(),
                );
            }
            // unmapped neighbours
            for nb in [c.wrapping_sub(1), c + 1] {
                if nb == 0xFFFF || nb > 0x10FFFF || expected(&m, nb).is_some() {
                    continue;
                }
                // a binary search keyed by code point: m is sorted by (cp, gid), cp unique unless exempt
                lookups += 2;
                let t = cmap.map_codepoint(nb);
                if (!(t.is_none() || t == Some(GlyphId::NOTDEF)) || charmap.map(nb).is_some()) && budget > 0 {
                    budget -= 1;
                    run.violation(
                        &format!("glyph returned for an unmapped character ({family} input, {})", region(nb)),
                        &format!("{d}: U+{nb:04X} -> {t:?}"),
                        case(),
                    );
                }
            }
        }
        let want: Vec<(u32, u32)> = m.iter().filter(|(c, g)| !exempt(*c, *g)).map(|(c, g)| (*c, *g as u32)).collect();
        let exempt_cps: Vec<u32> = m.iter().filter(|(c, g)| exempt(*c, *g)).map(|p| p.0).collect();
        let got: Vec<(u32, u32)> = charmap
            .mappings()
            .take(m.len() + 70_000)
            .map(|(c, g)| (c, g.to_u32()))
            .filter(|e| !exempt_cps.contains(&e.0) && e.0 != 0xFFFF)
            .collect();
        if let Some((id, detail)) = diff_enumeration(&got, &want) {
            run.violation(&format!("Charmap::mappings {id} ({family} input)"), &format!("{d}: {detail}"), case());
        }
        l.lookups += lookups;
        l.trans += lookups + 1;
        let mut h = Fnv::new();
        h.str(&family);
        h.u64(font_bytes.len() as u64);
        h.u64(m.len() as u64);
        l.all.insert(h.finish());
        l.nontrivial.insert(h.finish());
    });
    if let Err(p) = r {
        run.violation(
            &format!("cmap reader panic ({family} input): {} in {}", p.kind(), p.site()),
            &format!("{d}: {} ({}:{})", p.message, p.file, p.line),
            case(),
        );
    }
}

fn edge_family(run: &Run) {
    let mut cases: Vec<Value> = vec![];
    for supp in [false, true] {
        for n in 0..3 {
            cases.push(json!({"family":"dup","n":n,"supp":supp}));
        }
        for n in 0..6 {
            for g in [0, 1] {
                cases.push(json!({"family":"conflict","n":n,"g":g,"supp":supp}));
            }
            cases.push(json!({"family":"gid0","n":n,"supp":supp}));
        }
        for n in 0..2 {
            for g in [0u16, 1, 4, 5, 0xFFFE] {
                cases.push(json!({"family":"ffff","n":n,"g":g,"supp":supp}));
            }
        }
        // format-4 length limit: 16 + 8 (n + 1) bytes crosses 65535 between n = 8188 and 8189
        let iso: Vec<usize> = match run.tier {
            Tier::Quick => vec![1, 100, 4095, 4096, 8187, 8188, 8189, 8190, 20000],
            Tier::Thorough => (8180..8196).chain([1, 100, 4095, 4096, 16383, 16384, 20000, 31000]).collect(),
        };
        for n in iso {
            cases.push(json!({"family":"isolated","n":n,"supp":supp}));
        }
        // one range-offset segment: 16 + 16 + 2 n bytes crosses 65535 between n = 32751 and 32752
        for n in [100usize, 32750, 32751, 32752, 32753, 40000] {
            cases.push(json!({"family":"scrambled","n":n,"supp":supp}));
        }
        for g in 0..3 {
            cases.push(json!({"family":"allbmp","g":g,"supp":supp}));
        }
        if !supp {
            for n in [65535usize, 65536, 65537] {
                cases.push(json!({"family":"isolated_supp","n":n,"supp":false}));
            }
        }
    }
    run.bound("F5.families", json!(["dup (identical pairs repeated)", "conflict (must be Err)", "gid0 target (no panic, others exact)", "U+FFFF as input (no panic, others exact)", "isolated n (n+1 segments)", "scrambled run of n (one range-offset segment)", "all BMP scalars (in order / reversed / stride-2 glyphs)", "isolated_supp n in {65535, 65536, 65537} (n format-12 groups)"]));
    run.count("F5.descriptions", cases.len() as u64);
    // small descriptions first and sequentially (so that the replay written for an identity is the
    // smallest failing description), the large ones in parallel
    let size = |d: &Value| d["n"].as_u64().unwrap_or(0) + if d["family"] == "allbmp" { 1 << 20 } else { 0 };
    cases.sort_by_key(|d| (size(d), d["supp"].as_bool().unwrap_or(false)));
    let split = cases.iter().position(|d| size(d) > 9000).unwrap_or(cases.len());
    let mut locals: Vec<Local> = vec![];
    for d in &cases[..split] {
        let mut l = Local::new();
        check_edge(run, d, &mut l);
        locals.push(l);
    }
    locals.extend(
        cases[split..]
            .par_iter()
            .map(|d| {
                let mut l = Local::new();
                check_edge(run, d, &mut l);
                l
            })
            .collect::<Vec<_>>(),
    );
    for l in locals {
        l.merge(run, "F5");
    }
    run.sample(json!({"kind":"edge","family":"isolated","n":8188,"supp":false}));
}

// ---------------------------------------------------------------------------

/// Safety net around a whole family: every per-case call into the library is already guarded, but if
/// anything still panics (also inside worker threads) the run must end with a verdict (exit 1), never
/// with a harness stop.
fn family(run: &Run, name: &str, f: impl FnOnce()) {
    let t0 = run.elapsed();
    let r = guard(f);
    // reporting only; no decision depends on it
    run.extra(&format!("wall_s.{name}"), json!(((run.elapsed() - t0) * 100.0).round() / 100.0));
    if let Err(p) = r {
        run.violation(
            &format!("panic outside the per-case guards (family {name}): {} in {}", p.kind(), p.site()),
            &format!("{} ({}:{})", p.message, p.file, p.line),
            json!({"kind": "family", "family": name}),
        );
    }
}

fn body(run: &Run, replay: Option<&Value>) {
    run.rule("a case is one input mapping (sorted (code point, glyph id) list) or one Cmap14 description; its observation is the compiled segment structure (format-4 start/end/delta/rangeOffset vectors, format-12 groups, encoding records) or the expanded sequence list; non-trivial = at least one mapping/sequence was encoded and the table compiled; distinct = distinct structures");
    run.assume("the oracle is the input mapping itself; the wrapping font has maxp.numGlyphs = 0xFFFF so every used glyph id (<= 0xFFFE) is below the glyph count");
    run.assume("U+FFFF is never an input; the format-4 sentinel entry (U+FFFF -> glyph 0) is filtered from Cmap4::iter; a lookup of U+FFFF must answer no glyph / glyph 0");
    run.assume("Cmap14 inputs keep default ranges and non-default characters of one selector disjoint; sequence enumerations are compared as sets");
    if let Some(case) = replay {
        let mut l = Local::new();
        COMPOSITION.with(|c| c.set(case["composition"].as_u64().unwrap_or(0) as u8));
        match case["kind"].as_str() {
            Some("map") => {
                let m: Mapping = case["mapping"]
                    .as_array()
                    .cloned()
                    .unwrap_or_default()
                    .iter()
                    .map(|p| (p[0].as_u64().unwrap() as u32, p[1].as_u64().unwrap() as u16))
                    .collect();
                check_mapping(run, &m, case["full_bmp"].as_bool().unwrap_or(false), &mut l);
            }
            Some("uvs") => check_uvs(run, &uvs_from_json(case), &mut l),
            Some("edge") => check_edge(run, case, &mut l),
            Some("uvs_counts") => check_uvs_counts(run, case, &mut l),
            Some("selection") => audit::check_selection(run, case, &mut l),
            Some("hand4") => audit::check_hand4(run, case, &mut l),
            Some("direct4") => println!("direct4 cases are re-run by the tier (F7, 9 cases)"),
            Some("combined") => {
                let base: Vec<(u32, u16)> = case["mapping"]
                    .as_array()
                    .cloned()
                    .unwrap_or_default()
                    .iter()
                    .map(|p| (p[0].as_u64().unwrap() as u32, p[1].as_u64().unwrap() as u16))
                    .collect();
                check_uvs_with(run, &uvs_from_json(case), &base, case["pos"].as_u64().unwrap_or(1) as usize, true, &mut l);
            }
            _ => run.machinery_error("unknown replay kind"),
        }
        return;
    }
    // determinism self-test: the same small cases twice, identical digests
    {
        let probe: Vec<Mapping> = vec![
            vec![(0x20, 1)],
            vec![(0x20, 1), (0x21, 2), (0x23, 1)],
            vec![(0xFFFE, 2), (0x10000, 1)],
        ];
        let mut a = Local::new();
        let mut b = Local::new();
        for m in &probe {
            check_mapping(run, m, false, &mut a);
            check_mapping(run, m, false, &mut b);
        }
        let mut da: Vec<u64> = a.all.iter().copied().collect();
        let mut db: Vec<u64> = b.all.iter().copied().collect();
        da.sort();
        db.sort();
        if da != db || da.len() != 3 {
            run.machinery_error("determinism self-test: repeated cases gave different structures");
            return;
        }
    }
    family(run, "point_family", || point_family(run));
    family(run, "run_family", || run_family(run));
    family(run, "block_family", || block_family(run));
    family(run, "uvs_family", || uvs_family(run));
    family(run, "combined_family", || combined_family(run));
    family(run, "direct_format4_family", || direct_format4_family(run));
    family(run, "uvs_counts_family", || uvs_counts_family(run));
    family(run, "edge_family", || edge_family(run));
    family(run, "composition_family", || composition_family(run));
    family(run, "selection_family", || audit::selection_family(run));
    family(run, "handbuilt4_family", || audit::handbuilt4_family(run));
    family(run, "delta_boundary_family", || audit::delta_boundary_family(run));
    family(run, "uvs_plane16_family", || audit::uvs_plane16_family(run));
}
