//! Families added by the coverage-gap audit (AUDIT.md):
//!  F10 sub-table selection: every set of <= 3 encoding-record kinds (12 kinds: Unicode BMP / full,
//!      ISO, Windows symbol / BMP / full, and kinds that are not Unicode maps) x 3 mappings, plus
//!      records whose sub-table format is not the usual one for their kind; the expected selection is
//!      computed from the documented rule (symbol > full repertoire > BMP), incl. the symbol fold
//!      U+0000..U+00FF -> U+F000..U+F0FF
//!  F11 hand-encoded format-4 sub-tables (generated write type): range-offset segments with non-zero
//!      idDelta, explicit 0 entries, modulo-65536 wrap, shared / trailing glyphIdArray entries, with and
//!      without a following format 12 — oracle: the mapping the encoding denotes by construction, and
//!      the from-spec decoder
//!  F12 delta boundary: every (code point, glyph) with glyph - code point in {+-32766 .. +-32770}
//!      around 16-bit code points incl. 0x7FFF / 0x8000, full-BMP look-ups
//!  F13 variation sequences whose base characters lie at the 24-bit / plane-16 boundaries

use super::*;

#[derive(Clone, Copy, PartialEq, Debug)]
enum Class {
    Bmp,
    Full,
    Symbol,
    Ignored,
}

/// (platformID, encodingID, class) — classes from the OpenType encoding tables: Unicode platform
/// encodings 0..3 and ISO 10646 are 16-bit Unicode, (0,4) and (3,10) full repertoire, (3,0) symbol;
/// Macintosh Roman, Windows ShiftJIS and Custom are not Unicode maps.
const KINDS: [(u16, u16, Class); 12] = [
    (0, 0, Class::Bmp),
    (0, 1, Class::Bmp),
    (0, 2, Class::Bmp),
    (0, 3, Class::Bmp),
    (0, 4, Class::Full),
    (1, 0, Class::Ignored),
    (2, 1, Class::Bmp),
    (3, 0, Class::Symbol),
    (3, 1, Class::Bmp),
    (3, 2, Class::Ignored),
    (3, 10, Class::Full),
    (4, 0, Class::Ignored),
];

const DECOY: (u32, u16) = (0x61, 77);

fn selection_bases() -> Vec<Mapping> {
    // 0x41 and 0xF041 both mapped (the direct answer wins), 0x42 / 0x00 / 0xFF only through the fold,
    // 0x100 not folded although 0xF100 is mapped
    let a: Mapping = vec![
        (0x41, 5),
        (0xF000, 30),
        (0xF041, 20),
        (0xF042, 21),
        (0xF0FF, 22),
        (0xF100, 23),
        (0x10000, 40),
        (0x10041, 42),
        (0x10FFFF, 41),
    ];
    let b: Mapping = a.iter().copied().filter(|p| p.0 <= 0xFFFF).collect();
    let c: Mapping = vec![(0x41, 5), (0x42, 6), (0xFF, 9), (0x100, 3)];
    vec![a, b, c]
}

fn f4_of(m: &[(u32, u16)]) -> Option<wc::CmapSubtable> {
    let built = wc::Cmap::from_mappings(
        m.iter().filter(|p| p.0 <= 0xFFFF).map(|(c, g)| (char::from_u32(*c).unwrap(), GlyphId::new(*g as u32))),
    )
    .ok()?;
    built.encoding_records.first().map(|r| (*r.subtable).clone())
}

/// one group per character: the plainest valid format 12
fn f12_of(m: &[(u32, u16)]) -> wc::CmapSubtable {
    wc::CmapSubtable::format_12(0, m.iter().map(|(c, g)| wc::SequentialMapGroup::new(*c, *c, *g as u32)).collect())
}

pub fn check_selection(run: &Run, d: &Value, l: &mut Local) {
    l.evals += 1;
    let bases = selection_bases();
    let m = &bases[d["base"].as_u64().unwrap_or(0) as usize % bases.len()];
    let kinds: Vec<usize> = d["kinds"].as_array().cloned().unwrap_or_default().iter().map(|k| k.as_u64().unwrap() as usize % KINDS.len()).collect();
    let crossed = d["crossed"].as_bool().unwrap_or(false);
    let case = || {
        let mut c = d.clone();
        c["kind"] = json!("selection");
        c
    };
    let bmp: Mapping = m.iter().copied().filter(|p| p.0 <= 0xFFFF).collect();
    // content of a record: true = format 12 holding all of m, false = format 4 holding the BMP part
    let is12 = |cl: Class| match cl {
        Class::Full => !crossed,
        Class::Bmp | Class::Symbol => crossed,
        Class::Ignored => false,
    };
    let r = guard(|| {
        let f4 = f4_of(m).expect("format 4 of the base");
        let decoy = f4_of(&[DECOY]).expect("decoy");
        let f12 = f12_of(m);
        let recs: Vec<wc::EncodingRecord> = kinds
            .iter()
            .map(|&k| {
                let (p, e, cl) = KINDS[k];
                let sub = if cl == Class::Ignored { decoy.clone() } else if is12(cl) { f12.clone() } else { f4.clone() };
                wc::EncodingRecord::new(wc::PlatformId::new(p), e, sub)
            })
            .collect();
        dump_table(&wc::Cmap::new(recs))
    });
    l.trans += 1;
    let bytes = match r {
        Ok(Ok(b)) => b,
        Ok(Err(e)) => {
            run.violation("cmap with re-labelled encoding records fails to compile", &format!("{e}"), case());
            return;
        }
        Err(p) => {
            run.violation(&format!("cmap with re-labelled encoding records: compile panic: {} in {}", p.kind(), p.site()), &p.message, case());
            return;
        }
    };
    l.compiled += 1;
    let font_bytes = wrap_font(bytes);
    // documented rule: symbol if available, else full repertoire, else BMP
    let pick = |cl: Class| kinds.iter().map(|&k| KINDS[k].2).find(|c| *c == cl);
    let selected = pick(Class::Symbol).or(pick(Class::Full)).or(pick(Class::Bmp));
    let content: Option<&Mapping> = selected.map(|cl| if is12(cl) { m } else { &bmp });
    let symbol = selected == Some(Class::Symbol);
    let hl = |c: u32| -> Option<u16> {
        let t = content?;
        expected(t, c).or_else(|| if symbol && c <= 0xFF { expected(t, c + 0xF000) } else { None })
    };
    let any12 = kinds.iter().any(|&k| KINDS[k].2 != Class::Ignored && is12(KINDS[k].2));
    let any = kinds.iter().any(|&k| KINDS[k].2 != Class::Ignored);
    let has_decoy = kinds.iter().any(|&k| KINDS[k].2 == Class::Ignored);
    let r = guard(|| {
        let Ok(font) = FontRef::new(&font_bytes) else {
            run.violation("built font does not parse (selection family)", "", case());
            return;
        };
        let cmap = match font.cmap() {
            Ok(c) => c,
            Err(e) => {
                run.violation("compiled cmap does not parse (selection family)", &format!("{e}"), case());
                return;
            }
        };
        let routes: [(&str, Charmap); 3] = [
            ("Charmap::new", Charmap::new(&font)),
            ("MappingIndex::charmap()", MappingIndex::new(&font).charmap(&font)),
            ("MetadataProvider::charmap()", font.charmap()),
        ];
        let names: Vec<String> = kinds.iter().map(|&k| format!("({},{})", KINDS[k].0, KINDS[k].1)).collect();
        let what = format!("records {names:?}{}", if crossed { " with the unusual sub-table format" } else { "" });
        for (name, cm) in &routes {
            if cm.has_map() != selected.is_some() || cm.is_symbol() != symbol || cm.has_variant_map() {
                run.violation(
                    &format!("{name}: has_map / is_symbol differ from the documented selection rule (symbol > full > BMP)"),
                    &format!("{what}: has_map {}, is_symbol {}, rule says {selected:?}", cm.has_map(), cm.is_symbol()),
                    case(),
                );
                return;
            }
        }
        let mut qs: Vec<u32> = (0..=0x101).chain(0xEFFF..=0xF101).collect();
        for &(c, _) in m.iter() {
            qs.extend([c - 1, c, c + 1, c + 0x10000]);
        }
        qs.extend([DECOY.0, DECOY.0 + 0xF000, 0xFFFF, 0x110000]);
        let mut budget = 3;
        for &c in &qs {
            let want = hl(c).map(|g| GlyphId::new(g as u32));
            for (name, cm) in &routes {
                l.lookups += 1;
                let got = cm.map(c);
                if got != want && budget > 0 {
                    budget -= 1;
                    let cls = match (symbol, c <= 0xFF, want.is_some()) {
                        (true, true, _) => "symbol map, U+0000..U+00FF (fold to U+F000..U+F0FF)".to_string(),
                        (true, false, _) => format!("symbol map, {}", region(c)),
                        (false, _, true) => format!("mapped character, {}", region(c)),
                        (false, _, false) => format!("unmapped character, {}", region(c)),
                    };
                    run.violation(
                        &format!("{name}.map wrong answer under the documented selection rule ({cls})"),
                        &format!("{what}: map(U+{c:04X}) = {got:?}, the selected {selected:?} sub-table says {want:?}"),
                        case(),
                    );
                }
            }
            // table level: any Unicode record may answer; the decoy character is exempt
            if c != DECOY.0 {
                let tl = if c <= 0xFFFF { if any { expected(m, c) } else { None } } else if any12 { expected(m, c) } else { None };
                let got = cmap.map_codepoint(c);
                l.lookups += 1;
                if !table_level_ok(got, tl) && budget > 0 {
                    budget -= 1;
                    run.violation(
                        &format!("Cmap::map_codepoint wrong answer with re-labelled encoding records ({})", region(c)),
                        &format!("{what}: U+{c:04X} -> {got:?}, expected {tl:?}"),
                        case(),
                    );
                }
            }
        }
        let want: Vec<(u32, u32)> = content.map(|t| t.iter().map(|(c, g)| (*c, *g as u32)).collect()).unwrap_or_default();
        for (name, cm) in &routes[..2] {
            let got: Vec<(u32, u32)> = cm.mappings().take(1000).map(|(c, g)| (c, g.to_u32())).collect();
            if let Some((id, detail)) = diff_enumeration(&got, &want) {
                run.violation(&format!("{name}.mappings {id} (selection family)"), &format!("{what}: {detail}"), case());
            }
        }
        l.trans += 4 * qs.len() as u64;
        let mut h = Fnv::new();
        h.str("selection");
        for &k in &kinds {
            h.u64(k as u64);
        }
        h.u64(crossed as u64);
        h.u64(want.len() as u64);
        h.u64(has_decoy as u64);
        l.all.insert(h.finish());
        if selected.is_some() {
            l.nontrivial.insert(h.finish());
        }
    });
    if let Err(p) = r {
        run.violation(&format!("cmap reader panic (selection family): {} in {}", p.kind(), p.site()), &format!("{} ({}:{})", p.message, p.file, p.line), case());
    }
}

pub fn selection_family(run: &Run) {
    run.bound("F10.record_kinds", json!(KINDS.iter().map(|k| format!("({},{}) {:?}", k.0, k.1, k.2)).collect::<Vec<_>>()));
    run.bound("F10.max_records", json!(3));
    run.bound("F10.mappings", json!(selection_bases().iter().map(|m| m.iter().map(|(c, g)| json!([c, g])).collect::<Vec<_>>()).collect::<Vec<_>>()));
    let n = KINDS.len();
    let mut sets: Vec<Vec<usize>> = vec![vec![]];
    for a in 0..n {
        sets.push(vec![a]);
    }
    for a in 0..n {
        for b in a + 1..n {
            sets.push(vec![a, b]);
        }
    }
    for a in 0..n {
        for b in a + 1..n {
            for c in b + 1..n {
                sets.push(vec![a, b, c]);
            }
        }
    }
    let mut cases: Vec<Value> = vec![];
    for base in 0..selection_bases().len() {
        for s in &sets {
            cases.push(json!({"base": base, "kinds": s, "crossed": false}));
        }
        // unusual formats: every single non-ignored kind, and the pairs (BMP kind, full kind)
        for a in 0..n {
            if KINDS[a].2 != Class::Ignored {
                cases.push(json!({"base": base, "kinds": [a], "crossed": true}));
            }
        }
        cases.push(json!({"base": base, "kinds": [3, 4], "crossed": true}));
        cases.push(json!({"base": base, "kinds": [8, 10], "crossed": true}));
        cases.push(json!({"base": base, "kinds": [7, 10], "crossed": true}));
    }
    run.count("F10.descriptions", cases.len() as u64);
    let locals: Vec<Local> = cases
        .par_chunks(64)
        .map(|ch| {
            let mut l = Local::new();
            for d in ch {
                check_selection(run, d, &mut l);
            }
            l
        })
        .collect();
    for l in locals {
        l.merge(run, "F10");
    }
    run.sample(json!({"kind":"selection","base":0,"kinds":[7, 10],"crossed":false}));
}

// ---------------------------------------------------------------------------
// F11: hand-encoded format 4
// ---------------------------------------------------------------------------

/// segment shapes: (idDelta, Some(glyphIdArray entries) | None = delta segment of the given length)
fn shapes() -> Vec<(i16, Option<Vec<u16>>, u16)> {
    vec![
        (7, None, 2),
        (0x7FFF, None, 1),
        (-0x8000, None, 2),
        (0, Some(vec![9, 5, 7]), 3),
        (1, Some(vec![9, 0, 7]), 3),
        (-1, Some(vec![1, 5]), 2),
        (0x7FFF, Some(vec![0x8001, 2]), 2),
        (-0x8000, Some(vec![0x7FFE, 0x8001]), 2),
        (0, Some(vec![3]), 1),
    ]
}

pub fn check_hand4(run: &Run, d: &Value, l: &mut Local) {
    let sh = shapes();
    let segs: Vec<usize> = d["segs"].as_array().cloned().unwrap_or_default().iter().map(|k| k.as_u64().unwrap() as usize % sh.len()).collect();
    let gaps: Vec<u32> = d["gaps"].as_array().cloned().unwrap_or_default().iter().map(|k| k.as_u64().unwrap() as u32).collect();
    let place = d["place"].as_u64().unwrap_or(0);
    let share = d["share"].as_bool().unwrap_or(false);
    let trailing = d["trailing"].as_bool().unwrap_or(false);
    let with12 = d["with12"].as_bool().unwrap_or(false);
    let total: u32 = segs.iter().map(|&s| sh[s].2 as u32).sum::<u32>() + gaps.iter().sum::<u32>();
    let base: u32 = match place {
        0 => 0x41,
        1 => 0xFFFE - (total - 1),
        _ => 0x7FFF, // the first segment starts at 0x7FFF: code points on both sides of the i16 sign bit
    };
    let seg_count = segs.len() + 1;
    let (mut end, mut start, mut delta, mut ro, mut ids): (Vec<u16>, Vec<u16>, Vec<i16>, Vec<u16>, Vec<u16>) = Default::default();
    let mut m: Mapping = vec![];
    let mut cp = base;
    let mut prev_ids_at: Option<(usize, usize)> = None; // (first index, len) of the previous range-offset segment
    for (i, &s) in segs.iter().enumerate() {
        if i > 0 {
            cp += gaps.get(i - 1).copied().unwrap_or(0);
        }
        let (dl, arr, len) = &sh[s];
        start.push(cp as u16);
        end.push((cp + *len as u32 - 1) as u16);
        delta.push(*dl);
        match arr {
            None => {
                ro.push(0);
                for k in 0..*len as u32 {
                    let g = ((cp + k) as u16).wrapping_add(*dl as u16);
                    if g != 0 {
                        m.push((cp + k, g));
                    }
                }
                prev_ids_at = None;
            }
            Some(a) => {
                // a segment may point at entries another segment also uses (here: the previous one's)
                let first = match prev_ids_at {
                    Some((at, plen)) if share && a.len() <= plen => at,
                    _ => {
                        ids.extend(a.iter().copied());
                        ids.len() - a.len()
                    }
                };
                // bytes from this idRangeOffset word to its first glyph id
                ro.push((2 * ((seg_count - i) + first)) as u16);
                for k in 0..*len as usize {
                    let raw = ids[first + k];
                    let g = if raw == 0 { 0 } else { raw.wrapping_add(*dl as u16) };
                    if g != 0 {
                        m.push((cp + k as u32, g));
                    }
                }
                prev_ids_at = Some((first, a.len()));
            }
        }
        cp += *len as u32;
    }
    end.push(0xFFFF);
    start.push(0xFFFF);
    delta.push(1);
    ro.push(0);
    if trailing {
        ids.extend([0x1234, 0]);
    }
    let n_ids = ids.len();
    // glyph 0xFFFF is not below the wrapper font's glyph count (0xFFFF): outside the statement
    if m.iter().any(|p| p.1 == 0xFFFF) {
        return;
    }
    let mut all = m.clone();
    if with12 {
        all.extend([(0x10000, 50), (0x10001, 49)]);
    }
    let case = || {
        let mut c = d.clone();
        c["kind"] = json!("hand4");
        c
    };
    let r = guard(|| {
        let f4 = wc::CmapSubtable::format_4(0, end.clone(), start.clone(), delta.clone(), ro.clone(), ids.clone());
        let mut recs = vec![wc::EncodingRecord::new(wc::PlatformId::Unicode, 3, f4.clone())];
        if with12 {
            recs.push(wc::EncodingRecord::new(wc::PlatformId::Unicode, 4, f12_of(&all)));
        }
        recs.push(wc::EncodingRecord::new(wc::PlatformId::Windows, 1, f4));
        if with12 {
            recs.push(wc::EncodingRecord::new(wc::PlatformId::Windows, 10, f12_of(&all)));
        }
        dump_table(&wc::Cmap::new(recs))
    });
    let bytes = match r {
        Ok(Ok(b)) => b,
        Ok(Err(e)) => {
            l.evals += 1;
            run.violation("hand-encoded Cmap4 (range-offset segments) fails to compile", &format!("{e}"), case());
            return;
        }
        Err(p) => {
            l.evals += 1;
            run.violation(&format!("hand-encoded Cmap4 compile panic: {} in {}", p.kind(), p.site()), &p.message, case());
            return;
        }
    };
    l.compiled += 1;
    l.evals += 1;
    let font_bytes = wrap_font(bytes);
    CASE_OVERRIDE.with(|c| *c.borrow_mut() = Some(case()));
    HAND.with(|h| h.set(Some(n_ids)));
    let r = guard(|| check_compiled(run, &all, false, &font_bytes, l));
    HAND.with(|h| h.set(None));
    CASE_OVERRIDE.with(|c| *c.borrow_mut() = None);
    if let Err(p) = r {
        run.violation(&format!("cmap reader panic (hand-encoded format 4): {} in {}", p.kind(), p.site()), &format!("{} ({}:{})", p.message, p.file, p.line), case());
    }
}

pub fn handbuilt4_family(run: &Run) {
    let sh = shapes();
    let max_segs = run.tier.pick(2usize, 3usize);
    run.bound("F11.segment_shapes", json!(sh.iter().map(|s| json!({"idDelta": s.0, "glyphIdArray": s.1, "len": s.2})).collect::<Vec<_>>()));
    run.bound("F11.max_segments", json!(max_segs));
    run.bound("F11.placements", json!(["0x41", "ending at 0xFFFE", "starting at 0x7FFF"]));
    run.bound("F11.options", json!(["gap 0/1 between segments", "shared glyphIdArray entries", "two trailing unused entries", "format 12 behind the format 4"]));
    let mut lists: Vec<(Vec<usize>, Vec<u32>)> = vec![];
    fn rec(cur: &mut Vec<usize>, gaps: &mut Vec<u32>, n: usize, max: usize, out: &mut Vec<(Vec<usize>, Vec<u32>)>) {
        if !cur.is_empty() {
            out.push((cur.clone(), gaps.clone()));
        }
        if cur.len() == max {
            return;
        }
        for s in 0..n {
            if cur.is_empty() {
                cur.push(s);
                rec(cur, gaps, n, max, out);
                cur.pop();
            } else {
                for g in [0u32, 1] {
                    cur.push(s);
                    gaps.push(g);
                    rec(cur, gaps, n, max, out);
                    gaps.pop();
                    cur.pop();
                }
            }
        }
    }
    rec(&mut vec![], &mut vec![], sh.len(), max_segs, &mut lists);
    let mut cases: Vec<Value> = vec![];
    for (segs, gaps) in &lists {
        for place in 0..3 {
            for share in [false, true] {
                // sharing needs two consecutive range-offset segments, the second not longer
                let can_share = segs.windows(2).any(|w| matches!((&sh[w[0]].1, &sh[w[1]].1), (Some(a), Some(b)) if b.len() <= a.len()));
                if share && !can_share {
                    continue;
                }
                for trailing in [false, true] {
                    for with12 in [false, true] {
                        cases.push(json!({"segs": segs, "gaps": gaps, "place": place, "share": share, "trailing": trailing, "with12": with12}));
                    }
                }
            }
        }
    }
    run.count("F11.descriptions", cases.len() as u64);
    let locals: Vec<Local> = cases
        .par_chunks(64)
        .map(|ch| {
            let mut l = Local::new();
            for d in ch {
                check_hand4(run, d, &mut l);
            }
            l
        })
        .collect();
    for l in locals {
        l.merge(run, "F11");
    }
    run.sample(json!({"kind":"hand4","segs":[4, 5],"gaps":[0],"place":0,"share":true,"trailing":false,"with12":false}));
}

// ---------------------------------------------------------------------------
// F12: idDelta boundary
// ---------------------------------------------------------------------------

pub fn delta_boundary_family(run: &Run) {
    let cps: [u32; 9] = [0x20, 0x7FFE, 0x7FFF, 0x8000, 0x8001, 0x8002, 0xFFFC, 0xFFFD, 0xFFFE];
    let deltas: [i64; 12] = [32766, 32767, 32768, 32769, -32766, -32767, -32768, -32769, -32770, 65534, -65534, 0];
    run.bound("F12.code_points", json!(cps.iter().map(|c| format!("{c:#x}")).collect::<Vec<_>>()));
    run.bound("F12.glyph_minus_code_point", json!(deltas));
    run.bound("F12.shapes", json!(["one character (full-BMP look-up)", "run of two", "one character + U+0041 + U+10000"]));
    let mut cases: Vec<Mapping> = vec![];
    for cp in cps {
        for d in deltas {
            let g = cp as i64 + d;
            if !(1..=0xFFFE).contains(&g) {
                continue;
            }
            let g = g as u16;
            cases.push(vec![(cp, g)]);
            if cp < 0xFFFE && g < 0xFFFE {
                cases.push(vec![(cp, g), (cp + 1, g + 1)]);
            }
            let mut v = vec![(0x41, 3), (cp, g), (0x10000, 4)];
            v.sort();
            cases.push(v);
        }
    }
    // F12b: the surrogate gap (U+D7FF and U+E000 are adjacent scalar values but not adjacent code
    // points: never one segment / group) and runs across the 16-bit sign boundary 0x7FFF / 0x8000
    let pats: [fn(u32) -> u16; 3] = [|i| 10 + i as u16, |i| 30 - i as u16, |i| 50 + 2 * i as u16];
    for quad in [[0xD7FEu32, 0xD7FF, 0xE000, 0xE001], [0x7FFE, 0x7FFF, 0x8000, 0x8001]] {
        for mask in 1u32..16 {
            for pat in pats {
                let m: Mapping = (0..4u32).filter(|i| mask >> i & 1 == 1).map(|i| (quad[i as usize], pat(i))).collect();
                cases.push(m);
            }
        }
    }
    run.bound("F12b.quads", json!(["D7FE D7FF E000 E001", "7FFE 7FFF 8000 8001"]));
    run.bound("F12b.glyph_patterns", json!(["ascending", "descending", "stride 2"]));
    run.count("F12.mappings", cases.len() as u64);
    let locals: Vec<Local> = cases
        .par_iter()
        .map(|m| {
            let mut l = Local::new();
            check_mapping(run, m, m.len() == 1 || m[0].0 == 0xD7FE || m[0].0 == 0x7FFE && m.len() == 4, &mut l);
            l
        })
        .collect();
    for l in locals {
        l.merge(run, "F12");
    }
}

// ---------------------------------------------------------------------------
// F13: variation sequences at the plane-16 / 24-bit boundaries
// ---------------------------------------------------------------------------

pub fn uvs_plane16_family(run: &Run) {
    let defs: Vec<Option<Vec<(u32, u8)>>> = vec![
        None,
        Some(vec![(0xFFFFF, 1)]),
        Some(vec![(0x10FFFE, 1)]),
        Some(vec![(0x10FFFF, 0)]),
        Some(vec![(0xFFFF, 1)]),
        Some(vec![(0x40, 255), (0x10FFFE, 0)]),
        Some(vec![(0x30, 0), (0x32, 0), (0x40, 1), (0x4E00, 0), (0x10000, 1), (0x100000, 0)]),
    ];
    let nds: Vec<Option<Vec<(u32, u16)>>> = vec![
        None,
        Some(vec![(0x100000, 5)]),
        Some(vec![(0x10FFFF, 0xFFFE)]),
        Some(vec![(0xFFFFF, 5), (0x100000, 6)]),
        Some(vec![(0x41, 5), (0x10FFFF, 7)]),
        Some(vec![(0x2F, 1), (0x31, 2), (0x33, 3), (0x3F, 4), (0x42, 5), (0x4E01, 6), (0x10002, 7), (0x10FFFE, 8)]),
    ];
    run.bound("F13.default_range_lists", json!(defs));
    run.bound("F13.nondefault_lists", json!(nds));
    run.bound("F13.selectors", json!(["0xFE00", "0xE01EF", "both"]));
    let mut l = Local::new();
    let clash = |d: &Option<Vec<(u32, u8)>>, n: &Option<Vec<(u32, u16)>>| match (d, n) {
        (Some(d), Some(n)) => n.iter().any(|(c, _)| d.iter().any(|(s, k)| *c >= *s && *c <= *s + *k as u32)),
        _ => false,
    };
    for d in &defs {
        for n in &nds {
            if clash(d, n) {
                continue;
            }
            for sels in [vec![0xFE00u32], vec![0xE01EF], vec![0xFE00, 0xE01EF]] {
                let spec: Vec<SelSpec> = sels.iter().map(|s| SelSpec { sel: *s, def: d.clone(), nondef: n.clone() }).collect();
                check_uvs(run, &spec, &mut l);
            }
        }
    }
    l.merge(run, "F13");
}
