//! From-specification decoder of compiled `cmap` bytes (OpenType 1.9 "cmap"), written against the
//! specification text only: no type or function of read-fonts / write-fonts is used here. It is the
//! independent oracle of the check: the library's readers and writers are compared with it, so that an
//! error shared by the generated reader and the generated writer (or compensated between them) is seen.
//!
//! All accessors are bounds checked and return `Err(text)` on anything the specification forbids.

pub fn be16(b: &[u8], o: usize) -> Result<u16, String> {
    b.get(o..o + 2)
        .map(|s| u16::from_be_bytes([s[0], s[1]]))
        .ok_or_else(|| format!("read of 2 bytes at {o} beyond the {}-byte table", b.len()))
}

pub fn be24(b: &[u8], o: usize) -> Result<u32, String> {
    b.get(o..o + 3)
        .map(|s| u32::from_be_bytes([0, s[0], s[1], s[2]]))
        .ok_or_else(|| format!("read of 3 bytes at {o} beyond the {}-byte table", b.len()))
}

pub fn be32(b: &[u8], o: usize) -> Result<u32, String> {
    b.get(o..o + 4)
        .map(|s| u32::from_be_bytes([s[0], s[1], s[2], s[3]]))
        .ok_or_else(|| format!("read of 4 bytes at {o} beyond the {}-byte table", b.len()))
}

#[derive(Clone, Copy, Debug, PartialEq)]
pub struct Rec {
    pub platform: u16,
    pub encoding: u16,
    pub offset: usize,
    pub format: u16,
}

/// cmap header: version 0, numTables, then numTables records of (platformID, encodingID, Offset32).
pub fn records(cmap: &[u8]) -> Result<Vec<Rec>, String> {
    let mut out = vec![];
    records_into(cmap, &mut out)?;
    Ok(out)
}

/// same, into a caller-owned buffer (the hot loops reuse one per thread)
pub fn records_into(cmap: &[u8], out: &mut Vec<Rec>) -> Result<(), String> {
    out.clear();
    let version = be16(cmap, 0)?;
    if version != 0 {
        return Err(format!("cmap version {version}"));
    }
    let n = be16(cmap, 2)? as usize;
    for i in 0..n {
        let o = 4 + 8 * i;
        let offset = be32(cmap, o + 4)? as usize;
        if offset < 4 + 8 * n {
            return Err(format!("record {i}: sub-table offset {offset} inside the header"));
        }
        out.push(Rec { platform: be16(cmap, o)?, encoding: be16(cmap, o + 2)?, offset, format: be16(cmap, offset)? });
    }
    Ok(())
}

/// Format 4 header and array consistency. `exact_len`: Some(total number of glyphIdArray entries) when the
/// caller knows it; the length field must then be exactly 16 + 8 segCount + 2 entries.
pub fn check4(cmap: &[u8], off: usize, glyph_ids: Option<usize>) -> Result<(), String> {
    if be16(cmap, off)? != 4 {
        return Err("format field is not 4".into());
    }
    let length = be16(cmap, off + 2)? as usize;
    let language = be16(cmap, off + 4)?;
    let seg_x2 = be16(cmap, off + 6)? as usize;
    if seg_x2 == 0 || seg_x2 % 2 != 0 {
        return Err(format!("segCountX2 = {seg_x2}"));
    }
    let seg = seg_x2 / 2;
    if language != 0 {
        return Err(format!("language field {language} in a Unicode sub-table"));
    }
    let log2 = (usize::BITS - 1 - seg.leading_zeros()) as usize;
    let want = (2 * (1usize << log2), log2, 2 * seg - 2 * (1usize << log2));
    let got = (be16(cmap, off + 8)? as usize, be16(cmap, off + 10)? as usize, be16(cmap, off + 12)? as usize);
    if got != want {
        return Err(format!("segCount {seg}: raw (searchRange, entrySelector, rangeShift) = {got:?}, specification {want:?}"));
    }
    if length < 16 + 8 * seg || off + length > cmap.len() {
        return Err(format!("length field {length} for {seg} segments in a {}-byte table at {off}", cmap.len()));
    }
    if let Some(k) = glyph_ids {
        if length != 16 + 8 * seg + 2 * k {
            return Err(format!("length field {length}, {seg} segments and {k} glyph ids need {}", 16 + 8 * seg + 2 * k));
        }
    }
    let pad = be16(cmap, off + 14 + 2 * seg)?;
    if pad != 0 {
        return Err(format!("reservedPad = {pad}"));
    }
    let end = |i: usize| be16(cmap, off + 14 + 2 * i);
    let start = |i: usize| be16(cmap, off + 16 + 2 * seg + 2 * i);
    if end(seg - 1)? != 0xFFFF {
        return Err(format!("last endCode is {:#x}, not 0xFFFF", end(seg - 1)?));
    }
    for i in 0..seg {
        if start(i)? > end(i)? {
            return Err(format!("segment {i}: startCode {:#x} > endCode {:#x}", start(i)?, end(i)?));
        }
        if i > 0 && end(i - 1)? >= start(i)? {
            return Err(format!("segment {i}: startCode {:#x} not above the previous endCode {:#x}", start(i)?, end(i - 1)?));
        }
    }
    Ok(())
}

/// Format 4 look-up, the specification's procedure: find the first endCode >= c; if its startCode <= c
/// use idDelta / idRangeOffset; otherwise (and for a 0 entry of glyphIdArray) the missing glyph 0.
/// endCodes ascending is a precondition (check4) — the first endCode >= c is found by bisection.
pub fn lookup4(cmap: &[u8], off: usize, c: u32) -> Result<u16, String> {
    if c > 0xFFFF {
        return Ok(0);
    }
    let c = c as u16;
    let seg = be16(cmap, off + 6)? as usize / 2;
    let length = be16(cmap, off + 2)? as usize;
    let (mut lo, mut hi) = (0usize, seg);
    while lo < hi {
        let mid = (lo + hi) / 2;
        if be16(cmap, off + 14 + 2 * mid)? >= c {
            hi = mid;
        } else {
            lo = mid + 1;
        }
    }
    if lo == seg {
        return Ok(0);
    }
    let i = lo;
    let start = be16(cmap, off + 16 + 2 * seg + 2 * i)?;
    if start > c {
        return Ok(0);
    }
    let delta = be16(cmap, off + 16 + 4 * seg + 2 * i)?; // int16, used modulo 65536
    let ro_at = off + 16 + 6 * seg + 2 * i;
    let ro = be16(cmap, ro_at)? as usize;
    if ro == 0 {
        return Ok(c.wrapping_add(delta));
    }
    // "idRangeOffset[i]/2 + (c - startCode[i]) + &idRangeOffset[i]" in units of uint16
    let at = ro_at + ro + 2 * (c - start) as usize;
    if at + 2 > off + length {
        return Err(format!("glyph id address {at} of U+{c:04X} beyond the sub-table (offset {off}, length {length})"));
    }
    let g = be16(cmap, at)?;
    Ok(if g == 0 { 0 } else { g.wrapping_add(delta) })
}

pub fn check12(cmap: &[u8], off: usize) -> Result<(), String> {
    if be16(cmap, off)? != 12 {
        return Err("format field is not 12".into());
    }
    if be16(cmap, off + 2)? != 0 {
        return Err("reserved field of format 12 is not 0".into());
    }
    let length = be32(cmap, off + 4)? as usize;
    let language = be32(cmap, off + 8)?;
    let n = be32(cmap, off + 12)? as usize;
    if language != 0 {
        return Err(format!("language field {language} in a Unicode sub-table"));
    }
    if length != 16 + 12 * n || off + length > cmap.len() {
        return Err(format!("length field {length} for {n} groups (needs {})", 16 + 12 * n));
    }
    let mut prev_end: Option<u32> = None;
    for i in 0..n {
        let s = be32(cmap, off + 16 + 12 * i)?;
        let e = be32(cmap, off + 20 + 12 * i)?;
        if s > e {
            return Err(format!("group {i}: startCharCode {s:#x} > endCharCode {e:#x}"));
        }
        if let Some(p) = prev_end {
            if s <= p {
                return Err(format!("group {i}: startCharCode {s:#x} not above the previous endCharCode {p:#x}"));
            }
        }
        prev_end = Some(e);
    }
    Ok(())
}

/// Format 12 look-up: the group with startCharCode <= c <= endCharCode gives startGlyphID + (c - start).
pub fn lookup12(cmap: &[u8], off: usize, c: u32) -> Result<u32, String> {
    let n = be32(cmap, off + 12)? as usize;
    let (mut lo, mut hi) = (0usize, n);
    while lo < hi {
        let mid = (lo + hi) / 2;
        if be32(cmap, off + 20 + 12 * mid)? >= c {
            hi = mid;
        } else {
            lo = mid + 1;
        }
    }
    if lo == n {
        return Ok(0);
    }
    let s = be32(cmap, off + 16 + 12 * lo)?;
    if s > c {
        return Ok(0);
    }
    Ok(be32(cmap, off + 24 + 12 * lo)?.wrapping_add(c - s))
}

/// Table-level answer in record order: the first format-4 / format-12 sub-table that maps c to a
/// non-zero glyph; 0 when none does.
pub fn lookup(cmap: &[u8], recs: &[Rec], c: u32) -> Result<u32, String> {
    for r in recs {
        let g = match r.format {
            4 => lookup4(cmap, r.offset, c)? as u32,
            12 => lookup12(cmap, r.offset, c)?,
            _ => 0,
        };
        if g != 0 {
            return Ok(g);
        }
    }
    Ok(0)
}

#[derive(Clone, Copy, Debug, PartialEq)]
pub enum Uvs {
    None,
    Default,
    Glyph(u16),
}

/// Format 14 look-up by linear scan (the specification only fixes the meaning, the order requirement
/// is checked on the way): selector record -> default ranges first, then non-default mappings.
/// Returns (answer, alternative when the character is in both lists).
pub fn lookup14(cmap: &[u8], off: usize, c: u32, sel: u32) -> Result<(Uvs, Uvs), String> {
    if be16(cmap, off)? != 14 {
        return Err("format field is not 14".into());
    }
    let n = be32(cmap, off + 6)? as usize;
    let mut prev: Option<u32> = None;
    let mut found: Option<(usize, usize)> = None;
    for i in 0..n {
        let o = off + 10 + 11 * i;
        let s = be24(cmap, o)?;
        if prev.map_or(false, |p| p >= s) {
            return Err(format!("selector record {i}: varSelector {s:#x} not above its predecessor"));
        }
        prev = Some(s);
        if s == sel {
            found = Some((be32(cmap, o + 3)? as usize, be32(cmap, o + 7)? as usize));
        }
    }
    let Some((d, nd)) = found else { return Ok((Uvs::None, Uvs::None)) };
    let mut a = Uvs::None;
    if d != 0 {
        let k = be32(cmap, off + d)? as usize;
        for i in 0..k {
            let s = be24(cmap, off + d + 4 + 4 * i)?;
            let add = *cmap.get(off + d + 7 + 4 * i).ok_or("default range beyond the table")? as u32;
            if c >= s && c <= s + add {
                a = Uvs::Default;
            }
        }
    }
    let mut b = Uvs::None;
    if nd != 0 {
        let k = be32(cmap, off + nd)? as usize;
        for i in 0..k {
            if be24(cmap, off + nd + 4 + 5 * i)? == c {
                b = Uvs::Glyph(be16(cmap, off + nd + 7 + 5 * i)?);
            }
        }
    }
    Ok(match (a, b) {
        (Uvs::None, b) => (b, Uvs::None),
        (a, b) => (a, b),
    })
}

/// The cmap table of a font file (table directory walk from the specification: sfnt header 12 bytes,
/// 16-byte records tag / checksum / offset / length).
pub fn cmap_of_font(font: &[u8]) -> Result<&[u8], String> {
    let n = be16(font, 4)? as usize;
    for i in 0..n {
        let o = 12 + 16 * i;
        if font.get(o..o + 4) == Some(b"cmap") {
            let off = be32(font, o + 8)? as usize;
            let len = be32(font, o + 12)? as usize;
            return font.get(off..off + len).ok_or_else(|| "cmap directory entry beyond the file".to_string());
        }
    }
    Err("no cmap entry in the table directory".into())
}
