//! Sparse-bit-set codec: round trips for every branch factor and the decoder against a reference
//! decoder written from the text of the IFT specification
//! (<https://w3c.github.io/IFT/Overview.html#sparse-bit-set-decoding>).

use read_fonts::collections::int_set::sparse_bit_set::to_sparse_bit_set_with_bf;
use read_fonts::collections::int_set::IntSet;
use std::collections::VecDeque;

/// Result of the specification's algorithm: members as inclusive ranges (before bias / maximum),
/// number of bytes read.
#[derive(Debug, Clone, PartialEq)]
pub struct SpecDecoded {
    pub ranges: Vec<(u128, u128)>,
    pub consumed: usize,
    pub branch_factor: u32,
    pub height: u32,
    /// false: the algorithm ran out of bits (an error); `ranges` then holds what had been added up
    /// to that point (used only to predict the cost of running the implementation)
    pub complete: bool,
}

/// The decoding algorithm of the specification, literally:
///  * byte 0: bits 0-1 branch factor code (2,4,8,32), bits 2-6 height H, bit 7 reserved;
///  * H = 0: the empty set, only the header byte is read;
///  * otherwise a FIFO of (start, depth) starting with (0, 1); for each entry read the next B bits
///    (least significant bit first within each byte); too few bits left: error; all bits zero: every
///    value in [start, start + B^(H-depth+1)) is a member; otherwise for each set bit i: at depth H
///    the value start+i is a member, else push (start + i*B^(H-depth), depth+1);
///  * bits left over in the last byte read are ignored, the remaining bytes are not read.
pub fn spec_decode(data: &[u8]) -> Result<SpecDecoded, ()> {
    let sd = spec_decode_partial(data)?;
    if sd.complete {
        Ok(sd)
    } else {
        Err(())
    }
}

pub fn spec_decode_partial(data: &[u8]) -> Result<SpecDecoded, ()> {
    let Some(h0) = data.first() else { return Err(()) };
    let b: u32 = [2, 4, 8, 32][(h0 & 3) as usize];
    let h = ((h0 >> 2) & 31) as u32;
    let mut out = SpecDecoded { ranges: vec![], consumed: 1, branch_factor: b, height: h, complete: true };
    if h == 0 {
        return Ok(out);
    }
    let mut bitpos: usize = 8; // absolute bit position in data
    let total_bits = data.len() * 8;
    let mut q: VecDeque<(u128, u32)> = VecDeque::new();
    q.push_back((0, 1));
    let pow = |e: u32| -> u128 { (b as u128).checked_pow(e).unwrap_or(u128::MAX / 64) };
    while let Some((start, depth)) = q.pop_front() {
        if bitpos + b as usize > total_bits {
            out.complete = false;
            return Ok(out);
        }
        let mut v: u32 = 0;
        for i in 0..b as usize {
            let p = bitpos + i;
            let bit = (data[p / 8] >> (p % 8)) & 1;
            v |= (bit as u32) << i;
        }
        bitpos += b as usize;
        if v == 0 {
            let size = pow(h - depth + 1);
            out.ranges.push((start, start.saturating_add(size - 1)));
        } else {
            for i in 0..b {
                if v >> i & 1 == 1 {
                    if depth == h {
                        out.ranges.push((start + i as u128, start + i as u128));
                    } else {
                        q.push_back((start.saturating_add((i as u128).saturating_mul(pow(h - depth))), depth + 1));
                    }
                }
            }
        }
    }
    out.consumed = bitpos.div_ceil(8);
    Ok(out)
}

/// apply bias and maximum: members are v+bias for decoded v, those above `max` (or not
/// representable) are dropped. Returns merged inclusive ranges.
pub fn bias_and_max(ranges: &[(u128, u128)], bias: u32, max: u32) -> Vec<(u64, u64)> {
    let mut v: Vec<(u64, u64)> = vec![];
    for (a, b) in ranges {
        let lo = a.saturating_add(bias as u128);
        let hi = b.saturating_add(bias as u128).min(max as u128);
        if lo <= hi {
            v.push((lo as u64, hi as u64));
        }
    }
    crate::rset::RSet::from_ranges(v).r
}

pub fn max_height(bf: u32) -> u32 {
    match bf {
        2 => 31,
        4 => 16,
        8 => 11,
        _ => 7,
    }
}

pub fn set_ranges(s: &IntSet<u32>) -> Vec<(u64, u64)> {
    s.iter_ranges().map(|r| (*r.start() as u64, *r.end() as u64)).collect()
}

pub fn set_from_ranges(r: &[(u64, u64)]) -> IntSet<u32> {
    let mut s = IntSet::<u32>::empty();
    for (a, b) in r {
        s.insert_range(*a as u32..=*b as u32);
    }
    s
}

pub fn encode_bf(s: &IntSet<u32>, bf: u32) -> Vec<u8> {
    match bf {
        2 => to_sparse_bit_set_with_bf::<2>(s),
        4 => to_sparse_bit_set_with_bf::<4>(s),
        8 => to_sparse_bit_set_with_bf::<8>(s),
        32 => to_sparse_bit_set_with_bf::<32>(s),
        _ => unreachable!(),
    }
}

/// Round trip of one set: for each branch factor and for the min-size choice:
/// decode(encode(s)) == s, nothing left unread, and the spec-text decoder reads the same set from
/// the encoder's bytes. Err = (stable label, details).
pub fn round_trip(members: &[(u64, u64)]) -> Result<u64, (String, String)> {
    let s = set_from_ranges(members);
    let mut digest = vcore::Fnv::new();
    for bf in [2u32, 4, 8, 32, 0] {
        let label = if bf == 0 { "to_sparse_bit_set".to_string() } else { format!("to_sparse_bit_set_with_bf::<{bf}>") };
        let bytes = match vcore::guard(|| if bf == 0 { s.to_sparse_bit_set() } else { encode_bf(&s, bf) }) {
            Ok(b) => b,
            Err(p) => return Err((format!("{label} panic {}", p.kind()), p.message)),
        };
        digest.bytes(&bytes);
        let dec = match vcore::guard(|| IntSet::<u32>::from_sparse_bit_set_bounded(&bytes, 0, u32::MAX).map(|(s, rest)| (s, rest.len()))) {
            Ok(d) => d,
            Err(p) => return Err((format!("from_sparse_bit_set panic after {label}: {}", p.kind()), p.message)),
        };
        match dec {
            Err(_) => return Err((format!("{label} output does not decode"), vcore::hex(&bytes))),
            Ok((d, rest)) => {
                if set_ranges(&d) != members {
                    return Err((
                        format!("{label} round trip changes the set"),
                        format!("bytes {} decoded {:?}", vcore::hex(&bytes), set_ranges(&d).iter().take(6).collect::<Vec<_>>()),
                    ));
                }
                if d != s {
                    return Err((format!("{label} round trip set != original"), vcore::hex(&bytes)));
                }
                if rest != 0 {
                    return Err((format!("{label} output has unread trailing bytes"), vcore::hex(&bytes)));
                }
                match vcore::guard(|| IntSet::<u32>::from_sparse_bit_set(&bytes)) {
                    Ok(Ok(p)) if p == s && set_ranges(&p) == members => {}
                    Ok(_) => return Err((format!("from_sparse_bit_set does not return the set encoded by {label}"), vcore::hex(&bytes))),
                    Err(p) => return Err((format!("from_sparse_bit_set panic after {label}: {}", p.kind()), p.message)),
                }
            }
        }
        // encoder output read by the specification's decoder
        match spec_decode(&bytes) {
            Err(_) => return Err((format!("{label} output is malformed per the specification"), vcore::hex(&bytes))),
            Ok(sd) => {
                if bias_and_max(&sd.ranges, 0, u32::MAX) != members || sd.consumed != bytes.len() {
                    return Err((format!("{label} output decodes differently per the specification"), vcore::hex(&bytes)));
                }
            }
        }
    }
    Ok(digest.finish())
}

#[derive(Debug, PartialEq, Clone, Copy)]
pub enum DecodeOutcome {
    /// compared with the reference
    Compared { ok_result: bool, members: u64 },
    /// height above the supported maximum: only "does not panic" is required
    UnsupportedHeight,
    /// reference result too large to materialise as pages
    SkippedLarge,
}

pub const LARGE: u64 = 1 << 16;

/// One decoder case. Err = (stable label, details).
pub fn decode_case(data: &[u8], bias: u32, max: u32) -> Result<(DecodeOutcome, u64), (String, String)> {
    let partial = spec_decode_partial(data);
    let spec = match &partial {
        Ok(sd) if sd.complete => Ok(sd.clone()),
        _ => Err(()),
    };
    let supported = match &spec {
        Ok(sd) => sd.height <= max_height(sd.branch_factor),
        Err(_) => match data.first() {
            Some(h0) => (((h0 >> 2) & 31) as u32) <= max_height([2, 4, 8, 32][(h0 & 3) as usize]),
            None => true,
        },
    };
    let expected: Option<(Vec<(u64, u64)>, usize)> = match &spec {
        Ok(sd) if supported => Some((bias_and_max(&sd.ranges, bias, max), sd.consumed)),
        _ => None,
    };
    // cost prediction: everything the algorithm adds before finishing or running out of bits
    if let (Ok(sd), true) = (&partial, supported) {
        let pop: u64 = bias_and_max(&sd.ranges, bias, max).iter().map(|(a, b)| b - a + 1).sum();
        if pop > LARGE {
            return Ok((DecodeOutcome::SkippedLarge, 0));
        }
    }
    let got = vcore::guard(|| {
        IntSet::<u32>::from_sparse_bit_set_bounded(data, bias, max).map(|(s, rest)| (set_ranges(&s), s.len(), data.len() - rest.len()))
    });
    let got = match got {
        Ok(g) => g,
        Err(p) => return Err((format!("from_sparse_bit_set_bounded panic {}", p.kind()), format!("{} at {}:{}", p.message, p.file, p.line))),
    };
    // `from_sparse_bit_set(data)` is documented as the same decoding without bias / maximum: it must
    // agree with `from_sparse_bit_set_bounded(data, 0, u32::MAX)` (Ok/Err and members) on every input
    if bias == 0 && max == u32::MAX {
        let plain = match vcore::guard(|| IntSet::<u32>::from_sparse_bit_set(data).map(|s| (set_ranges(&s), s.len()))) {
            Ok(g) => g,
            Err(p) => return Err((format!("from_sparse_bit_set panic {}", p.kind()), format!("{} at {}:{}", p.message, p.file, p.line))),
        };
        let same = match (&plain, &got) {
            (Ok((pm, pl)), Ok((m, l, _))) => pm == m && pl == l,
            (Err(_), Err(_)) => true,
            _ => false,
        };
        if !same {
            return Err((
                "from_sparse_bit_set differs from from_sparse_bit_set_bounded(.., 0, u32::MAX)".into(),
                format!("plain {:?} bounded {:?}", plain.as_ref().map(|(m, l)| (m.iter().take(4).collect::<Vec<_>>(), *l)).map_err(|_| "Err"), got.as_ref().map(|(m, l, _)| (m.iter().take(4).collect::<Vec<_>>(), *l)).map_err(|_| "Err")),
            ));
        }
    }
    if !supported {
        return Ok((DecodeOutcome::UnsupportedHeight, 1));
    }
    let mut h = vcore::Fnv::new();
    match (&expected, &got) {
        (None, Err(_)) => Ok((DecodeOutcome::Compared { ok_result: false, members: 0 }, 2)),
        (None, Ok((m, _, used))) => Err((
            "from_sparse_bit_set_bounded accepts input the specification rejects".into(),
            format!("decoded {:?} using {} bytes", m.iter().take(4).collect::<Vec<_>>(), used),
        )),
        (Some(_), Err(_)) => Err((
            "from_sparse_bit_set_bounded rejects input the specification decodes".into(),
            format!("expected {:?}", expected),
        )),
        (Some((em, eused)), Ok((m, len, used))) => {
            if em != m {
                return Err((
                    "from_sparse_bit_set_bounded members differ from the specification".into(),
                    format!("got {:?} expected {:?}", m.iter().take(6).collect::<Vec<_>>(), em.iter().take(6).collect::<Vec<_>>()),
                ));
            }
            if eused != used {
                return Err((
                    "from_sparse_bit_set_bounded remainder differs from the specification".into(),
                    format!("consumed {used} bytes, specification {eused}"),
                ));
            }
            let pop: u64 = em.iter().map(|(a, b)| b - a + 1).sum();
            if pop != *len {
                return Err(("decoded set len() wrong".into(), format!("len {len} population {pop}")));
            }
            for (a, b) in em {
                h.u64(*a);
                h.u64(*b);
            }
            h.u64(*used as u64);
            Ok((DecodeOutcome::Compared { ok_result: true, members: pop }, h.finish()))
        }
    }
}

// ---------------------------------------------------------------------------
// structured decoder inputs: streams built node by node (so that the wide branch factors, whose
// nodes are 1 and 4 bytes, get complete multi-node trees, which the raw byte-string sweep cannot
// reach within its length bound)
// ---------------------------------------------------------------------------

/// header + nodes packed as the specification says (B bits per node, least significant bit first)
pub fn pack_nodes(bf: u32, height: u32, nodes: &[u32]) -> Vec<u8> {
    let code = match bf {
        2 => 0u8,
        4 => 1,
        8 => 2,
        _ => 3,
    };
    let mut out = vec![code | ((height as u8 & 31) << 2)];
    let mut bitpos = 0usize;
    for n in nodes {
        for i in 0..bf as usize {
            if bitpos % 8 == 0 {
                out.push(0);
            }
            if n >> i & 1 == 1 {
                *out.last_mut().unwrap() |= 1 << (bitpos % 8);
            }
            bitpos += 1;
        }
    }
    out
}

/// node values per branch factor: filled, lowest / highest child, both, two lowest, a middle child,
/// all children (BF32 also a bit in each of the four bytes)
pub fn node_alphabet(bf: u32) -> Vec<u32> {
    let top = 1u32 << (bf - 1);
    let mask = if bf == 32 { u32::MAX } else { (1u32 << bf) - 1 };
    let mut v = vec![0, 1, top, 1 | top, 3 & mask, 1 << (bf / 2), mask];
    if bf == 32 {
        v.extend([1 << 8, 1 << 23]);
    }
    let mut seen = vec![];
    for x in v {
        if !seen.contains(&x) {
            seen.push(x);
        }
    }
    seen
}
