//! RangeSet<T>: every insert sequence of <= d ranges over an endpoint alphabet, against a bit mask
//! over "cells". The endpoint alphabet E (sorted) cuts the number line into consecutive cells: each
//! endpoint is a one-value cell, each gap between neighbouring endpoints is one cell. Every range
//! a..=b with a,b in E covers whole cells, and consecutive cells are adjacent integers, so the
//! mathematical set is a mask of cells and its canonical range list is the list of maximal runs.

use read_fonts::collections::RangeSet;
use std::ops::RangeInclusive;

pub struct Cells {
    /// (lo, hi) of each cell, ascending, contiguous
    pub cells: Vec<(i64, i64)>,
    /// endpoint -> cell index
    pub endpoints: Vec<(i64, usize)>,
}

impl Cells {
    pub fn new(endpoints: &[i64]) -> Self {
        let mut e = endpoints.to_vec();
        e.sort();
        e.dedup();
        let mut cells = vec![];
        let mut ep = vec![];
        for (i, x) in e.iter().enumerate() {
            if i > 0 && e[i - 1] + 1 < *x {
                cells.push((e[i - 1] + 1, *x - 1));
            }
            ep.push((*x, cells.len()));
            cells.push((*x, *x));
        }
        Cells { cells, endpoints: ep }
    }
    pub fn mask_of(&self, a: usize, b: usize) -> u32 {
        // a, b are indices into endpoints
        let (ca, cb) = (self.endpoints[a].1, self.endpoints[b].1);
        if self.endpoints[a].0 > self.endpoints[b].0 {
            return 0;
        }
        let mut m = 0u32;
        for c in ca..=cb {
            m |= 1 << c;
        }
        m
    }
    pub fn runs(&self, mask: u32) -> Vec<(i64, i64)> {
        let mut out: Vec<(i64, i64)> = vec![];
        let mut cur: Option<(i64, i64)> = None;
        for (i, (lo, hi)) in self.cells.iter().enumerate() {
            if mask >> i & 1 == 1 {
                cur = Some(match cur {
                    Some((s, _)) => (s, *hi),
                    None => (*lo, *hi),
                });
            } else if let Some(c) = cur.take() {
                out.push(c);
            }
        }
        if let Some(c) = cur {
            out.push(c);
        }
        out
    }
}


/// `OrdAdjacency` is not nameable from outside read-fonts, so the checker is instantiated per
/// element type by macro instead of being generic.
macro_rules! range_set_checker {
    ($m:ident, $t:ty, $from:expr, $to:expr) => {
        pub mod $m {
            use super::*;
            type T = $t;
            fn from_raw(v: i64) -> T {
                ($from)(v)
            }
            trait ToRaw {
                fn to_raw(&self) -> i64;
            }
            impl ToRaw for T {
                fn to_raw(&self) -> i64 {
                    ($to)(*self)
                }
            }
pub fn ranges_of(s: &RangeSet<T>) -> Vec<(i64, i64)> {
    s.iter().map(|r: RangeInclusive<T>| (r.start().to_raw(), r.end().to_raw())).collect()
}

/// the fixed second operands of `intersection`: (mask, set), built by single inserts of runs
pub fn fixed_operands(cells: &Cells) -> Vec<(u32, RangeSet<T>)> {
    let nc = cells.cells.len() as u32;
    let full = (1u32 << nc) - 1;
    let masks = [0u32, 1, full, 0b0110, 0b0101_0101_0101 & full, full & !1, full & !(1 << (nc - 1)), 1 << (nc - 1), 0b0011_1000 & full];
    masks
        .iter()
        .map(|m| {
            let mut s = RangeSet::<T>::default();
            for (a, b) in cells.runs(*m) {
                s.insert(from_raw(a)..=from_raw(b));
            }
            (*m, s)
        })
        .collect()
}

/// check one sequence (indices into the pair alphabet). Err = (label, details)
pub fn check_sequence(
    cells: &Cells,
    pairs: &[(usize, usize)],
    seq: &[usize],
    operands: &[(u32, RangeSet<T>)],
) -> Result<(u32, u64), (String, String)> {
    let mut s = RangeSet::<T>::default();
    let mut mask = 0u32;
    for (step, pi) in seq.iter().enumerate() {
        let (a, b) = pairs[*pi];
        let (ra, rb) = (cells.endpoints[a].0, cells.endpoints[b].0);
        s.insert(from_raw(ra)..=from_raw(rb));
        mask |= cells.mask_of(a, b);
        let got = ranges_of(&s);
        let exp = cells.runs(mask);
        if got != exp {
            // classify: unsorted / overlapping / adjacent / wrong membership
            let mut label = "RangeSet::insert wrong membership";
            for w in got.windows(2) {
                if w[1].0 <= w[0].1 {
                    label = "RangeSet::insert leaves overlapping or unsorted ranges";
                } else if w[1].0 == w[0].1 + 1 {
                    label = "RangeSet::insert leaves adjacent ranges unmerged";
                }
            }
            return Err((label.to_string(), format!("after step {step}: got {:?} expected {:?}", got, exp)));
        }
        if s.is_empty() != (mask == 0) {
            return Err(("RangeSet::is_empty".into(), format!("mask {mask:#b}")));
        }
    }
    // Extend / FromIterator / Clone are documented as repeated insert: same set, also when the
    // ranges arrive in reverse order
    {
        let rs: Vec<RangeInclusive<T>> = seq.iter().map(|pi| from_raw(cells.endpoints[pairs[*pi].0].0)..=from_raw(cells.endpoints[pairs[*pi].1].0)).collect();
        let a: RangeSet<T> = rs.iter().cloned().collect();
        let mut b = RangeSet::<T>::default();
        b.extend(rs.iter().rev().cloned());
        let c = s.clone();
        if a != s || b != s || c != s || ranges_of(&b) != cells.runs(mask) {
            return Err(("RangeSet::from_iter / extend / clone".into(), format!("differs from repeated insert: {:?} / {:?} / {:?} vs {:?}", ranges_of(&a), ranges_of(&b), ranges_of(&c), ranges_of(&s))));
        }
    }
    // intersections with the fixed operands, both argument orders, and with itself
    let mut h = vcore::Fnv::new();
    h.u64(mask as u64);
    for (om, os) in operands {
        let exp = cells.runs(mask & om);
        let g1: Vec<(i64, i64)> = s.intersection(os).map(|r| (r.start().to_raw(), r.end().to_raw())).collect();
        let g2: Vec<(i64, i64)> = os.intersection(&s).map(|r| (r.start().to_raw(), r.end().to_raw())).collect();
        if g1 != exp || g2 != exp {
            return Err((
                "RangeSet::intersection".into(),
                format!("self {:?} other {:?}: got {:?} / {:?} expected {:?}", ranges_of(&s), ranges_of(os), g1, g2, exp),
            ));
        }
    }
    let gs: Vec<(i64, i64)> = s.intersection(&s).map(|r| (r.start().to_raw(), r.end().to_raw())).collect();
    if gs != cells.runs(mask) {
        return Err(("RangeSet::intersection".into(), "self-intersection differs from self".into()));
    }
    Ok((mask, h.finish()))
}

        }
    };
}
range_set_checker!(rs_u32, u32, |v: i64| v as u32, |t: u32| t as i64);
range_set_checker!(rs_u16, u16, |v: i64| v as u16, |t: u16| t as i64);
range_set_checker!(rs_fixed, font_types::Fixed, |v: i64| font_types::Fixed::from_bits(v as i32), |t: font_types::Fixed| t.to_bits() as i64);
