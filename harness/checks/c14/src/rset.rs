//! Reference model of a mathematical set of integers: a sorted list of disjoint, non-adjacent
//! inclusive ranges over u64 "index space" 0..N. Deliberately has no notion of an inverted mode or of
//! pages. `self_test` checks every operation against `BTreeSet<u64>` on all pairs of subsets of a
//! 7-value universe (a conformance gate: failure is a machinery error, never a verdict).

use std::cmp::Ordering;
use std::collections::BTreeSet;

#[derive(Clone, Debug, PartialEq, Eq, Hash, Default)]
pub struct RSet {
    pub r: Vec<(u64, u64)>,
}

impl RSet {
    pub fn new() -> Self {
        RSet { r: vec![] }
    }
    /// build from arbitrary (possibly overlapping/unsorted/reversed) inclusive ranges
    pub fn from_ranges(mut v: Vec<(u64, u64)>) -> Self {
        v.retain(|(a, b)| a <= b);
        v.sort();
        let mut out: Vec<(u64, u64)> = vec![];
        for (a, b) in v {
            if let Some(last) = out.last_mut() {
                if a <= last.1.saturating_add(1) {
                    if b > last.1 {
                        last.1 = b;
                    }
                    continue;
                }
            }
            out.push((a, b));
        }
        RSet { r: out }
    }
    pub fn from_values(vs: impl IntoIterator<Item = u64>) -> Self {
        Self::from_ranges(vs.into_iter().map(|v| (v, v)).collect())
    }
    pub fn full(n: u64) -> Self {
        if n == 0 {
            RSet::new()
        } else {
            RSet { r: vec![(0, n - 1)] }
        }
    }
    pub fn contains(&self, v: u64) -> bool {
        self.r.iter().any(|(a, b)| *a <= v && v <= *b)
    }
    pub fn len(&self) -> u64 {
        self.r.iter().map(|(a, b)| b - a + 1).sum()
    }
    pub fn first(&self) -> Option<u64> {
        self.r.first().map(|x| x.0)
    }
    pub fn last(&self) -> Option<u64> {
        self.r.last().map(|x| x.1)
    }
    pub fn union(&self, o: &RSet) -> RSet {
        let mut v = self.r.clone();
        v.extend(o.r.iter().copied());
        RSet::from_ranges(v)
    }
    /// complement within 0..n
    pub fn complement(&self, n: u64) -> RSet {
        let mut out = vec![];
        let mut next = 0u64;
        for (a, b) in &self.r {
            if *a > next {
                out.push((next, a - 1));
            }
            next = b + 1;
        }
        if next < n {
            out.push((next, n - 1));
        }
        RSet { r: out }
    }
    pub fn intersect(&self, o: &RSet) -> RSet {
        let mut out = vec![];
        for (a, b) in &self.r {
            for (c, d) in &o.r {
                let lo = (*a).max(*c);
                let hi = (*b).min(*d);
                if lo <= hi {
                    out.push((lo, hi));
                }
            }
        }
        RSet::from_ranges(out)
    }
    pub fn subtract(&self, o: &RSet, n: u64) -> RSet {
        self.intersect(&o.complement(n))
    }
    pub fn insert_range(&self, a: u64, b: u64) -> RSet {
        self.union(&RSet::from_ranges(vec![(a, b)]))
    }
    pub fn remove_range(&self, a: u64, b: u64, n: u64) -> RSet {
        self.subtract(&RSet::from_ranges(vec![(a, b)]), n)
    }
    pub fn intersects_range(&self, a: u64, b: u64) -> bool {
        a <= b && self.r.iter().any(|(c, d)| (*c).max(a) <= (*d).min(b))
    }
    /// first k elements ascending
    pub fn head(&self, k: usize) -> Vec<u64> {
        let mut out = vec![];
        'o: for (a, b) in &self.r {
            let mut v = *a;
            loop {
                if out.len() >= k {
                    break 'o;
                }
                out.push(v);
                if v == *b {
                    break;
                }
                v += 1;
            }
        }
        out
    }
    /// last k elements descending
    pub fn tail_rev(&self, k: usize) -> Vec<u64> {
        let mut out = vec![];
        'o: for (a, b) in self.r.iter().rev() {
            let mut v = *b;
            loop {
                if out.len() >= k {
                    break 'o;
                }
                out.push(v);
                if v == *a {
                    break;
                }
                v -= 1;
            }
        }
        out
    }
    /// elements strictly greater than v
    pub fn after(&self, v: u64) -> RSet {
        if v == u64::MAX {
            return RSet::new();
        }
        self.intersect(&RSet { r: vec![(v + 1, u64::MAX)] })
    }
    /// lexicographic comparison of the ascending element sequences (what `BTreeSet::cmp` does)
    pub fn cmp_lex(&self, o: &RSet) -> Ordering {
        // first element at which the two sets differ: the smallest element of the symmetric difference.
        let sym = self
            .subtract(o, u64::MAX)
            .union(&o.subtract(self, u64::MAX));
        // note: complement within 0..u64::MAX is enough, index space never contains u64::MAX
        match sym.first() {
            None => Ordering::Equal,
            Some(d) => {
                // the set owning d has d at the position where the other has something larger or nothing
                let other_has_more = |s: &RSet| s.after(d).len_nonzero();
                if self.contains(d) {
                    // self has d; other has, at this position, its next element > d, or has ended
                    if other_has_more(o) {
                        Ordering::Less
                    } else {
                        Ordering::Greater
                    }
                } else if other_has_more(self) {
                    Ordering::Greater
                } else {
                    Ordering::Less
                }
            }
        }
    }
    fn len_nonzero(&self) -> bool {
        !self.r.is_empty()
    }
}

pub fn self_test() -> Result<u64, String> {
    let n = 7u64;
    let mut checked = 0u64;
    let subsets: Vec<(RSet, BTreeSet<u64>)> = (0..(1u32 << n))
        .map(|m| {
            let vals: Vec<u64> = (0..n).filter(|i| m >> i & 1 == 1).collect();
            (RSet::from_values(vals.iter().copied()), vals.into_iter().collect())
        })
        .collect();
    let to_b = |s: &RSet| -> BTreeSet<u64> { s.head(100).into_iter().collect() };
    for (ra, ba) in &subsets {
        if &to_b(ra) != ba || ra.len() != ba.len() as u64 {
            return Err(format!("from_values/len {:?}", ba));
        }
        if ra.first() != ba.iter().next().copied() || ra.last() != ba.iter().next_back().copied() {
            return Err("first/last".into());
        }
        let comp: BTreeSet<u64> = (0..n).filter(|v| !ba.contains(v)).collect();
        if to_b(&ra.complement(n)) != comp {
            return Err(format!("complement {:?}", ba));
        }
        let rev: Vec<u64> = ba.iter().rev().copied().collect();
        if ra.tail_rev(100) != rev {
            return Err("tail_rev".into());
        }
        for v in 0..n {
            if ra.contains(v) != ba.contains(&v) {
                return Err("contains".into());
            }
            let aft: BTreeSet<u64> = ba.iter().copied().filter(|x| *x > v).collect();
            if to_b(&ra.after(v)) != aft {
                return Err("after".into());
            }
            for w in 0..n {
                let exp = ba.iter().any(|x| v <= *x && *x <= w);
                if ra.intersects_range(v, w) != exp {
                    return Err("intersects_range".into());
                }
                let mut ins = ba.clone();
                let mut rem = ba.clone();
                if v <= w {
                    for x in v..=w {
                        ins.insert(x);
                        rem.remove(&x);
                    }
                }
                if to_b(&ra.insert_range(v, w)) != ins || to_b(&ra.remove_range(v, w, n)) != rem {
                    return Err("insert_range/remove_range".into());
                }
            }
        }
        for (rb, bb) in &subsets {
            checked += 1;
            let u: BTreeSet<u64> = ba.union(bb).copied().collect();
            let i: BTreeSet<u64> = ba.intersection(bb).copied().collect();
            let d: BTreeSet<u64> = ba.difference(bb).copied().collect();
            if to_b(&ra.union(rb)) != u || to_b(&ra.intersect(rb)) != i || to_b(&ra.subtract(rb, n)) != d {
                return Err(format!("binary op {:?} {:?}", ba, bb));
            }
            if ra.cmp_lex(rb) != ba.cmp(bb) {
                return Err(format!("cmp_lex {:?} {:?}", ba, bb));
            }
            // canonical form: equal sets have equal range lists
            if (ra == rb) != (ba == bb) {
                return Err("canonical form".into());
            }
        }
    }
    Ok(checked)
}
