//! IntSet<T> operation-sequence search: the real `IntSet<T>` next to the reference `RSet`.
//!
//! * `Sys<T>` holds the action alphabet of a domain; `Sys::step` applies one action to both,
//!   `Sys::observe` compares every observer.
//! * `bfs_level_sync` is a level-synchronous parallel BFS over canonical keys
//!   (reference members + `IntSet::verif_fingerprint()`), exact to the stated depth.
//! * `SrModel` wraps the same step function as a `stateright::Model`; run with one thread (strict
//!   FIFO order) its unique-state count must equal the level-synchronous count at the same depth.

use crate::rset::RSet;
use read_fonts::collections::int_set::{Domain, InDomain, IntSet};
use std::fmt::Debug;
use std::hash::{Hash, Hasher};
use std::ops::RangeInclusive;
use vcore::Fnv;

// ---------------------------------------------------------------------------
// domains
// ---------------------------------------------------------------------------

/// A domain as seen by the harness: index space 0..N, order preserving bijection to T.
pub trait Dom: Domain + Copy + Ord + Debug + Send + Sync + 'static {
    const NAME: &'static str;
    /// number of values in the domain
    const N: u64;
    /// two representation edges in index space (page edges; for the one-page domain u8 the edges of
    /// the 64-bit words inside the page)
    const P1: u64 = 512;
    const P2: u64 = 1024;
    fn val(i: u64) -> Self;
    fn idx(self) -> u64;
}

/// Harness domain: 1 536 consecutive values (three 512-bit pages).
#[derive(Clone, Copy, PartialEq, Eq, PartialOrd, Ord, Debug, Hash)]
pub struct Small(pub u16);
impl Domain for Small {
    fn to_u32(&self) -> u32 {
        self.0 as u32
    }
    fn contains(value: u32) -> bool {
        value < 1536
    }
    fn from_u32(member: InDomain) -> Self {
        Small(member.value() as u16)
    }
    fn is_continuous() -> bool {
        true
    }
    fn ordered_values() -> impl DoubleEndedIterator<Item = u32> {
        0u32..=1535
    }
    fn ordered_values_range(range: RangeInclusive<Self>) -> impl DoubleEndedIterator<Item = u32> {
        (range.start().0 as u32)..=(range.end().0 as u32)
    }
    fn count() -> u64 {
        1536
    }
}
impl Dom for Small {
    const NAME: &'static str = "Small1536";
    const N: u64 = 1536;
    fn val(i: u64) -> Self {
        Small(i as u16)
    }
    fn idx(self) -> u64 {
        self.0 as u64
    }
}

/// Harness domain: the even numbers below 3072 (discontinuous, 1 536 values over six pages).
#[derive(Clone, Copy, PartialEq, Eq, PartialOrd, Ord, Debug, Hash)]
pub struct Even(pub u16);
const EVEN_END: u32 = 3072;
impl Domain for Even {
    fn to_u32(&self) -> u32 {
        self.0 as u32
    }
    fn contains(value: u32) -> bool {
        value < EVEN_END && value % 2 == 0
    }
    fn from_u32(member: InDomain) -> Self {
        Even(member.value() as u16)
    }
    fn is_continuous() -> bool {
        false
    }
    fn ordered_values() -> impl DoubleEndedIterator<Item = u32> {
        (0..EVEN_END / 2).map(|i| i * 2)
    }
    fn ordered_values_range(range: RangeInclusive<Self>) -> impl DoubleEndedIterator<Item = u32> {
        let lo = range.start().0 as u32;
        let hi = range.end().0 as u32;
        // first even >= lo .. last even <= hi
        let lo_i = (lo + 1) / 2;
        let hi_i = hi / 2;
        (lo_i..hi_i + 1).map(|i| i * 2).filter(move |_| lo <= hi)
    }
    fn count() -> u64 {
        (EVEN_END / 2) as u64
    }
}
impl Dom for Even {
    const NAME: &'static str = "Even3072";
    const N: u64 = (EVEN_END / 2) as u64;
    const P1: u64 = 256;
    const P2: u64 = 512;
    fn val(i: u64) -> Self {
        Even((i * 2) as u16)
    }
    fn idx(self) -> u64 {
        (self.0 / 2) as u64
    }
}


/// Harness domain: 0..2048 with two multi-value holes that straddle page boundaries
/// ([500, 523] across 512 and [1000, 1030] across 1024): discontinuous, 1 993 values.
#[derive(Clone, Copy, PartialEq, Eq, PartialOrd, Ord, Debug, Hash)]
pub struct Holes(pub u16);
const HOLE1: (u32, u32) = (500, 523);
const HOLE2: (u32, u32) = (1000, 1030);
const HOLES_END: u32 = 2048;
fn in_holes_domain(v: u32) -> bool {
    v < HOLES_END && !(HOLE1.0..=HOLE1.1).contains(&v) && !(HOLE2.0..=HOLE2.1).contains(&v)
}
impl Domain for Holes {
    fn to_u32(&self) -> u32 {
        self.0 as u32
    }
    fn contains(value: u32) -> bool {
        in_holes_domain(value)
    }
    fn from_u32(member: InDomain) -> Self {
        Holes(member.value() as u16)
    }
    fn is_continuous() -> bool {
        false
    }
    fn ordered_values() -> impl DoubleEndedIterator<Item = u32> {
        (0..HOLE1.0).chain(HOLE1.1 + 1..HOLE2.0).chain(HOLE2.1 + 1..HOLES_END)
    }
    fn ordered_values_range(range: RangeInclusive<Self>) -> impl DoubleEndedIterator<Item = u32> {
        let lo = range.start().0 as u32;
        let hi = range.end().0 as u32;
        let clip = move |a: u32, b: u32| {
            // half-open [a, b) clipped to [lo, hi]
            let s = a.max(lo);
            let e = b.min(hi.saturating_add(1));
            if lo <= hi && s < e {
                s..e
            } else {
                0..0
            }
        };
        clip(0, HOLE1.0).chain(clip(HOLE1.1 + 1, HOLE2.0)).chain(clip(HOLE2.1 + 1, HOLES_END))
    }
    fn count() -> u64 {
        (HOLES_END - (HOLE1.1 - HOLE1.0 + 1) - (HOLE2.1 - HOLE2.0 + 1)) as u64
    }
}
impl Dom for Holes {
    const NAME: &'static str = "Holes2048";
    const N: u64 = (HOLES_END - (HOLE1.1 - HOLE1.0 + 1) - (HOLE2.1 - HOLE2.0 + 1)) as u64;
    // landmarks in index space: the first value after each hole
    const P1: u64 = HOLE1.0 as u64;
    const P2: u64 = (HOLE2.0 - (HOLE1.1 - HOLE1.0 + 1)) as u64;
    fn val(i: u64) -> Self {
        let i = i as u32;
        let w1 = HOLE1.1 - HOLE1.0 + 1;
        let w2 = HOLE2.1 - HOLE2.0 + 1;
        let v = if i < HOLE1.0 {
            i
        } else if i + w1 < HOLE2.0 {
            i + w1
        } else {
            i + w1 + w2
        };
        Holes(v as u16)
    }
    fn idx(self) -> u64 {
        let v = self.0 as u32;
        let w1 = HOLE1.1 - HOLE1.0 + 1;
        let w2 = HOLE2.1 - HOLE2.0 + 1;
        (if v < HOLE1.0 {
            v
        } else if v < HOLE2.0 {
            v - w1
        } else {
            v - w1 - w2
        }) as u64
    }
}

macro_rules! dom_prim {
    ($t:ty, $name:expr, $n:expr, $val:expr, $idx:expr) => {
        impl Dom for $t {
            const NAME: &'static str = $name;
            const N: u64 = $n;
            fn val(i: u64) -> Self {
                ($val)(i)
            }
            fn idx(self) -> u64 {
                ($idx)(self)
            }
        }
    };
}
impl Dom for u8 {
    const NAME: &'static str = "u8";
    const N: u64 = 256;
    const P1: u64 = 64;
    const P2: u64 = 128;
    fn val(i: u64) -> Self {
        i as u8
    }
    fn idx(self) -> u64 {
        self as u64
    }
}
dom_prim!(u16, "u16", 65536, |i| i as u16, |s| s as u64);
dom_prim!(u32, "u32", 1 << 32, |i| i as u32, |s| s as u64);
dom_prim!(
    font_types::GlyphId16,
    "GlyphId16",
    65536,
    |i| font_types::GlyphId16::new(i as u16),
    |s: font_types::GlyphId16| s.to_u16() as u64
);
dom_prim!(
    font_types::GlyphId,
    "GlyphId",
    1 << 32,
    |i| font_types::GlyphId::new(i as u32),
    |s: font_types::GlyphId| s.to_u32() as u64
);
dom_prim!(
    font_types::Tag,
    "Tag",
    1 << 32,
    |i| font_types::Tag::from_u32(i as u32),
    |s: font_types::Tag| u32::from_be_bytes(s.to_be_bytes()) as u64
);
dom_prim!(
    font_types::NameId,
    "NameId",
    65536,
    |i| font_types::NameId::new(i as u16),
    |s: font_types::NameId| s.to_u16() as u64
);

// ---------------------------------------------------------------------------
// actions
// ---------------------------------------------------------------------------

#[derive(Clone, Debug, PartialEq, Eq, Hash)]
pub enum Act {
    Insert(u64),
    Remove(u64),
    InsertRange(u64, u64),
    RemoveRange(u64, u64),
    Extend(usize),
    ExtendUnsorted(usize),
    RemoveAll(usize),
    Union(usize),
    Intersect(usize),
    Subtract(usize),
    Invert,
    Clear,
}

impl Act {
    pub fn kind(&self) -> &'static str {
        match self {
            Act::Insert(_) => "insert",
            Act::Remove(_) => "remove",
            Act::InsertRange(..) => "insert_range",
            Act::RemoveRange(..) => "remove_range",
            Act::Extend(_) => "extend",
            Act::ExtendUnsorted(_) => "extend_unsorted",
            Act::RemoveAll(_) => "remove_all",
            Act::Union(_) => "union",
            Act::Intersect(_) => "intersect",
            Act::Subtract(_) => "subtract",
            Act::Invert => "invert",
            Act::Clear => "clear",
        }
    }
}

pub type Fingerprint = (bool, Vec<(u32, u32, u32, u32)>, usize, u64);

/// canonical key: reference members + the representation fingerprint of the real object
#[derive(Clone, Debug, PartialEq, Eq, Hash)]
pub struct Key {
    pub members: Vec<(u64, u64)>,
    pub fp: Fingerprint,
}

#[derive(Clone)]
pub struct State<T: Dom> {
    pub set: IntSet<T>,
    pub model: RSet,
    pub key: Key,
    /// action indices from the initial state (not part of identity)
    pub history: Vec<u16>,
    /// first failed comparison on the way here (observer label, details)
    pub failed: Option<(String, String)>,
}
impl<T: Dom> PartialEq for State<T> {
    fn eq(&self, o: &Self) -> bool {
        self.key == o.key
    }
}
impl<T: Dom> Hash for State<T> {
    fn hash<H: Hasher>(&self, h: &mut H) {
        self.key.hash(h)
    }
}
impl<T: Dom> Debug for State<T> {
    fn fmt(&self, f: &mut std::fmt::Formatter<'_>) -> std::fmt::Result {
        write!(f, "State({:?})", self.key)
    }
}

pub struct Operand<T: Dom> {
    pub set: IntSet<T>,
    pub model: RSet,
    pub desc: String,
}

pub struct Sys<T: Dom> {
    pub v: Vec<u64>,
    pub probe: Vec<u64>,
    pub lists: Vec<Vec<u64>>,
    pub operands: Vec<Operand<T>>,
    pub actions: Vec<Act>,
    /// how many elements iterators are followed from either end (full domain when N is small)
    pub k: usize,
    /// starting state: false = empty(), true = all()
    pub start_full: bool,
}

const WIDE: u64 = 4096;

impl<T: Dom> Sys<T> {
    pub fn new(start_full: bool) -> Self {
        let n = T::N;
        let max = n - 1;
        let clip = |xs: &[u64]| -> Vec<u64> {
            let mut o: Vec<u64> = xs.iter().copied().filter(|x| *x < n).collect();
            o.sort();
            o.dedup();
            o
        };
        let (p1, p2) = (T::P1, T::P2);
        let v = clip(&[0, 1, p1 - 1, p1, p1 + 1, p2 - 1, p2, max - 1, max]);
        let mut probe = vec![];
        for x in &v {
            probe.extend([x.saturating_sub(1), *x, (*x + 1).min(max)]);
        }
        // two values in the interior of pages, so that `contains` is also asked away from edges
        probe.extend([p1 / 5, p1 + p1 / 3]);
        let probe = clip(&probe);
        let small = n <= WIDE;
        // range alphabet: page-edge pairs, whole domain, reversed (empty) ranges
        let mut ranges: Vec<(u64, u64)> = vec![
            (0, 0),
            (0, p1 - 1),
            (0, p1),
            (1, p2 - 1),
            (p1 - 1, p1),
            (p1, p2 - 1),
            (p1, p2),
            (max, max),
            (max - 1, max),
            (p1, p1 - 1),
            (max, 0),
            // three pages: partial first page, whole middle page, one value of the last page
            (1, p2),
        ];
        if small {
            ranges.extend([(p1 + 1, max - 1), (p2, max), (0, max)]);
        } else {
            // 32/16-bit domains: wide ranges would allocate millions of pages; use page-crossing
            // ranges near the top of the domain instead
            ranges.extend([(max - 600, max), (max - 1024, max - 512), (p2, p2 + 576)]);
        }
        let mut ranges: Vec<(u64, u64)> = ranges
            .into_iter()
            .map(|(a, b)| (a.min(max), b.min(max)))
            .collect();
        ranges.sort();
        ranges.dedup();
        let lists: Vec<Vec<u64>> = vec![
            vec![1, p1 - 1, p1],
            vec![p2, 0, p1 + 1],
            vec![max, max - 1, 0, max],
        ]
        .into_iter()
        .map(|l| l.into_iter().map(|x: u64| x.min(max)).collect())
        .collect();

        // six operand page contents, each used once as members (inclusive operand) and once as the
        // excluded values of an inverted operand
        let contents: Vec<(Vec<(u64, u64)>, Option<u64>)> = vec![
            (vec![], None),
            (vec![(0, 0)], None),
            // leaves an empty page behind: insert 1030 then remove it
            (vec![(p1 - 1, p1)], Some(p2 + 6)),
            (vec![(1, 1), (p1 + 1, p1 + 1), (p2 - 1, p2)], None),
            (vec![(0, p2 - 1)], None),
            (vec![(p1, p1), (max - 1, max)], Some(0)),
        ];
        let mut operands = vec![];
        for (ci, (rs, ghost)) in contents.iter().enumerate() {
            for inverted in [false, true] {
                let mut s = IntSet::<T>::empty();
                let mut m = RSet::new();
                if let Some(g) = ghost {
                    let g = (*g).min(max);
                    s.insert(T::val(g));
                    s.remove(T::val(g));
                }
                for (a, b) in rs {
                    let (a, b) = ((*a).min(max), (*b).min(max));
                    s.insert_range(T::val(a)..=T::val(b));
                    m = m.insert_range(a, b);
                }
                if inverted {
                    s.invert();
                    m = m.complement(n);
                }
                operands.push(Operand {
                    set: s,
                    model: m,
                    desc: format!("operand{}{}", ci, if inverted { "-inverted" } else { "" }),
                });
            }
        }

        let mut actions = vec![];
        for x in &v {
            actions.push(Act::Insert(*x));
        }
        for x in &v {
            actions.push(Act::Remove(*x));
        }
        for (a, b) in &ranges {
            actions.push(Act::InsertRange(*a, *b));
        }
        for (a, b) in &ranges {
            actions.push(Act::RemoveRange(*a, *b));
        }
        for i in 0..lists.len() {
            actions.push(Act::Extend(i));
            actions.push(Act::ExtendUnsorted(i));
            actions.push(Act::RemoveAll(i));
        }
        for i in 0..operands.len() {
            actions.push(Act::Union(i));
            actions.push(Act::Intersect(i));
            actions.push(Act::Subtract(i));
        }
        actions.push(Act::Invert);
        actions.push(Act::Clear);
        Sys {
            v,
            probe,
            lists,
            operands,
            actions,
            k: if small { usize::MAX } else { 600 },
            start_full,
        }
    }

    pub fn make_key(set: &IntSet<T>, model: &RSet) -> Key {
        Key {
            members: model.r.clone(),
            fp: set.verif_fingerprint(),
        }
    }

    pub fn init(&self) -> State<T> {
        let (set, model) = if self.start_full {
            (IntSet::<T>::all(), RSet::full(T::N))
        } else {
            (IntSet::<T>::empty(), RSet::new())
        };
        let key = Self::make_key(&set, &model);
        let mut st = State {
            set,
            model,
            key,
            history: vec![],
            failed: None,
        };
        st.failed = self.observe(&st.set, &st.model, true).err();
        // From<[T; N]> (unsorted, with a duplicate) against the reference, once per domain
        if st.failed.is_none() && !self.start_full {
            let l = &self.lists[2];
            let arr: [T; 4] = [T::val(l[0]), T::val(l[1]), T::val(l[2]), T::val(l[3])];
            let s4 = IntSet::<T>::from(arr);
            let m4 = RSet::from_values(l.iter().copied());
            st.failed = self.observe(&s4, &m4, true).err().map(|(l, d)| (format!("{l} (From<[T; N]>)"), d));
        }
        st
    }

    /// apply one action to the real set and to the reference; compares return values of
    /// insert/remove on the way
    pub fn apply(&self, set: &mut IntSet<T>, model: &mut RSet, act: &Act) -> Result<(), (String, String)> {
        let n = T::N;
        match act {
            Act::Insert(x) => {
                let newly = set.insert(T::val(*x));
                let exp = !model.contains(*x);
                *model = model.insert_range(*x, *x);
                if newly != exp {
                    return Err(("insert return value".into(), format!("insert({x}) returned {newly}")));
                }
            }
            Act::Remove(x) => {
                let was = set.remove(T::val(*x));
                let exp = model.contains(*x);
                *model = model.remove_range(*x, *x, n);
                if was != exp {
                    return Err(("remove return value".into(), format!("remove({x}) returned {was}")));
                }
            }
            Act::InsertRange(a, b) => {
                set.insert_range(T::val(*a)..=T::val(*b));
                *model = model.insert_range(*a, *b);
            }
            Act::RemoveRange(a, b) => {
                set.remove_range(T::val(*a)..=T::val(*b));
                *model = model.remove_range(*a, *b, n);
            }
            Act::Extend(i) => {
                set.extend(self.lists[*i].iter().map(|x| T::val(*x)));
                *model = model.union(&RSet::from_values(self.lists[*i].iter().copied()));
            }
            Act::ExtendUnsorted(i) => {
                set.extend_unsorted(self.lists[*i].iter().map(|x| T::val(*x)));
                *model = model.union(&RSet::from_values(self.lists[*i].iter().copied()));
            }
            Act::RemoveAll(i) => {
                set.remove_all(self.lists[*i].iter().map(|x| T::val(*x)));
                *model = model.subtract(&RSet::from_values(self.lists[*i].iter().copied()), n);
            }
            Act::Union(i) => {
                set.union(&self.operands[*i].set);
                *model = model.union(&self.operands[*i].model);
            }
            Act::Intersect(i) => {
                set.intersect(&self.operands[*i].set);
                *model = model.intersect(&self.operands[*i].model);
            }
            Act::Subtract(i) => {
                set.subtract(&self.operands[*i].set);
                *model = model.subtract(&self.operands[*i].model, n);
            }
            Act::Invert => {
                set.invert();
                *model = model.complement(n);
            }
            Act::Clear => {
                set.clear();
                *model = RSet::new();
            }
        }
        Ok(())
    }

    /// one transition: clone, apply, compare every observer. Panics of the code under test are
    /// converted into a failed state.
    /// `full`: run the whole-length observers too (see `observe`)
    pub fn step(&self, st: &State<T>, ai: usize, full: bool) -> State<T> {
        let act = &self.actions[ai];
        let mut set = st.set.clone();
        let mut model = st.model.clone();
        let r = vcore::guard(|| {
            self.apply(&mut set, &mut model, act)?;
            self.observe(&set, &model, full)
        });
        let failed = match r {
            Ok(Ok(())) => None,
            Ok(Err(e)) => Some(e),
            Err(p) => Some((format!("panic {}", p.kind()), format!("{} at {}:{}", p.message, p.file, p.line))),
        };
        let key = match vcore::guard(|| Self::make_key(&set, &model)) {
            Ok(k) => k,
            Err(_) => Key { members: model.r.clone(), fp: (false, vec![], usize::MAX, 0) },
        };
        let mut history = st.history.clone();
        history.push(ai as u16);
        State {
            set,
            model,
            key,
            history,
            failed: st.failed.clone().or(failed),
        }
    }

    fn to_t_ranges(m: &RSet) -> Vec<(u64, u64)> {
        m.r.clone()
    }

    /// Compare every observer of `set` with the reference. Err = (observer label, details).
    ///
    /// Two tiers. Every transition gets the *prefix* tier: all observers, with iterators followed for
    /// a 24-element prefix from either end. Every state whose canonical key (members + representation
    /// fingerprint) is new additionally gets the *full* tier (`full = true`): iterators followed over
    /// the whole set (small domains) and the fresh-set ==/cmp/hash comparisons. A transition that lands
    /// on an already seen key has, by definition of the key, the same members in the same
    /// representation as a state that received the full tier.
    pub fn observe(&self, set: &IntSet<T>, model: &RSet, full: bool) -> Result<(), (String, String)> {
        let n = T::N;
        let k = if full { self.k } else { 24 };
        let fail = |label: &str, d: String| -> Result<(), (String, String)> { Err((label.to_string(), d)) };

        // representation invariant exposed by the hook: cached lengths equal populations
        let (inverted, layout, _pages, total) = set.verif_fingerprint();
        let mut sum = 0u64;
        for (major, index, cached, actual) in &layout {
            if cached != actual {
                return fail("cached page length", format!("page major={major} index={index} cached={cached} actual={actual}"));
            }
            sum += *actual as u64;
        }
        if sum != total {
            return fail("cached set length", format!("cached total {total} != sum of page populations {sum}"));
        }
        if inverted != set.is_inverted() {
            return fail("is_inverted", "mode flag".into());
        }

        // len / is_empty
        if set.len() != model.len() {
            return fail("len", format!("len()={} expected {}", set.len(), model.len()));
        }
        if set.is_empty() != (model.len() == 0) {
            return fail("is_empty", format!("is_empty()={}", set.is_empty()));
        }
        // contains
        for p in &self.probe {
            if set.contains(T::val(*p)) != model.contains(*p) {
                return fail("contains", format!("contains({p})={}", !model.contains(*p)));
            }
        }
        // first / last
        if set.first().map(T::idx) != model.first() {
            return fail("first", format!("first()={:?} expected {:?}", set.first(), model.first()));
        }
        if set.last().map(T::idx) != model.last() {
            return fail("last", format!("last()={:?} expected {:?}", set.last(), model.last()));
        }
        // iter forward / backward
        let head = model.head(k.min(n as usize));
        let got: Vec<u64> = set.iter().take(k).map(T::idx).collect();
        if got != head {
            return fail("iter", first_diff(&got, &head));
        }
        let tail = model.tail_rev(k.min(n as usize));
        let got: Vec<u64> = set.iter().rev().take(k).map(T::idx).collect();
        if got != tail {
            return fail("iter().rev()", first_diff(&got, &tail));
        }
        // double-ended iteration meeting in the middle: next / next_back interleaved in a fixed cyclic
        // pattern (true = next). Every transition: strict alternation; full tier: also back-first and
        // the 2:1 patterns.
        {
            let lim = if k == usize::MAX { usize::MAX } else { k.min(64) };
            let patterns: &[&[bool]] = if full { &[&[true, false], &[false, true], &[true, true, false], &[false, false, true]] } else { &[&[true, false]] };
            for pat in patterns {
                let mut it = set.iter();
                let (mut f, mut b) = (vec![], vec![]);
                let mut steps = 0usize;
                'walk: loop {
                    if steps >= lim {
                        break;
                    }
                    for fwd in pat.iter() {
                        if *fwd {
                            match it.next() {
                                Some(x) => f.push(x.idx()),
                                None => break 'walk,
                            }
                        } else {
                            match it.next_back() {
                                Some(x) => b.push(x.idx()),
                                None => break 'walk,
                            }
                        }
                    }
                    steps += 1;
                }
                if lim == usize::MAX {
                    // the iterator is exhausted (behaviour after the first None is not judged: the
                    // Iterator contract leaves it open); every element was produced exactly once:
                    // front part ascending + back part
                    let mut all = f.clone();
                    all.extend(b.iter().rev());
                    if all != head {
                        return fail("iter() mixed next/next_back", format!("pattern {pat:?}: {}", first_diff(&all, &head)));
                    }
                } else if f[..] != head[..f.len().min(head.len())] || b[..] != tail[..b.len().min(tail.len())] {
                    return fail("iter() mixed next/next_back", format!("pattern {pat:?}: front {:?} back {:?}", &f[..f.len().min(4)], &b[..b.len().min(4)]));
                }
            }
        }
        // inclusive_iter
        match set.inclusive_iter() {
            Some(it) => {
                if inverted {
                    return fail("inclusive_iter", "Some for an inverted set".into());
                }
                let got: Vec<u64> = it.take(k).map(T::idx).collect();
                if got != head {
                    return fail("inclusive_iter", first_diff(&got, &head));
                }
            }
            None => {
                if !inverted {
                    return fail("inclusive_iter", "None for an inclusive set".into());
                }
            }
        }
        // iter_after
        let kk = if k == usize::MAX { usize::MAX } else { k.min(40) };
        let pts: &Vec<u64> = if full { &self.probe } else { &self.v };
        for p in pts {
            let exp = model.after(*p).head(kk.min(n as usize));
            let got: Vec<u64> = set.iter_after(T::val(*p)).take(kk).map(T::idx).collect();
            if got != exp {
                return fail("iter_after", format!("iter_after({p}): {}", first_diff(&got, &exp)));
            }
        }
        // iter_ranges / iter_excluded_ranges (index space: domain adjacency)
        let got: Vec<(u64, u64)> = set.iter_ranges().map(|r| (r.start().idx(), r.end().idx())).collect();
        if got != Self::to_t_ranges(model) {
            return fail("iter_ranges", format!("got {:?} expected {:?}", trunc(&got), trunc(&model.r)));
        }
        let comp = model.complement(n);
        let got: Vec<(u64, u64)> = set
            .iter_excluded_ranges()
            .map(|r| (r.start().idx(), r.end().idx()))
            .collect();
        if got != comp.r {
            return fail("iter_excluded_ranges", format!("got {:?} expected {:?}", trunc(&got), trunc(&comp.r)));
        }
        // intersects_range over V x V (reversed pairs are empty ranges)
        for a in pts {
            for b in pts {
                let got = set.intersects_range(T::val(*a)..=T::val(*b));
                if got != model.intersects_range(*a, *b) {
                    return fail("intersects_range", format!("intersects_range({a}..={b})={got}"));
                }
            }
        }
        // against every operand: intersects_set (both directions), ==, cmp
        for op in &self.operands {
            let exp = !model.intersect(&op.model).r.is_empty();
            if set.intersects_set(&op.set) != exp {
                return fail("intersects_set", format!("self.intersects_set({})={}", op.desc, !exp));
            }
            if op.set.intersects_set(set) != exp {
                return fail("intersects_set", format!("{}.intersects_set(self)={}", op.desc, !exp));
            }
            let eq = *model == op.model;
            if (set == &op.set) != eq || (&op.set == set) != eq {
                return fail("eq", format!("== {} expected {}", op.desc, eq));
            }
            let ord = model.cmp_lex(&op.model);
            if set.cmp(&op.set) != ord {
                return fail("cmp", format!("cmp({}) = {:?} expected {:?}", op.desc, set.cmp(&op.set), ord));
            }
            if op.set.cmp(set) != ord.reverse() {
                return fail("cmp", format!("{}.cmp(self) = {:?} expected {:?}", op.desc, op.set.cmp(set), ord.reverse()));
            }
            if full && (set.partial_cmp(&op.set) != Some(ord) || (set < &op.set) != (ord == std::cmp::Ordering::Less) || (set >= &op.set) != (ord != std::cmp::Ordering::Less)) {
                return fail("partial_cmp", format!("partial_cmp({}) / operators disagree with {:?}", op.desc, ord));
            }
            if eq && hash_of(set) != hash_of(&op.set) {
                return fail("hash", format!("equal to {} but hashes differ", op.desc));
            }
        }
        // "from elsewhere": the same members built freshly in either mode must be ==, cmp Equal and
        // hash-equal to this set whatever its history
        let h = hash_of(set);
        if full && model.len() <= 2 * WIDE {
            let mut fresh = IntSet::<T>::empty();
            for (a, b) in &model.r {
                fresh.insert_range(T::val(*a)..=T::val(*b));
            }
            if !(set == &fresh) || !(&fresh == set) {
                return fail("eq", "not equal to a fresh inclusive set with the same members".into());
            }
            if set.cmp(&fresh) != std::cmp::Ordering::Equal || fresh.cmp(set) != std::cmp::Ordering::Equal {
                return fail("cmp", "not Equal to a fresh inclusive set with the same members".into());
            }
            if hash_of(&fresh) != h {
                return fail("hash", "hash differs from a fresh inclusive set with the same members".into());
            }
        }
        // other documented construction routes must give the same set: FromIterator (sorted input),
        // Default + extend_unsorted (descending input), new() + Extend, Clone
        if full && model.len() <= 2 * WIDE {
            let vals: Vec<u64> = model.head(model.len() as usize);
            let a: IntSet<T> = vals.iter().map(|x| T::val(*x)).collect();
            let mut b = IntSet::<T>::default();
            b.extend_unsorted(vals.iter().rev().map(|x| T::val(*x)));
            let mut c = IntSet::<T>::new();
            c.extend(vals.iter().map(|x| T::val(*x)));
            let d = set.clone();
            for (name, o) in [("from_iter", &a), ("default + extend_unsorted(descending)", &b), ("new + extend", &c), ("clone", &d)] {
                if !(set == o) || !(o == set) || o.len() != model.len() || set.cmp(o) != std::cmp::Ordering::Equal || hash_of(o) != h {
                    return fail("constructors", format!("the set built by {name} from the same members is not equal / Equal / hash-equal to this set"));
                }
            }
        }
        if full && comp.len() <= 2 * WIDE {
            let mut fresh = IntSet::<T>::all();
            for (a, b) in &comp.r {
                fresh.remove_range(T::val(*a)..=T::val(*b));
            }
            if !(set == &fresh) || !(&fresh == set) {
                return fail("eq", "not equal to a fresh inverted set with the same members".into());
            }
            if set.cmp(&fresh) != std::cmp::Ordering::Equal || fresh.cmp(set) != std::cmp::Ordering::Equal {
                return fail("cmp", "not Equal to a fresh inverted set with the same members".into());
            }
            if hash_of(&fresh) != h {
                return fail("hash", "hash differs from a fresh inverted set with the same members".into());
            }
        }
        Ok(())
    }
}

pub fn hash_of<T: Dom>(s: &IntSet<T>) -> u64 {
    let mut h = Fnv::new();
    s.hash(&mut h);
    h.0
}

fn trunc(v: &[(u64, u64)]) -> Vec<(u64, u64)> {
    v.iter().copied().take(8).collect()
}

fn first_diff(got: &[u64], exp: &[u64]) -> String {
    let i = got.iter().zip(exp.iter()).position(|(a, b)| a != b).unwrap_or(got.len().min(exp.len()));
    format!(
        "lengths {}/{} first difference at position {}: got {:?} expected {:?}",
        got.len(),
        exp.len(),
        i,
        got.get(i),
        exp.get(i)
    )
}

// ---------------------------------------------------------------------------
// level-synchronous BFS
// ---------------------------------------------------------------------------

pub struct BfsResult<T: Dom> {
    /// cumulative unique states after each level (index 0 = initial state only)
    pub unique_by_level: Vec<u64>,
    pub transitions: u64,
    pub full_observations: u64,
    /// first failure in BFS order (shortest history)
    pub failure: Option<State<T>>,
    /// all states of the search (for the codec round trip), only kept when asked
    pub member_sets: Vec<Vec<(u64, u64)>>,
    pub modes_seen: (u64, u64),
    pub digests: std::collections::HashSet<u64>,
    pub nontrivial: std::collections::HashSet<u64>,
    pub max_pages: usize,
    pub states_with_empty_page: u64,
}

pub fn bfs_level_sync<T: Dom>(sys: &Sys<T>, depth: usize, threads_parallel: bool, keep_members: bool) -> BfsResult<T> {
    use rayon::prelude::*;
    use std::collections::HashSet;
    let init = sys.init();
    let mut seen: HashSet<Key> = HashSet::new();
    seen.insert(init.key.clone());
    let mut res = BfsResult {
        unique_by_level: vec![1],
        transitions: 0,
        full_observations: 1,
        failure: None,
        member_sets: vec![],
        modes_seen: (0, 0),
        digests: Default::default(),
        nontrivial: Default::default(),
        max_pages: 0,
        states_with_empty_page: 0,
    };
    let mut members_seen: HashSet<Vec<(u64, u64)>> = HashSet::new();
    let mut note = |st: &State<T>, res: &mut BfsResult<T>| {
        if st.key.fp.0 {
            res.modes_seen.1 += 1
        } else {
            res.modes_seen.0 += 1
        }
        res.max_pages = res.max_pages.max(st.key.fp.2);
        let d = vcore::digest_of(&(T::NAME, &st.key));
        res.digests.insert(d);
        let len = st.model.len();
        if len != 0 && len != T::N {
            res.nontrivial.insert(d);
        }
        if st.key.fp.1.iter().any(|p| p.3 == 0) {
            res.states_with_empty_page += 1;
        }
        if keep_members && members_seen.insert(st.key.members.clone()) {
            res.member_sets.push(st.key.members.clone());
        }
    };
    note(&init, &mut res);
    if init.failed.is_some() {
        res.failure = Some(init);
        return res;
    }
    let mut frontier = vec![init];
    let na = sys.actions.len();
    for _level in 1..=depth {
        let mut next: Vec<State<T>> = vec![];
        for chunk in frontier.chunks(1024) {
            // successors whose key is already known (from earlier levels or earlier chunks) are dropped
            // inside the parallel phase: `seen` is read-only while a chunk is expanded
            let seen_ref = &seen;
            let keep = move |s: &State<T>| s.failed.is_some() || !seen_ref.contains(&s.key);
            let succ: Vec<State<T>> = if threads_parallel {
                chunk
                    .par_iter()
                    .flat_map_iter(|st| (0..na).map(move |ai| sys.step(st, ai, false)).filter(keep))
                    .collect()
            } else {
                chunk.iter().flat_map(|st| (0..na).map(move |ai| sys.step(st, ai, false)).filter(keep)).collect()
            };
            res.transitions += (chunk.len() * na) as u64;
            // deterministic order: chunk order, state order, action order
            let mut fresh: Vec<State<T>> = vec![];
            for s in succ {
                if s.failed.is_some() {
                    if res.failure.is_none() {
                        res.failure = Some(s);
                    }
                    continue;
                }
                if seen.insert(s.key.clone()) {
                    note(&s, &mut res);
                    fresh.push(s);
                }
            }
            // full observer tier on every new key
            let full_check = |s: &mut State<T>| {
                let r = vcore::guard(|| sys.observe(&s.set, &s.model, true));
                s.failed = match r {
                    Ok(Ok(())) => None,
                    Ok(Err(e)) => Some(e),
                    Err(p) => Some((format!("panic {}", p.kind()), format!("{} at {}:{}", p.message, p.file, p.line))),
                };
            };
            if threads_parallel {
                fresh.par_iter_mut().for_each(full_check);
            } else {
                fresh.iter_mut().for_each(full_check);
            }
            res.full_observations += fresh.len() as u64;
            for s in fresh {
                if s.failed.is_some() {
                    if res.failure.is_none() {
                        res.failure = Some(s);
                    }
                } else {
                    next.push(s);
                }
            }
            if res.failure.is_some() {
                break;
            }
        }
        res.unique_by_level.push(seen.len() as u64);
        if res.failure.is_some() {
            break;
        }
        frontier = next;
    }
    res
}

// ---------------------------------------------------------------------------
// stateright model over the same step function
// ---------------------------------------------------------------------------

pub struct SrModel<T: Dom> {
    pub sys: std::sync::Arc<Sys<T>>,
    /// stateright does not evaluate properties on states at the depth bound, so the first failed
    /// transition is also recorded here
    pub first_failure: std::sync::Arc<std::sync::Mutex<Option<State<T>>>>,
    pub transitions: std::sync::Arc<std::sync::atomic::AtomicU64>,
    /// keys that already received the full observer tier
    pub full_seen: std::sync::Arc<std::sync::Mutex<std::collections::HashSet<Key>>>,
}

impl<T: Dom> stateright::Model for SrModel<T> {
    type State = State<T>;
    type Action = usize;
    fn init_states(&self) -> Vec<Self::State> {
        vec![self.sys.init()]
    }
    fn actions(&self, _state: &Self::State, actions: &mut Vec<Self::Action>) {
        actions.extend(0..self.sys.actions.len());
    }
    fn next_state(&self, last: &Self::State, action: Self::Action) -> Option<Self::State> {
        let mut s = self.sys.step(last, action, false);
        if s.failed.is_none() && self.full_seen.lock().unwrap().insert(s.key.clone()) {
            let r = vcore::guard(|| self.sys.observe(&s.set, &s.model, true));
            s.failed = match r {
                Ok(Ok(())) => None,
                Ok(Err(e)) => Some(e),
                Err(p) => Some((format!("panic {}", p.kind()), format!("{} at {}:{}", p.message, p.file, p.line))),
            };
        }
        self.transitions.fetch_add(1, std::sync::atomic::Ordering::Relaxed);
        if s.failed.is_some() {
            let mut g = self.first_failure.lock().unwrap();
            if g.is_none() {
                *g = Some(s.clone());
            }
        }
        Some(s)
    }
    fn properties(&self) -> Vec<stateright::Property<Self>> {
        vec![stateright::Property::always("every observer agrees with the reference set", |_, st: &State<T>| {
            st.failed.is_none()
        })]
    }
}
