//! C14 — integer sets, range sets and the sparse-bit-set codec act as mathematical sets.
//! See DESIGN.md §3 C14.
//!
//! Spaces enumerated (all exhaustively, in a fixed order):
//!  1. IntSet<T>: every sequence of <= d actions from the per-domain alphabet (`Sys::new`), explored
//!     breadth-first over the real object with de-duplication on (reference members, representation
//!     fingerprint from the cfg hook); after every transition every observer is compared with the
//!     reference range-list set. Two engines run the same step function: a level-synchronous
//!     parallel BFS (exact depth, all cores) and stateright's BFS checker (one thread, strict FIFO);
//!     their unique-state counts must agree.
//!  2. RangeSet<u32|u16|Fixed>: every sequence of <= d inserts over all ordered endpoint pairs.
//!  3. Codec: round trip of every distinct member set reached in (1) on the 1 536-value domain,
//!     every subset of 16 consecutive values at the bottom and at the top of u32, and a boundary
//!     family, for branch factors 2, 4, 8, 32 and the min-size choice; the decoder against a
//!     spec-text reference decoder on every byte string up to a length bound x (bias, max) pairs.

mod codec;
mod intset;
mod rangeset;
mod rset;

use intset::*;
use rayon::prelude::*;
use serde_json::{json, Value};
use stateright::{Checker, Model};
use std::collections::HashSet;
use std::sync::atomic::{AtomicU64, Ordering};
use std::sync::{Arc, Mutex};
use vcore::*;

fn main() {
    if let Ok(spec) = std::env::var("C14_WORKER") {
        huge_worker(&spec);
        return;
    }
    main_for("C14", body)
}

fn body(run: &Run, replay: Option<&Value>) {
    run.rule("IntSet: a case is one transition (state reached by an action sequence + one action) with all observers compared; distinct = distinct canonical state keys (reference members + IntSet::verif_fingerprint: mode flag, page map with per-page cached/actual lengths, allocated pages, cached length), non-trivial = members neither empty nor the whole domain. RangeSet: distinct final cell masks. Codec: distinct encoded byte strings / distinct decoded (members, consumed) results, non-trivial = non-empty set");
    run.assume("the reference set (sorted disjoint range list, rset.rs) is checked against BTreeSet<u64> on all pairs of subsets of a 7-value universe at start-up; a failure of that gate is a machinery error");
    run.assume("the spec-text sparse-bit-set decoder in codec.rs is a faithful transcription of https://w3c.github.io/IFT/Overview.html#sparse-bit-set-decoding (header bits 0-1 branch factor, 2-6 height; FIFO of (start, depth); all-zero node = filled; LSB-first bits; whole bytes consumed)");
    run.assume("ordering of sets = lexicographic order of the ascending element sequences (as BTreeSet); an empty range a..=b with a>b contains nothing");
    if let Some(case) = replay {
        replay_case(run, case);
        return;
    }
    match rset::self_test() {
        Ok(n) => run.count("reference_self_test_pairs", n),
        Err(e) => {
            run.machinery_error(&format!("reference set self-test failed: {e}"));
            return;
        }
    }
    // (1) IntSet
    let q = run.tier == Tier::Quick;
    // (level-synchronous depth, stateright depth) per domain
    let small_depth = std::env::var("C14_SMALL_DEPTH").ok().and_then(|s| s.parse().ok()).unwrap_or(if q { 4 } else { 6 });
    let small_members = domain::<Small>(run, small_depth, if q { 2 } else { 3 }, true);
    domain::<Even>(run, if q { 3 } else { 4 }, 2, false);
    // discontinuous domain whose holes straddle page boundaries
    domain::<Holes>(run, if q { 2 } else { 4 }, 2, false);
    domain::<u8>(run, if q { 4 } else { 6 }, if q { 2 } else { 3 }, false);
    domain::<u16>(run, if q { 2 } else { 3 }, 2, false);
    domain::<font_types::GlyphId16>(run, if q { 2 } else { 3 }, 2, false);
    domain::<font_types::NameId>(run, if q { 2 } else { 3 }, 2, false);
    domain::<u32>(run, if q { 2 } else { 3 }, 2, false);
    domain::<font_types::GlyphId>(run, if q { 2 } else { 3 }, 2, false);
    domain::<font_types::Tag>(run, if q { 2 } else { 3 }, 2, false);
    // (2) RangeSet
    eprintln!("[c14] intset done at {:.1}s", run.elapsed());
    range_sets(run);
    eprintln!("[c14] rangesets done at {:.1}s", run.elapsed());
    // (3) codec
    codec_round_trips(run, &small_members);
    eprintln!("[c14] round trips done at {:.1}s", run.elapsed());
    codec_decoder(run);
    eprintln!("[c14] decoder done at {:.1}s", run.elapsed());
    codec_trees(run);
    eprintln!("[c14] decoder tree family done at {:.1}s", run.elapsed());
    codec_huge(run);
    eprintln!("[c14] huge decoder cases done at {:.1}s", run.elapsed());
}

// ---------------------------------------------------------------------------
// IntSet
// ---------------------------------------------------------------------------

fn act_json<T: Dom>(sys: &Sys<T>, history: &[u16]) -> Vec<String> {
    history.iter().map(|a| format!("{:?}", sys.actions[*a as usize])).collect()
}

fn report_failure<T: Dom>(run: &Run, sys: &Sys<T>, st: &State<T>, engine: &str) {
    let (label, details) = st.failed.clone().unwrap();
    let last = st.history.last().map(|a| sys.actions[*a as usize].kind()).unwrap_or("new");
    let identity = format!("IntSet {} wrong after {}", label, last);
    run.violation(
        &identity,
        &format!(
            "domain {} ({} engine): after actions {:?} the observer `{}` disagrees with the reference set: {}",
            T::NAME,
            engine,
            act_json(sys, &st.history),
            label,
            details
        ),
        json!({"kind":"intset","domain":T::NAME,"start_full":sys.start_full,"actions":st.history,"action_names":act_json(sys,&st.history)}),
    );
}

/// returns the distinct member sets reached (when keep)
fn domain<T: Dom>(run: &Run, depth: usize, sr_depth: usize, keep: bool) -> Vec<Vec<(u64, u64)>> {
    let t0 = std::time::Instant::now();
    let sys = Arc::new(Sys::<T>::new(false));
    run.bound(
        &format!("intset.{}", T::NAME),
        json!({"depth": depth, "stateright_depth_1_thread": sr_depth, "stateright_depth_16_threads": if run.tier == Tier::Quick { sr_depth } else { (sr_depth + 1).min(depth) }, "actions": sys.actions.len(), "V": sys.v, "contains_probes": sys.probe.len(),
               "operands": sys.operands.iter().map(|o| format!("{} {:?}", o.desc, o.model.r)).collect::<Vec<_>>(),
               "lists": sys.lists, "iterator_prefix_followed": if sys.k == usize::MAX { json!("whole") } else { json!(sys.k) }}),
    );
    let res = bfs_level_sync(&sys, depth, true, keep);
    run.evals(res.transitions);
    run.trans(res.transitions);
    run.observe_many(&res.digests, &res.nontrivial);
    run.count(&format!("intset.{}.unique_states", T::NAME), *res.unique_by_level.last().unwrap());
    run.count(&format!("intset.{}.transitions", T::NAME), res.transitions);
    run.count(&format!("intset.{}.full_tier_observations", T::NAME), res.full_observations);
    run.count(&format!("intset.{}.states_inverted", T::NAME), res.modes_seen.1);
    run.count(&format!("intset.{}.states_with_empty_page", T::NAME), res.states_with_empty_page);
    run.count(&format!("intset.{}.max_pages", T::NAME), res.max_pages as u64);
    run.extra(&format!("intset.{}.unique_by_level", T::NAME), json!(res.unique_by_level));
    if keep {
        run.sample(json!({"domain": T::NAME, "example_actions": sys.actions.iter().take(4).map(|a| format!("{a:?}")).collect::<Vec<_>>(), "unique_by_level": res.unique_by_level}));
    }
    if let Some(f) = &res.failure {
        report_failure(run, &sys, f, "level-synchronous BFS");
        return res.member_sets;
    }

    // determinism: the same search sequentially (to depth 2) must see the same counts
    let seq_depth = depth.min(2);
    let seq = bfs_level_sync(&sys, seq_depth, false, false);
    if seq.unique_by_level[..] != res.unique_by_level[..seq.unique_by_level.len()] {
        run.machinery_error(&format!(
            "{}: sequential and parallel BFS disagree on unique-state counts: {:?} vs {:?}",
            T::NAME,
            seq.unique_by_level,
            res.unique_by_level
        ));
    }

    // stateright BFS, one thread (strict FIFO) and 16 threads. target_max_depth(d+2): states reached
    // by d actions are still expanded (their successors are generated and compared in next_state).
    // Unique states of a run = everything generated = cumulative count through level d+1... we use
    // target d+1 so that generated = cumulative through level d.
    for threads in [1usize, 16] {
        // the 16-thread run goes one level deeper than the sequential one (it is cheap)
        let sr_depth = if threads == 1 || run.tier == Tier::Quick { sr_depth } else { (sr_depth + 1).min(depth) };
        let first_failure = Arc::new(Mutex::new(None));
        let transitions = Arc::new(AtomicU64::new(0));
        let model = SrModel { sys: sys.clone(), first_failure: first_failure.clone(), transitions: transitions.clone(), full_seen: Default::default() };
        let checker = model.checker().threads(threads).target_max_depth(sr_depth + 1).spawn_bfs().join();
        let uniq = checker.unique_state_count() as u64;
        let tr = transitions.load(Ordering::Relaxed);
        run.evals(tr);
        run.trans(tr);
        run.count(&format!("intset.{}.stateright_{}t_unique", T::NAME, threads), uniq);
        run.count(&format!("intset.{}.stateright_{}t_transitions", T::NAME, threads), tr);
        let discovered = checker.discoveries().into_iter().next();
        if let Some((_name, path)) = discovered {
            let st = path.last_state().clone();
            report_failure(run, &sys, &st, "stateright BFS");
        } else if let Some(st) = first_failure.lock().unwrap().clone() {
            report_failure(run, &sys, &st, "stateright BFS (depth-bound level)");
        } else {
            let expect = res.unique_by_level[sr_depth.min(res.unique_by_level.len() - 1)];
            if threads == 1 && uniq != expect {
                run.machinery_error(&format!(
                    "{}: stateright (1 thread) found {} unique states to depth {}, level-synchronous BFS {}",
                    T::NAME,
                    uniq,
                    sr_depth,
                    expect
                ));
            }
            if threads > 1 {
                // with several threads stateright's queue is not level ordered, a state may first be
                // reached on a longer path and then not expanded at the bound: never more states
                // than the exact count, and recorded for the reader
                if uniq > expect {
                    run.machinery_error(&format!("{}: stateright ({} threads) found more states ({}) than exist to depth {} ({})", T::NAME, threads, uniq, sr_depth, expect));
                }
                run.extra(&format!("intset.{}.stateright_16t_equals_exact", T::NAME), json!(uniq == expect));
            }
        }
    }
    eprintln!("[c14] {} depth {} done in {:.1}s unique {:?}", T::NAME, depth, t0.elapsed().as_secs_f64(), res.unique_by_level);
    res.member_sets
}

fn replay_intset<T: Dom>(run: &Run, case: &Value) {
    let sys = Sys::<T>::new(case["start_full"].as_bool().unwrap_or(false));
    let mut st = sys.init();
    for a in case["actions"].as_array().cloned().unwrap_or_default() {
        let ai = a.as_u64().unwrap() as usize;
        st = sys.step(&st, ai, true);
        println!("  {:?} -> members {:?} fingerprint {:?}", sys.actions[ai], st.model.r.iter().take(6).collect::<Vec<_>>(), st.key.fp);
        if st.failed.is_some() {
            break;
        }
    }
    if st.failed.is_some() {
        report_failure(run, &sys, &st, "replay");
    }
}

// ---------------------------------------------------------------------------
// RangeSet
// ---------------------------------------------------------------------------

macro_rules! range_set_sweep {
    ($run:expr, $m:ident, $name:expr, $endpoints:expr, $depth:expr) => {{
        let run: &Run = $run;
        let cells = rangeset::Cells::new(&$endpoints);
        let ne = cells.endpoints.len();
        let pairs: Vec<(usize, usize)> = (0..ne).flat_map(|a| (0..ne).map(move |b| (a, b))).collect();
        let np = pairs.len();
        let depth: usize = $depth;
        run.bound(&format!("rangeset.{}", $name), json!({"endpoints": $endpoints, "ordered_pairs": np, "max_inserts": depth, "cells": cells.cells.len()}));
        let total = AtomicU64::new(0);
        let masks: Mutex<HashSet<u64>> = Mutex::new(HashSet::new());
        // all sequences of length 1..=depth: the first element selects the parallel job
        (0..np).into_par_iter().for_each(|first| {
            let operands = rangeset::$m::fixed_operands(&cells);
            let mut local: HashSet<u64> = HashSet::new();
            let mut n = 0u64;
            for len in 1..=depth {
                let mut seq = vec![0usize; len];
                seq[0] = first;
                // the remaining len-1 positions: counter in base np
                let rest = (np as u64).pow(len as u32 - 1);
                for c in 0..rest {
                    let mut x = c;
                    for i in (1..len).rev() {
                        seq[i] = (x % np as u64) as usize;
                        x /= np as u64;
                    }
                    n += 1;
                    match guard(|| rangeset::$m::check_sequence(&cells, &pairs, &seq, &operands)) {
                        Ok(Ok((mask, _))) => {
                            local.insert(mask as u64);
                        }
                        Ok(Err((label, d))) => run.violation(
                            &format!("{} ({})", label, $name),
                            &format!("insert sequence {:?}: {}", seq.iter().map(|p| (cells.endpoints[pairs[*p].0].0, cells.endpoints[pairs[*p].1].0)).collect::<Vec<_>>(), d),
                            json!({"kind":"rangeset","type":$name,"seq":seq}),
                        ),
                        Err(p) => run.violation(
                            &format!("RangeSet panic {} ({})", p.kind(), $name),
                            &p.message,
                            json!({"kind":"rangeset","type":$name,"seq":seq}),
                        ),
                    }
                }
            }
            total.fetch_add(n, Ordering::Relaxed);
            masks.lock().unwrap().extend(local);
        });
        let n = total.load(Ordering::Relaxed);
        run.evals(n);
        run.trans(n * depth as u64);
        run.count(&format!("rangeset.{}.sequences", $name), n);
        let masks = masks.into_inner().unwrap();
        run.count(&format!("rangeset.{}.distinct_final_sets", $name), masks.len() as u64);
        let tagged: HashSet<u64> = masks.iter().map(|m| digest_of(&($name, *m))).collect();
        let nontriv: HashSet<u64> = masks.iter().filter(|m| **m != 0).map(|m| digest_of(&($name, *m))).collect();
        run.observe_many(&tagged, &nontriv);
    }};
}

fn endpoints_for(name: &str) -> Vec<i64> {
    match name {
        "u32" => vec![0, 1, 2, 3, 5, 6, u32::MAX as i64],
        "u16" => vec![0, 1, 2, 3, 5, 6, u16::MAX as i64],
        _ => vec![i32::MIN as i64, i32::MIN as i64 + 1, -1, 0, 1, 3, i32::MAX as i64 - 1, i32::MAX as i64],
    }
}

fn range_sets(run: &Run) {
    let d = run.tier.pick(3, 4);
    range_set_sweep!(run, rs_u32, "u32", endpoints_for("u32"), d);
    range_set_sweep!(run, rs_u16, "u16", endpoints_for("u16"), d);
    range_set_sweep!(run, rs_fixed, "Fixed", endpoints_for("Fixed"), run.tier.pick(3, 3));
}

fn replay_rangeset(run: &Run, case: &Value) {
    let name = case["type"].as_str().unwrap_or("u32").to_string();
    let seq: Vec<usize> = case["seq"].as_array().unwrap().iter().map(|v| v.as_u64().unwrap() as usize).collect();
    let cells = rangeset::Cells::new(&endpoints_for(&name));
    let ne = cells.endpoints.len();
    let pairs: Vec<(usize, usize)> = (0..ne).flat_map(|a| (0..ne).map(move |b| (a, b))).collect();
    let r = match name.as_str() {
        "u32" => guard(|| rangeset::rs_u32::check_sequence(&cells, &pairs, &seq, &rangeset::rs_u32::fixed_operands(&cells)).map(|_| ())),
        "u16" => guard(|| rangeset::rs_u16::check_sequence(&cells, &pairs, &seq, &rangeset::rs_u16::fixed_operands(&cells)).map(|_| ())),
        _ => guard(|| rangeset::rs_fixed::check_sequence(&cells, &pairs, &seq, &rangeset::rs_fixed::fixed_operands(&cells)).map(|_| ())),
    };
    match r {
        Ok(Ok(())) => println!("replay: sequence passes"),
        Ok(Err((label, d))) => run.violation(&format!("{} ({})", label, name), &d, case.clone()),
        Err(p) => run.violation(&format!("RangeSet panic {} ({})", p.kind(), name), &p.message, case.clone()),
    }
}

// ---------------------------------------------------------------------------
// codec
// ---------------------------------------------------------------------------

fn boundary_family(max_fill_log2: u32) -> Vec<Vec<(u64, u64)>> {
    let mut e: Vec<u64> = vec![0, 1, u32::MAX as u64 - 1, u32::MAX as u64];
    for k in 1..=31u32 {
        let p = 1u64 << k;
        e.extend([p - 1, p, p + 1]);
    }
    e.sort();
    e.dedup();
    let mut out: Vec<Vec<(u64, u64)>> = vec![vec![]];
    // singletons and pairs of boundary values (height boundaries of every branch factor)
    for (i, a) in e.iter().enumerate() {
        out.push(vec![(*a, *a)]);
        for b in &e[i + 1..] {
            if *b == a + 1 {
                out.push(vec![(*a, *b)]);
            } else {
                out.push(vec![(*a, *a), (*b, *b)]);
            }
        }
    }
    // filled-node boundaries: aligned and misaligned power-of-two ranges. The encoder rescans the
    // whole previous layer for every filled node (quadratic, see the TODO in commit_current_node), so
    // filled ranges are kept to 2^max_fill_log2 values.
    for k in 1..=max_fill_log2 {
        let p = 1u64 << k;
        for (a, b) in [(0, p - 1), (0, p), (1, p), (1, p - 1), (p, 2 * p - 1), (p, 2 * p), (p - 1, 2 * p - 1), (3 * p, 4 * p - 1)] {
            out.push(vec![(a, b)]);
            out.push(vec![(a, b), (b + 2, b + 2)]);
        }
        // aligned block at the very top of u32
        let top = u32::MAX as u64;
        out.push(vec![(top - p + 1, top)]);
        out.push(vec![(top - p, top)]);
        out.push(vec![(top - p + 1, top - 1)]);
        out.push(vec![(0, 0), (top - p + 1, top)]);
    }
    out
}

fn codec_round_trips(run: &Run, small_members: &[Vec<(u64, u64)>]) {
    let mut sets: Vec<Vec<(u64, u64)>> = small_members.to_vec();
    let reached = sets.len();
    let fill = run.tier.pick(11u32, 14u32);
    let fam = boundary_family(fill);
    let nfam = fam.len();
    sets.extend(fam);
    // every subset of 16 consecutive values at the bottom and at the top of u32
    let sub_bits = run.tier.pick(14u32, 16u32);
    for base in [0u64, (u32::MAX as u64) - (sub_bits as u64 - 1)] {
        for m in 0u32..(1 << sub_bits) {
            let vals = (0..sub_bits as u64).filter(|i| m >> i & 1 == 1).map(|i| base + i);
            sets.push(rset::RSet::from_values(vals).r);
        }
    }
    run.bound(
        "codec.round_trip",
        json!({"sets_reached_by_intset_bfs_on_Small1536": reached, "boundary_family": nfam, "largest_filled_range_log2": fill, "all_subsets_of_consecutive_values": sub_bits, "subset_bases": [0, (u32::MAX as u64) - (sub_bits as u64 - 1)], "branch_factors": [2,4,8,32,"min-size"]}),
    );
    let all: Mutex<HashSet<u64>> = Mutex::new(HashSet::new());
    let non: Mutex<HashSet<u64>> = Mutex::new(HashSet::new());
    sets.par_chunks(256).for_each(|chunk| {
        let mut la = HashSet::new();
        let mut ln = HashSet::new();
        for m in chunk {
            match codec::round_trip(m) {
                Ok(d) => {
                    la.insert(d);
                    if !m.is_empty() {
                        ln.insert(d);
                    }
                }
                Err((label, details)) => run.violation(
                    &format!("sparse bit set: {label}"),
                    &format!("set {:?}: {}", m.iter().take(8).collect::<Vec<_>>(), details),
                    json!({"kind":"codec_round_trip","members":m}),
                ),
            }
        }
        all.lock().unwrap().extend(la);
        non.lock().unwrap().extend(ln);
    });
    run.evals(sets.len() as u64 * 5);
    run.trans(sets.len() as u64 * 15);
    run.count("codec.round_trip.sets", sets.len() as u64);
    let (a, n) = (all.into_inner().unwrap(), non.into_inner().unwrap());
    run.count("codec.round_trip.distinct_encodings", a.len() as u64);
    run.observe_many(&a, &n);
    run.sample(json!({"codec_round_trip_example": {"members": [[2,2],[33,33],[323,323]], "bf8_bytes": hex(&codec::encode_bf(&codec::set_from_ranges(&[(2,2),(33,33),(323,323)]), 8))}}));
}

const BIAS_MAX: [(u32, u32); 11] = [
    (0, u32::MAX),
    (0, 0),
    (1, 10),
    (u32::MAX, u32::MAX),
    (5, 4),
    (3, 1000),
    // top of u32: bias + value overflows, max just below / at the top, bias above max
    (u32::MAX - 1, u32::MAX),
    (u32::MAX - 10, u32::MAX - 2),
    (0x8000_0000, u32::MAX),
    (1, u32::MAX - 1),
    (u32::MAX - 3, 2),
];

fn codec_decoder(run: &Run) {
    // all byte strings of length 0..=L over all 256 byte values, plus (thorough) length L+1 with a
    // full header byte and the remaining bytes from a 32-value alphabet
    let full_len = 3usize;
    let alpha: Vec<u8> = vec![
        0x00, 0x01, 0x02, 0x03, 0x04, 0x05, 0x08, 0x0f, 0x10, 0x11, 0x20, 0x33, 0x40, 0x55, 0x7f, 0x80, 0x81, 0xaa, 0xc0, 0xf0, 0xfe, 0xff, 0x0c, 0x30, 0x06, 0x09, 0x18, 0x24, 0x42, 0x99, 0xe7, 0x3c,
    ];
    // third byte: quick = 64 values (the 32 above and their complements), thorough = all 256
    let third: Vec<u8> = if run.tier == Tier::Quick {
        let mut t: Vec<u8> = alpha.iter().flat_map(|b| [*b, !*b]).collect();
        t.sort();
        t.dedup();
        t
    } else {
        (0u32..256).map(|b| b as u8).collect()
    };
    let ext_len = run.tier.pick(4usize, 5usize);
    let ext_alpha: &[u8] = if run.tier == Tier::Quick { &alpha[..16] } else { &alpha[..] };
    run.bound(
        "codec.decoder",
        json!({"all_byte_strings_up_to_len": if third.len() == 256 { 3 } else { 2 }, "len3_third_byte_values": third.len(), "extended_len": ext_len, "extended_alphabet_after_header": ext_alpha.iter().map(|b| format!("{b:02x}")).collect::<Vec<_>>(),
               "bias_max_pairs": BIAS_MAX.iter().map(|(b,m)| json!([b,m])).collect::<Vec<_>>(),
               "not_run_when_reference_population_exceeds": codec::LARGE}),
    );
    let counts = [AtomicU64::new(0), AtomicU64::new(0), AtomicU64::new(0), AtomicU64::new(0), AtomicU64::new(0)];
    let all: Mutex<HashSet<u64>> = Mutex::new(HashSet::new());
    let non: Mutex<HashSet<u64>> = Mutex::new(HashSet::new());
    let check = |data: &[u8], la: &mut HashSet<u64>, ln: &mut HashSet<u64>| {
        for (bias, max) in BIAS_MAX {
            match codec::decode_case(data, bias, max) {
                Ok((o, d)) => {
                    let slot = match o {
                        codec::DecodeOutcome::Compared { ok_result: true, members } => {
                            la.insert(d);
                            if members > 0 {
                                ln.insert(d);
                            }
                            0
                        }
                        codec::DecodeOutcome::Compared { ok_result: false, .. } => 1,
                        codec::DecodeOutcome::UnsupportedHeight => 2,
                        codec::DecodeOutcome::SkippedLarge => 3,
                    };
                    counts[slot].fetch_add(1, Ordering::Relaxed);
                }
                Err((label, details)) => run.violation(
                    &format!("sparse bit set: {label}"),
                    &format!("bytes {} bias {} max {}: {}", hex(data), bias, max, details),
                    json!({"kind":"codec_decode","bytes":hex(data),"bias":bias,"max":max}),
                ),
            }
            counts[4].fetch_add(1, Ordering::Relaxed);
        }
    };
    // length 0
    {
        let (mut la, mut ln) = (HashSet::new(), HashSet::new());
        check(&[], &mut la, &mut ln);
    }
    (0u32..256).into_par_iter().for_each(|h0| {
        let (mut la, mut ln) = (HashSet::new(), HashSet::new());
        let h0 = h0 as u8;
        check(&[h0], &mut la, &mut ln);
        for b1 in 0u32..256 {
            check(&[h0, b1 as u8], &mut la, &mut ln);
            for b2 in third.iter() {
                check(&[h0, b1 as u8, *b2], &mut la, &mut ln);
            }
        }
        // extended lengths over the reduced alphabet
        for len in (full_len + 1)..=ext_len {
            let k = len - 1;
            let mut idx = vec![0usize; k];
            let mut buf = vec![h0; len];
            loop {
                for i in 0..k {
                    buf[i + 1] = ext_alpha[idx[i]];
                }
                check(&buf, &mut la, &mut ln);
                let mut i = 0;
                loop {
                    idx[i] += 1;
                    if idx[i] < ext_alpha.len() {
                        break;
                    }
                    idx[i] = 0;
                    i += 1;
                    if i == k {
                        break;
                    }
                }
                if i == k {
                    break;
                }
            }
        }
        all.lock().unwrap().extend(la);
        non.lock().unwrap().extend(ln);
    });
    let n = counts[4].load(Ordering::Relaxed);
    run.evals(n);
    run.trans(n);
    run.count("codec.decoder.cases", n);
    run.count("codec.decoder.both_decode_and_agree", counts[0].load(Ordering::Relaxed));
    run.count("codec.decoder.both_reject", counts[1].load(Ordering::Relaxed));
    run.count("codec.decoder.unsupported_height_no_panic_only", counts[2].load(Ordering::Relaxed));
    run.count("codec.decoder.skipped_population_above_2^16", counts[3].load(Ordering::Relaxed));
    let (a, nn) = (all.into_inner().unwrap(), non.into_inner().unwrap());
    run.count("codec.decoder.distinct_results", a.len() as u64);
    run.observe_many(&a, &nn);
    run.sample(json!({"codec_decode_example": {"bytes":"0e211101040208", "spec_members": codec::spec_decode(&unhex("0e211101040208")).map(|s| s.ranges.iter().map(|r| r.0 as u64).collect::<Vec<_>>()).unwrap_or_default()}}));
    // conformance gate of the reference decoder: the specification's worked example
    let ex = codec::spec_decode(&unhex("0e211101040208")).map(|s| s.ranges.iter().map(|r| r.0 as u64).collect::<Vec<_>>());
    if ex != Ok(vec![2, 33, 323]) {
        run.machinery_error(&format!("spec-text decoder does not reproduce the specification's example 2: {:?}", ex));
    }
}


/// Decoder against the spec-text decoder on streams built node by node: every sequence of <= N nodes
/// over `codec::node_alphabet(bf)` x branch factor x height in {1, 2, 3, max-1, max, max+1} x 3
/// trailing-byte variants x the (bias, max) pairs. Sequences shorter than the tree demands are
/// truncated streams (both must reject), longer ones leave a remainder (must match).
fn codec_trees(run: &Run) {
    let max_nodes = run.tier.pick(4usize, 5usize);
    let trailers: [&[u8]; 3] = [&[], &[0xff], &[0x00, 0x01]];
    let mut jobs: Vec<(u32, u32)> = vec![];
    for bf in [2u32, 4, 8, 32] {
        let mh = codec::max_height(bf);
        for h in [1, 2, 3, mh - 1, mh, mh + 1] {
            jobs.push((bf, h));
        }
    }
    let alpha_desc: Vec<Value> = [2u32, 4, 8, 32].iter().map(|bf| json!({"bf": bf, "nodes": codec::node_alphabet(*bf).iter().map(|n| format!("{n:x}")).collect::<Vec<_>>()})).collect();
    run.bound(
        "codec.decoder.trees",
        json!({"max_nodes": max_nodes, "heights": "1, 2, 3, max-1, max, max+1 per branch factor", "trailing_bytes": ["", "ff", "0001"],
               "node_alphabet": alpha_desc,
               "bias_max_pairs": BIAS_MAX.len()}),
    );
    let counts = [AtomicU64::new(0), AtomicU64::new(0), AtomicU64::new(0), AtomicU64::new(0), AtomicU64::new(0)];
    let all: Mutex<HashSet<u64>> = Mutex::new(HashSet::new());
    let non: Mutex<HashSet<u64>> = Mutex::new(HashSet::new());
    jobs.par_iter().for_each(|(bf, h)| {
        let alpha = codec::node_alphabet(*bf);
        let (mut la, mut ln) = (HashSet::new(), HashSet::new());
        for len in 0..=max_nodes {
            let total = (alpha.len() as u64).pow(len as u32);
            for c in 0..total {
                let mut x = c;
                let nodes: Vec<u32> = (0..len)
                    .map(|_| {
                        let n = alpha[(x % alpha.len() as u64) as usize];
                        x /= alpha.len() as u64;
                        n
                    })
                    .collect();
                let base = codec::pack_nodes(*bf, *h, &nodes);
                for t in trailers {
                    let mut data = base.clone();
                    data.extend_from_slice(t);
                    for (bias, max) in BIAS_MAX {
                        match codec::decode_case(&data, bias, max) {
                            Ok((o, d)) => {
                                let slot = match o {
                                    codec::DecodeOutcome::Compared { ok_result: true, members } => {
                                        la.insert(d);
                                        if members > 0 {
                                            ln.insert(d);
                                        }
                                        0
                                    }
                                    codec::DecodeOutcome::Compared { ok_result: false, .. } => 1,
                                    codec::DecodeOutcome::UnsupportedHeight => 2,
                                    codec::DecodeOutcome::SkippedLarge => 3,
                                };
                                counts[slot].fetch_add(1, Ordering::Relaxed);
                            }
                            Err((label, details)) => run.violation(
                                &format!("sparse bit set: {label} (BF{bf} node stream)"),
                                &format!("bytes {} (BF{bf} H{h} nodes {:x?}) bias {} max {}: {}", hex(&data), nodes, bias, max, details),
                                json!({"kind":"codec_decode","family":"trees","bf":bf,"bytes":hex(&data),"bias":bias,"max":max}),
                            ),
                        }
                        counts[4].fetch_add(1, Ordering::Relaxed);
                    }
                }
            }
        }
        all.lock().unwrap().extend(la);
        non.lock().unwrap().extend(ln);
    });
    let n = counts[4].load(Ordering::Relaxed);
    run.evals(n);
    run.trans(n);
    run.count("codec.decoder.trees.cases", n);
    run.count("codec.decoder.trees.both_decode_and_agree", counts[0].load(Ordering::Relaxed));
    run.count("codec.decoder.trees.both_reject", counts[1].load(Ordering::Relaxed));
    run.count("codec.decoder.trees.unsupported_height_no_panic_only", counts[2].load(Ordering::Relaxed));
    run.count("codec.decoder.trees.skipped_population_above_2^16", counts[3].load(Ordering::Relaxed));
    let (a, nn) = (all.into_inner().unwrap(), non.into_inner().unwrap());
    run.count("codec.decoder.trees.distinct_results", a.len() as u64);
    run.observe_many(&a, &nn);
}

// ---------------------------------------------------------------------------
// decoder: the cases the sweep skips because the result is huge ("decoding arbitrary bytes never
// panics": does it return, and what does it cost?). Each case runs in a worker subprocess with a CPU
// limit; time and peak memory are recorded. A worker that panics, aborts or is killed by a signal
// other than the CPU limit is a violation; slowness alone is recorded as an observation.
// ---------------------------------------------------------------------------

const HUGE_CPU_LIMIT_S: u64 = 120;

/// (bytes, description)
fn huge_inputs(all: bool) -> Vec<(Vec<u8>, &'static str)> {
    let mut v: Vec<(Vec<u8>, &'static str)> = vec![
        // truncated streams: a filled node of 2^30 values is inserted, then the bits run out => Err
        (vec![0x7c, 0b0011_0011], "BF2 H31: root 11, node 00 (filled 2^30), node 11, one more node, then truncated"),
        (vec![0x41, 0x03], "BF4 H16: root 0011, node 0000 (filled 2^30), next node missing"),
        (vec![0x2e, 0x03, 0x00], "BF8 H11: root 00000011, node 0 (filled 2^30), next node missing"),
        // complete streams
        (vec![0x7c, 0x00], "BF2 H31: root 00 => [0, 2^31)"),
    ];
    if all {
        v.push((vec![0x41, 0x00], "BF4 H16: root 0000 => all of u32"));
        v.push((vec![0x2e, 0x00], "BF8 H11: root 0 => [0, 2^33) clipped to u32"));
        v.push((vec![0x1f, 0, 0, 0, 0], "BF32 H7: root 0 => [0, 2^35) clipped to u32 (5 bytes)"));
        v.push((vec![0x7c, 0b1100_0011, 0x00], "BF2 H31: two filled quarter nodes"));
    }
    v
}

fn huge_worker(spec: &str) {
    let data = unhex(spec);
    install_panic_hook();
    let lim = libc::rlimit { rlim_cur: HUGE_CPU_LIMIT_S, rlim_max: HUGE_CPU_LIMIT_S + 1 };
    unsafe { libc::setrlimit(libc::RLIMIT_CPU, &lim) };
    let t0 = std::time::Instant::now();
    let r = guard(|| {
        read_fonts::collections::IntSet::<u32>::from_sparse_bit_set_bounded(&data, 0, u32::MAX).map(|(s, rest)| {
            let ranges: Vec<(u64, u64)> = s.iter_ranges().take(8).map(|r| (*r.start() as u64, *r.end() as u64)).collect();
            (ranges, s.len(), data.len() - rest.len())
        })
    });
    let secs = t0.elapsed().as_secs_f64();
    let (cpu, rss) = unsafe {
        let mut ru: libc::rusage = std::mem::zeroed();
        libc::getrusage(libc::RUSAGE_SELF, &mut ru);
        (ru.ru_utime.tv_sec as f64 + ru.ru_utime.tv_usec as f64 / 1e6 + ru.ru_stime.tv_sec as f64 + ru.ru_stime.tv_usec as f64 / 1e6, ru.ru_maxrss)
    };
    // peak resident set of this address space (ru_maxrss can carry over the parent's value across exec)
    let rss = std::fs::read_to_string("/proc/self/status")
        .ok()
        .and_then(|s| s.lines().find(|l| l.starts_with("VmHWM:")).and_then(|l| l.split_whitespace().nth(1).and_then(|v| v.parse::<i64>().ok())))
        .unwrap_or(rss);
    match r {
        Ok(Ok((ranges, len, used))) => println!("RESULT {}", json!({"ok": true, "ranges": ranges, "len": len, "consumed": used, "wall_s": secs, "cpu_s": cpu, "max_rss_kb": rss})),
        Ok(Err(_)) => println!("RESULT {}", json!({"ok": false, "wall_s": secs, "cpu_s": cpu, "max_rss_kb": rss})),
        Err(p) => println!("PANIC {}", json!({"kind": p.kind(), "site": p.site(), "message": p.message})),
    }
}

fn codec_huge(run: &Run) {
    use std::os::unix::process::ExitStatusExt;
    let inputs = huge_inputs(run.tier == Tier::Thorough);
    run.bound("codec.decoder.huge_cases", json!({"inputs": inputs.iter().map(|(b, d)| format!("{} — {}", hex(b), d)).collect::<Vec<_>>(), "cpu_limit_s": HUGE_CPU_LIMIT_S, "bias": 0, "max": u32::MAX}));
    let results: Mutex<Vec<Value>> = Mutex::new(vec![]);
    inputs.par_iter().for_each(|(data, desc)| {
        run.eval();
        let case = json!({"kind":"codec_huge","bytes":hex(data)});
        let out = std::process::Command::new(std::env::current_exe().unwrap()).env("C14_WORKER", hex(data)).stderr(std::process::Stdio::null()).output();
        let Ok(out) = out else {
            run.machinery_error("cannot spawn decoder worker");
            return;
        };
        let text = String::from_utf8_lossy(&out.stdout).to_string();
        let mut rec = json!({"bytes": hex(data), "what": desc});
        if let Some(line) = text.lines().find_map(|l| l.strip_prefix("RESULT ")) {
            let r: Value = serde_json::from_str(line).unwrap_or(Value::Null);
            // compare with the specification's result (ranges only: nothing is materialised)
            let spec = codec::spec_decode(data);
            let exp = spec.as_ref().ok().map(|sd| (codec::bias_and_max(&sd.ranges, 0, u32::MAX), sd.consumed));
            let got_ok = r["ok"].as_bool().unwrap_or(false);
            match (&exp, got_ok) {
                (Some((er, eused)), true) => {
                    let gr: Vec<(u64, u64)> = r["ranges"].as_array().map(|a| a.iter().map(|p| (p[0].as_u64().unwrap_or(0), p[1].as_u64().unwrap_or(0))).collect()).unwrap_or_default();
                    let pop: u64 = er.iter().map(|(a, b)| b - a + 1).sum();
                    if &gr != er || r["len"].as_u64() != Some(pop) || r["consumed"].as_u64() != Some(*eused as u64) {
                        run.violation("sparse bit set: from_sparse_bit_set_bounded members differ from the specification", &format!("bytes {} ({desc}): got {r} expected {:?}", hex(data), exp), case.clone());
                    }
                }
                (None, false) => {}
                (Some(_), false) => run.violation("sparse bit set: from_sparse_bit_set_bounded rejects input the specification decodes", &format!("bytes {}", hex(data)), case.clone()),
                (None, true) => run.violation("sparse bit set: from_sparse_bit_set_bounded accepts input the specification rejects", &format!("bytes {}", hex(data)), case.clone()),
            }
            rec["result"] = r;
            run.observe(digest_of(&(hex(data), got_ok)), got_ok);
        } else if let Some(line) = text.lines().find_map(|l| l.strip_prefix("PANIC ")) {
            let p: Value = serde_json::from_str(line).unwrap_or(Value::Null);
            run.violation(&format!("from_sparse_bit_set_bounded panic {} in {}", p["kind"].as_str().unwrap_or("?"), p["site"].as_str().unwrap_or("?")), &format!("bytes {} ({desc}): {p}", hex(data)), case.clone());
            rec["result"] = json!("panic");
        } else {
            let sig = out.status.signal();
            if sig == Some(libc::SIGXCPU) {
                // observation, not a verdict: the statement demands "never panics"
                rec["result"] = json!(format!("did not return within {HUGE_CPU_LIMIT_S} s of CPU time"));
                run.count("codec.decoder.huge_cases_over_cpu_limit", 1);
            } else {
                run.violation("from_sparse_bit_set_bounded aborts the process on a tiny input", &format!("bytes {} ({desc}): worker ended with {:?} and no result (allocation failure / abort)", hex(data), out.status), case.clone());
                rec["result"] = json!(format!("worker died: {:?}", out.status));
            }
        }
        results.lock().unwrap().push(rec);
    });
    let mut r = results.into_inner().unwrap();
    r.sort_by_key(|v| v["bytes"].as_str().unwrap_or("").to_string());
    run.count("codec.decoder.huge_cases", r.len() as u64);
    run.extra("codec.decoder.huge_case_costs", json!(r));
}

// ---------------------------------------------------------------------------
// replay
// ---------------------------------------------------------------------------

fn replay_case(run: &Run, case: &Value) {
    match case["kind"].as_str().unwrap_or("") {
        "intset" => match case["domain"].as_str().unwrap_or("") {
            "Small1536" => replay_intset::<Small>(run, case),
            "Even3072" => replay_intset::<Even>(run, case),
            "Holes2048" => replay_intset::<Holes>(run, case),
            "u8" => replay_intset::<u8>(run, case),
            "u16" => replay_intset::<u16>(run, case),
            "u32" => replay_intset::<u32>(run, case),
            "GlyphId16" => replay_intset::<font_types::GlyphId16>(run, case),
            "GlyphId" => replay_intset::<font_types::GlyphId>(run, case),
            "Tag" => replay_intset::<font_types::Tag>(run, case),
            "NameId" => replay_intset::<font_types::NameId>(run, case),
            d => println!("replay: unknown domain {d}"),
        },
        "rangeset" => replay_rangeset(run, case),
        "codec_round_trip" => {
            let m: Vec<(u64, u64)> = case["members"].as_array().unwrap().iter().map(|p| (p[0].as_u64().unwrap(), p[1].as_u64().unwrap())).collect();
            if let Err((label, details)) = codec::round_trip(&m) {
                run.violation(&format!("sparse bit set: {label}"), &details, case.clone());
            }
        }
        "codec_decode" => {
            let data = unhex(case["bytes"].as_str().unwrap_or(""));
            let bias = case["bias"].as_u64().unwrap_or(0) as u32;
            let max = case["max"].as_u64().unwrap_or(0) as u32;
            match codec::decode_case(&data, bias, max) {
                Ok(o) => println!("replay: {:?}", o),
                Err((label, details)) => {
                    // same identity as the family that produced the case
                    let suffix = if case["family"].as_str() == Some("trees") { format!(" (BF{} node stream)", case["bf"].as_u64().unwrap_or(0)) } else { String::new() };
                    run.violation(&format!("sparse bit set: {label}{suffix}"), &details, case.clone())
                }
            }
        }
        "codec_huge" => codec_huge(run),
        k => println!("replay: unknown case kind {k}"),
    }
}
