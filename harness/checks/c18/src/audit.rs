//! Round-12 coverage-gap audit families (see ../AUDIT.md for the site table).
//!
//!   cff_jump      : CFF/CFF2 offSize selection away from "one step up": every base offSize 1..4 x new
//!                   totals on, below and above 254 / 65534 (thorough: 2^24-2), reached in ONE patch
//!                   (offSize 1 -> 2 vs 3 decided by the candidate search) and by two growing patches
//!   gvar_variants : gvar without shared tuples (the "point the shared tuple offset at the glyph data"
//!                   branch) and with the tuples stored after the glyph data, on the 6-glyph bases
//!   mixed         : groups that hold a partial-invalidation table keyed entry of one mapping table AND
//!                   glyph keyed entries of the other; URIs already `Applied` / absent in the caller's map
//!   tk_flags      : DROP_TABLE together with REPLACE_TABLE / with a stream
//!   gid_lists     : glyph keyed patches whose glyph id list is unsorted or has duplicates
//!   f1_bits       : format-1 mapping tables whose applied bits lie beyond the first bitmap byte
#![allow(clippy::too_many_arguments)]

use crate::*;
use incremental_font_transfer::patchmap::SubsetDefinition;

fn blob(g: u32, len: usize) -> Vec<u8> {
    (0..len).map(|i| (i as u8).wrapping_mul(31) ^ (g as u8).wrapping_mul(37) ^ 0x5a).collect()
}

/// one-table glyph keyed patch with explicit data lengths
fn custom_patch(gids: &[u32], tag: TagB, lens: &[usize], compat: [u32; 4]) -> GkPatch {
    GkPatch {
        compat,
        wide: false,
        gids: gids.to_vec(),
        tables: vec![tag],
        data: vec![gids.iter().zip(lens).map(|(g, l)| blob(*g, *l)).collect()],
    }
}

fn run_scenarios(ctx: &Ctx, scenarios: &[Scenario]) {
    par_for(scenarios.len(), |i| {
        let mut l = Local::default();
        explore_scenario(ctx, &scenarios[i], &mut l);
        ctx.merge(l);
    });
}

// ---------------------------------------------------------------------------
// CFF / CFF2 offSize selection
// ---------------------------------------------------------------------------

pub fn space_cff_jump(ctx: &Ctx) {
    let run = ctx.run;
    let thorough = run.tier == Tier::Thorough;
    // new total size of the charstrings data after the patch; limits are 254 and 65534 (2^24-2)
    let mut totals: Vec<usize> = vec![253, 254, 255, 256, 65533, 65534, 65535, 65536];
    if thorough {
        let l3 = (1usize << 24) - 2;
        totals.extend([l3 - 1, l3, l3 + 1, l3 + 2]);
    }
    let mut scenarios = vec![];
    for (kind, tag) in [(BaseKind::Cff, CFF), (BaseKind::Cff2, CFF2)] {
        for off_size in 1u8..=4 {
            // base total 15; gid 3 holds 5 of them
            let spec = BaseSpec { kind, lens: vec![3, 1, 0, 5, 2, 4], off_size, gvar_tuples_last: false, gvar_no_tuples: false };
            for &t in &totals {
                scenarios.push(Scenario {
                    base: spec.clone(),
                    mapping: Mapping::F2,
                    patches: vec![custom_patch(&[3], tag, &[t - 10], COMPAT_IFT)],
                    note: "cff-jump-single".into(),
                    real_brotli: false,
                });
            }
            // two growing patches: A (gid 0 -> 200 bytes) and B (gid 3) together reach the total; every
            // order and grouping must end with the same offSize and bytes
            if off_size <= 2 {
                for t in [254usize, 255, 65534, 65535] {
                    scenarios.push(Scenario {
                        base: spec.clone(),
                        mapping: Mapping::F2,
                        patches: vec![custom_patch(&[0], tag, &[200], COMPAT_IFT), custom_patch(&[3], tag, &[t - 207], COMPAT_IFT)],
                        note: "cff-jump-pair".into(),
                        real_brotli: false,
                    });
                }
            }
        }
    }
    run.bound("cff_jump_new_totals", json!(totals));
    run.bound("cff_jump_base_off_sizes", json!([1, 2, 3, 4]));
    run.count("cff_jump_scenarios", scenarios.len() as u64);
    run_scenarios(ctx, &scenarios);
}

// ---------------------------------------------------------------------------
// gvar layout variants
// ---------------------------------------------------------------------------

pub fn space_gvar_variants(ctx: &Ctx) {
    let run = ctx.run;
    let thorough = run.tier == Tier::Thorough;
    let sets: Vec<Vec<u32>> = vec![vec![0], vec![2], vec![5], vec![0, 1], vec![1, 2], vec![2, 5], vec![0, 5], vec![0, 1, 2], vec![1, 3, 5], vec![3, 4, 5]];
    let worlds: Vec<usize> = if thorough { vec![0, 1, 3, 4] } else { vec![0, 4] };
    let mut scenarios = vec![];
    for kind in [BaseKind::GvarShort, BaseKind::GvarLong, BaseKind::GlyfGvar] {
        let lens: Vec<usize> = if kind == BaseKind::GvarLong { vec![3, 1, 0, 5, 2, 4] } else { vec![4, 2, 0, 6, 2, 4] };
        for (no_tuples, tuples_last) in [(true, false), (false, true)] {
            let spec = BaseSpec { kind, lens: lens.clone(), off_size: 0, gvar_tuples_last: tuples_last, gvar_no_tuples: no_tuples };
            let tables = &tables_for(kind)[0];
            for &world in &worlds {
                for s in &sets {
                    scenarios.push(Scenario {
                        base: spec.clone(),
                        mapping: Mapping::F2,
                        patches: vec![gk_patch(world, s, tables, s.len() == 2, COMPAT_IFT)],
                        note: "gvar-variant-single".into(),
                        real_brotli: false,
                    });
                }
                let np = if thorough { sets.len() } else { 6 };
                for i in 0..np {
                    for j in i..np {
                        scenarios.push(Scenario {
                            base: spec.clone(),
                            mapping: Mapping::F2,
                            patches: vec![gk_patch(world, &sets[i], tables, false, COMPAT_IFT), gk_patch(world, &sets[j], tables, true, COMPAT_IFT)],
                            note: "gvar-variant-pair".into(),
                            real_brotli: false,
                        });
                    }
                }
            }
        }
    }
    // no shared tuples across the short-offset limit, and an all-empty base
    for big in [LIMIT_SHORT - 22, LIMIT_SHORT - 18, LIMIT_SHORT - 14] {
        let spec = BaseSpec { kind: BaseKind::GvarShort, lens: vec![4, 2, 0, 6, 2, big], off_size: 0, gvar_tuples_last: false, gvar_no_tuples: true };
        for gids in [vec![0u32], vec![1, 2]] {
            scenarios.push(Scenario {
                base: spec.clone(),
                mapping: Mapping::F2,
                patches: vec![gk_patch(3, &gids, &[GVAR], false, COMPAT_IFT)],
                note: "gvar-variant-wide".into(),
                real_brotli: false,
            });
        }
    }
    // gvar widened inside a font that also has glyf/loca (only gvar is listed: glyf and loca are copied)
    for big in [LIMIT_SHORT - 22, LIMIT_SHORT - 18, LIMIT_SHORT - 14] {
        for no_tuples in [false, true] {
            let spec = BaseSpec { kind: BaseKind::GlyfGvar, lens: vec![4, 2, 0, 6, 2, big], off_size: 0, gvar_tuples_last: false, gvar_no_tuples: no_tuples };
            scenarios.push(Scenario {
                base: spec.clone(),
                mapping: Mapping::F2,
                patches: vec![gk_patch(3, &[1, 2], &[GVAR], false, COMPAT_IFT)],
                note: "gvar-variant-wide-next-to-glyf".into(),
                real_brotli: false,
            });
        }
    }
    for kind in [BaseKind::GvarShort, BaseKind::GvarLong] {
        let spec = BaseSpec { kind, lens: vec![0; 6], off_size: 0, gvar_tuples_last: false, gvar_no_tuples: true };
        for world in [0usize, 4] {
            scenarios.push(Scenario {
                base: spec.clone(),
                mapping: Mapping::F2,
                patches: vec![gk_patch(world, &[1, 3], &[GVAR], false, COMPAT_IFT)],
                note: "gvar-variant-empty-base".into(),
                real_brotli: false,
            });
        }
    }
    run.count("gvar_variant_scenarios", scenarios.len() as u64);
    run_scenarios(ctx, &scenarios);
}

// ---------------------------------------------------------------------------
// glyph id lists that are not strictly ascending
// ---------------------------------------------------------------------------

pub fn space_gid_lists(ctx: &Ctx) {
    let mut scenarios = vec![];
    for spec in base_specs() {
        let tabs = tables_for(spec.kind)[0].clone();
        for gids in [vec![2u32, 1], vec![2, 2], vec![0, 3, 3], vec![5, 0], vec![1, 0, 2]] {
            for wide in [false, true] {
                for mapping in [Mapping::F2, Mapping::Split] {
                    let bad = GkPatch {
                        compat: compat_of(mapping, 1),
                        wide,
                        gids: gids.clone(),
                        data: tabs.iter().map(|t| gids.iter().map(|g| world_data(0, t, *g)).collect()).collect(),
                        tables: tabs.clone(),
                    };
                    scenarios.push(Scenario {
                        base: spec.clone(),
                        mapping,
                        patches: vec![gk_patch(0, &[0, 4], &tabs, false, compat_of(mapping, 0)), bad.clone()],
                        note: "gid-list-unsorted".into(),
                        real_brotli: false,
                    });
                    if mapping == Mapping::F2 && !wide {
                        scenarios.push(Scenario {
                            base: spec.clone(),
                            mapping,
                            patches: vec![GkPatch { compat: COMPAT_IFT, ..bad }],
                            note: "gid-list-unsorted-alone".into(),
                            real_brotli: false,
                        });
                    }
                }
            }
        }
    }
    // a 24-bit glyph id far beyond the font (and beyond 16 bits), next to a valid one: refused as a whole
    for spec in base_specs() {
        let tabs = tables_for(spec.kind)[0].clone();
        for gids in [vec![2u32, 65536], vec![0, 70000], vec![5, 0xFF_FFFF]] {
            scenarios.push(Scenario {
                base: spec.clone(),
                mapping: Mapping::F2,
                patches: vec![gk_patch(0, &[1, 4], &tabs, false, COMPAT_IFT), gk_patch(0, &gids, &tabs, true, COMPAT_IFT)],
                note: "gid-list-u24-beyond".into(),
                real_brotli: false,
            });
        }
    }
    ctx.run.count("unsorted_gid_list_scenarios", scenarios.len() as u64);
    run_scenarios(ctx, &scenarios);
}

// ---------------------------------------------------------------------------
// format 1: applied bits beyond the first bitmap byte
// ---------------------------------------------------------------------------

pub fn space_f1_bits(ctx: &Ctx) {
    let sets: Vec<Vec<u32>> = vec![vec![0], vec![1, 2], vec![2, 5], vec![3, 4, 5]];
    let mut scenarios = vec![];
    let bases = [6u16, 14, 254, 255];
    for spec in base_specs() {
        if !matches!(spec.kind, BaseKind::GlyfLong | BaseKind::GvarShort | BaseKind::Cff) {
            continue;
        }
        let tabs = tables_for(spec.kind)[0].clone();
        for eb in bases {
            for i in 0..sets.len() {
                scenarios.push(Scenario {
                    base: spec.clone(),
                    mapping: Mapping::F1,
                    patches: vec![gk_patch(0, &sets[i], &tabs, false, COMPAT_IFT)],
                    note: format!("f1base={eb}"),
                    real_brotli: false,
                });
                for j in i + 1..sets.len() {
                    scenarios.push(Scenario {
                        base: spec.clone(),
                        mapping: Mapping::F1,
                        patches: vec![gk_patch(0, &sets[i], &tabs, false, COMPAT_IFT), gk_patch(0, &sets[j], &tabs, true, COMPAT_IFT)],
                        note: format!("f1base={eb}"),
                        real_brotli: false,
                    });
                }
            }
            scenarios.push(Scenario {
                base: spec.clone(),
                mapping: Mapping::F1,
                patches: vec![
                    gk_patch(0, &sets[0], &tabs, false, COMPAT_IFT),
                    gk_patch(0, &sets[1], &tabs, false, COMPAT_IFT),
                    gk_patch(0, &sets[3], &tabs, true, COMPAT_IFT),
                ],
                note: format!("f1base={eb}"),
                real_brotli: false,
            });
        }
    }
    ctx.run.bound("f1_first_entry_index_minus_one", json!(bases));
    ctx.run.count("f1_applied_bit_scenarios", scenarios.len() as u64);
    run_scenarios(ctx, &scenarios);
}

// ---------------------------------------------------------------------------
// table keyed flag combinations
// ---------------------------------------------------------------------------

pub fn space_tk_flags(ctx: &Ctx) {
    let mut cases: Vec<TkCase> = vec![];
    for t in [*b"tab1", *b"tab9", *b"IFT "] {
        for op in [3u8, 4] {
            let mut lists: Vec<Vec<(TagB, u8)>> = vec![vec![(t, op)]];
            for o2 in 0..3u8 {
                lists.push(vec![(t, op), (*b"tab2", o2)]);
                lists.push(vec![(*b"tab2", o2), (t, op)]);
                // same tag twice: the first listing wins
                lists.push(vec![(t, op), (t, o2)]);
                lists.push(vec![(t, o2), (t, op)]);
            }
            for ops in lists {
                for (format, in_iftx) in [(2u8, false), (1, false), (2, true)] {
                    cases.push(TkCase { ops: ops.clone(), format, compat_equal: true, fault: None, in_iftx, real: false, max_delta: 0 });
                }
                cases.push(TkCase { ops: ops.clone(), format: 2, compat_equal: false, fault: None, in_iftx: false, real: false, max_delta: 0 });
                for k in 1..=2u32 {
                    cases.push(TkCase { ops: ops.clone(), format: 2, compat_equal: true, fault: Some((k, FaultKind::InvalidStream)), in_iftx: false, real: false, max_delta: 0 });
                }
            }
        }
    }
    // a table keyed patch without any table entry: the font is copied, the URI flips
    for (format, in_iftx) in [(2u8, false), (1, false), (2, true), (1, true)] {
        for compat_equal in [true, false] {
            cases.push(TkCase { ops: vec![], format, compat_equal, fault: None, in_iftx, real: false, max_delta: 0 });
        }
    }
    ctx.run.count("tk_cases_drop_flag_combinations", cases.len() as u64);
    let mut l = Local::default();
    for c in &cases {
        run_tk(ctx, c, &mut l);
    }
    ctx.merge(l);
}

// ---------------------------------------------------------------------------
// mixed groups: partial invalidation (table keyed) in one mapping table, glyph keyed in the other
// ---------------------------------------------------------------------------

#[derive(Clone, Debug, Serialize, Deserialize)]
pub struct MixedCase {
    pub kind: BaseKind,
    /// the table keyed (partial invalidation) entry lives in IFTX, the glyph keyed entries in "IFT " (else the other way round)
    pub tk_in_iftx: bool,
    pub gk_sets: Vec<Vec<u32>>,
    /// per URI (0 = table keyed, 1.. = glyph keyed): marked `Applied` in the caller's map before the first call
    pub pre_applied: Vec<bool>,
    /// URI index that is absent from the caller's map
    pub missing: Option<usize>,
    pub fault: Option<(u32, FaultKind)>,
    /// 0: every patch carries the compatibility id of its own mapping table; 1: the table keyed patch carries
    /// the id of the OTHER mapping table; 2: the first glyph keyed patch does
    #[serde(default)]
    pub swap_compat: u8,
    /// the table keyed entry is a FULL invalidation (format 1): the group is that entry alone and the glyph
    /// keyed entries of the other table are never part of it
    #[serde(default)]
    pub full: bool,
}

const MIXED_STEPS: usize = 3;

pub fn run_mixed(ctx: &Ctx, mc: &MixedCase, l: &mut Local) {
    let n_gk = mc.gk_sets.len();
    let spec = base_specs().into_iter().find(|s| s.kind == mc.kind).unwrap();
    let tabs = tables_for(mc.kind)[0].clone();
    let mut reference = build_base(&spec);
    let cff_off = matches!(mc.kind, BaseKind::Cff).then(|| reference.cff_prefix.len() as u32);
    let cff2_off = matches!(mc.kind, BaseKind::Cff2).then(|| reference.cff_prefix.len() as u32);
    let (tk_tab, gk_tab) = if mc.tk_in_iftx { (IFTX, IFT) } else { (IFT, IFTX) };
    let compat_for = |t: TagB| if t == IFT { COMPAT_IFT } else { COMPAT_IFTX };
    // the charstrings offsets are read from "IFT " whichever table lists the glyph keyed entries
    let mut tk_entry = E2::plain();
    tk_entry.cps = Cps::Set { bias_kind: 0, bias: 0, members: vec![0x41] };
    let t_tk = T2 {
        compat: compat_for(tk_tab),
        default_format: if mc.full { 1 } else { 2 },
        template: b"t/{id}".to_vec(),
        entries: vec![tk_entry],
        string_data: None,
        cff_off: if tk_tab == IFT { cff_off } else { None },
        cff2_off: if tk_tab == IFT { cff2_off } else { None },
    };
    let mut t_gk = T2 {
        compat: compat_for(gk_tab),
        default_format: 3,
        template: b"g/{id}".to_vec(),
        entries: vec![],
        string_data: None,
        cff_off: if gk_tab == IFT { cff_off } else { None },
        cff2_off: if gk_tab == IFT { cff2_off } else { None },
    };
    for i in 0..n_gk {
        let mut e = E2::plain();
        e.cps = Cps::Set { bias_kind: 0, bias: 0, members: vec![0x42 + i as u32] };
        t_gk.entries.push(e);
    }
    let enc_tk = encode_t2(&t_tk);
    let enc_gk = encode_t2(&t_gk);
    reference.others.insert(tk_tab, enc_tk.bytes.clone());
    reference.others.insert(gk_tab, enc_gk.bytes.clone());
    let tk_uri = expand_uri(&t_tk.template, &Id::Num(1));
    let gk_uris: Vec<String> = (0..n_gk).map(|i| expand_uri(&t_gk.template, &Id::Num(i as u32 + 1))).collect();
    let gk_bits: Vec<usize> = (0..n_gk).map(|i| enc_gk.entry_starts[i] * 8 + 6).collect();
    let mut gk_patches: Vec<GkPatch> = mc.gk_sets.iter().map(|s| gk_patch(0, s, &tabs, false, compat_for(gk_tab))).collect();
    if mc.swap_compat == 2 {
        gk_patches[0].compat = compat_for(tk_tab);
    }
    // table keyed patch: replaces tabA, drops tabB; touches no mapping table (so its entry stays selectable)
    let new_a = b"mixed group: new tabA".to_vec();
    let tk_patch = table_keyed_patch_lens(
        compat_for(if mc.swap_compat == 1 { gk_tab } else { tk_tab }),
        &[(*b"tabA", TableOp::Replace(new_a.clone())), (*b"tabB", TableOp::Drop)],
        &[new_a.len() as u32, 0],
    );
    let mut font = encode_font(&reference, &spec);
    let sd = SubsetDefinition::codepoints((0x41u32..0x42 + n_gk as u32).collect());
    let mut map: HashMap<String, UriStatus> = HashMap::new();
    map.insert("unrelated".into(), UriStatus::Pending(vec![7]));
    let uri_of = |u: usize| if u == 0 { tk_uri.clone() } else { gk_uris[u - 1].clone() };
    for u in 0..=n_gk {
        if mc.missing == Some(u) {
            continue;
        }
        let st = if mc.pre_applied[u] {
            UriStatus::Applied
        } else if u == 0 {
            UriStatus::Pending(tk_patch.clone())
        } else {
            UriStatus::Pending(gk_patches[u - 1].bytes())
        };
        map.insert(uri_of(u), st);
    }
    let mut compat: HashMap<TagB, [u32; 4]> = HashMap::new();
    compat.insert(IFT, COMPAT_IFT);
    compat.insert(IFTX, COMPAT_IFTX);
    let decoder = Decoder::new(mc.fault);
    let case = json!({"kind":"mixed","mixed": mc});
    let sig = format!("{:?} {} in {}", mc.kind, if mc.full { "full invalidation" } else { "tk" }, tag_str(&tk_tab).trim());
    let ident = |what: &str| format!("mixed group (partial invalidation + glyph keyed): {what}: {sig}");
    let mut h = Fnv::new();
    h.str("mixed");
    h.str(&sig);
    h.u64(n_gk as u64);
    for (u, p) in mc.pre_applied.iter().enumerate() {
        h.u64(*p as u64 + 2 * (mc.missing == Some(u)) as u64);
    }
    h.u64(mc.fault.map(|(k, f)| k as u64 * 16 + f as u64).unwrap_or(0));
    h.u64(mc.swap_compat as u64 + 4 * mc.full as u64);
    l.evals += 1;
    let mut compared = false;
    let mut bit_set = vec![false; n_gk];
    let mut retried = false;
    let mut step = 0;
    while step < MIXED_STEPS {
        // expected selection: the invalidating entry first, then the unapplied glyph keyed entries in URI order
        let mut want_uris = vec![tk_uri.clone()];
        let sel_gk: Vec<usize> = (0..n_gk).filter(|i| !bit_set[*i] && !mc.full).collect();
        want_uris.extend(sel_gk.iter().map(|i| gk_uris[*i].clone()));
        let sel = guard(|| {
            let fr = FontRef::new(&font).map_err(|e| format!("font: {e}"))?;
            let g = PatchGroup::select_next_patches(fr, &sd).map_err(|e| format!("select: {e}"))?;
            let uris: Vec<String> = g.uris().map(|s| s.to_string()).collect();
            Ok::<_, String>((g, uris))
        });
        let (group, uris) = match sel {
            Err(p) => {
                ctx.run.violation(&format!("select_next_patches panics: {} at {}", p.kind(), p.site()), &p.message, case.clone());
                return;
            }
            Ok(Err(e)) => {
                ctx.run.violation(&ident("select_next_patches fails on a harness font"), &e, case.clone());
                return;
            }
            Ok(Ok(x)) => x,
        };
        if uris != want_uris {
            ctx.run.violation(&ident("selection is not [invalidating entry, unapplied glyph keyed entries]"), &format!("step {step}: got {uris:?} want {want_uris:?}"), case.clone());
            return;
        }
        let before = snapshot(&map);
        let calls_before = decoder.calls.get();
        let hit_before = decoder.fault_hit.get();
        let res = guard(|| group.apply_next_patches_with_decoder(&mut map, &decoder));
        l.applies += 1;
        let after = snapshot(&map);
        let fault_now = decoder.fault_hit.get() && !hit_before;
        if fault_now {
            l.faults_injected += 1;
        }
        let res = match res {
            Err(p) => {
                ctx.run.violation(&format!("apply_next_patches_with_decoder panics: {} at {}", p.kind(), p.site()), &p.message, case.clone());
                return;
            }
            Ok(r) => r,
        };
        // --- model of this call ---
        let status = |u: usize| -> Option<bool> {
            // None absent, Some(true) Applied, Some(false) Pending
            before.iter().find(|(k, _)| *k == uri_of(u)).map(|(_, v)| v.is_none())
        };
        enum Want {
            Err(&'static str),
            Tk,
            Gk(Vec<usize>),
        }
        let mut incompatible = false;
        let want = match status(0) {
            None => Want::Err("MissingPatches"),
            Some(false) => Want::Tk,
            Some(true) => {
                if sel_gk.iter().any(|i| status(i + 1).is_none()) {
                    Want::Err("MissingPatches")
                } else {
                    let pend: Vec<usize> = sel_gk.iter().copied().filter(|i| status(i + 1) == Some(false)).collect();
                    if pend.is_empty() {
                        Want::Err("EmptyPatchList")
                    } else {
                        Want::Gk(pend)
                    }
                }
            }
        };
        // a patch bearing the other mapping table's id must be refused before anything is decoded
        let want = match want {
            Want::Tk if mc.swap_compat == 1 => {
                incompatible = true;
                Want::Err("IncompatiblePatch")
            }
            Want::Gk(p) if mc.swap_compat == 2 && p.contains(&0) => {
                incompatible = true;
                Want::Err("IncompatiblePatch")
            }
            w => w,
        };
        match res {
            Err(e) => {
                h.str("err");
                h.str(&err_class(&e));
                if before != after {
                    ctx.run.violation(&ident(&format!("UriStatus map modified although the call failed ({})", err_class(&e))), &format!("step {step}"), case.clone());
                    return;
                }
                if fault_now {
                    if !retried {
                        retried = true;
                        continue; // same step again, the decoder is past its fault
                    }
                    return;
                }
                match want {
                    Want::Err(_class) => {
                        // which error is returned is not part of the property: an error, nothing decoded, map untouched
                        if decoder.calls.get() != calls_before {
                            ctx.run.violation(&ident(if incompatible { "decoder invoked before every compatibility id was verified" } else { "decoder run although the group cannot be applied (missing / nothing pending)" }), &format!("step {step}"), case.clone());
                        }
                        l.expected_err_runs += 1;
                    }
                    _ => {
                        ctx.run.violation(&ident(&format!("apply fails ({}) where the reference applies", err_class(&e))), &format!("step {step}: {e:?}"), case.clone());
                    }
                }
                break;
            }
            Ok(new_font) => {
                if fault_now && mc.fault.map(|f| f.1) != Some(FaultKind::Oversize) {
                    ctx.run.violation(&ident("decoder failure does not produce an error"), &format!("step {step}"), case.clone());
                    return;
                }
                if fault_now {
                    return; // oversize output of a misbehaving decoder: content not judged
                }
                let (flipped, next_ref): (Vec<String>, RefFont) = match want {
                    Want::Err("EmptyPatchList") if !incompatible => {
                        // Nothing was pending. The code reports EmptyPatchList; the statement does not require an
                        // error here, so a success is accepted when it changes nothing at all.
                        if before != after {
                            ctx.run.violation(&ident("UriStatus map changed by a call that had nothing to apply"), &format!("step {step}"), case.clone());
                        } else if let Err((class, detail)) = compare(&new_font, &reference) {
                            ctx.run.violation(&ident(&format!("a call that had nothing to apply changed the font: {class}")), &format!("step {step}: {detail}"), case.clone());
                        }
                        return;
                    }
                    Want::Err(class) => {
                        let what = if incompatible { "a patch carrying the other mapping table's compatibility id is applied".to_string() } else { format!("apply succeeds where {class} is documented") };
                        ctx.run.violation(&ident(&what), &format!("step {step}"), case.clone());
                        return;
                    }
                    Want::Tk => {
                        let mut r = reference.clone();
                        r.others.insert(*b"tabA", new_a.clone());
                        r.others.remove(b"tabB");
                        h.str("tk");
                        (vec![tk_uri.clone()], r)
                    }
                    Want::Gk(pend) => {
                        let ps: Vec<&GkPatch> = pend.iter().map(|i| &gk_patches[*i]).collect();
                        let bits: Vec<(TagB, usize)> = pend.iter().map(|i| (gk_tab, gk_bits[*i])).collect();
                        let pt: Vec<TagB> = pend.iter().map(|_| gk_tab).collect();
                        let mut r = reference.clone();
                        if let Err(re) = ref_apply_gk(&mut r, &ps, &bits, &compat, &pt) {
                            ctx.run.machinery_error(&format!("mixed: reference refuses an agreeing patch set: {re:?}"));
                            return;
                        }
                        for i in &pend {
                            bit_set[*i] = true;
                        }
                        h.str("gk");
                        h.u64(pend.len() as u64);
                        (pend.iter().map(|i| gk_uris[*i].clone()).collect(), r)
                    }
                };
                let mut exp = before.clone();
                for (k, v) in exp.iter_mut() {
                    if flipped.contains(k) {
                        *v = None;
                    }
                }
                if exp != after {
                    ctx.run.violation(
                        &ident("UriStatus map after success is not 'exactly the applied URIs flipped'"),
                        &format!("step {step}: flipped should be {flipped:?}; after={:?}", after.iter().map(|(k, v)| (k.clone(), v.is_some())).collect::<Vec<_>>()),
                        case.clone(),
                    );
                    return;
                }
                if let Err((class, detail)) = compare(&new_font, &next_ref) {
                    ctx.run.violation(&ident(&format!("result: {class}")), &format!("step {step}: {detail}"), case.clone());
                    return;
                }
                compared = true;
                reference = next_ref;
                font = new_font;
            }
        }
        step += 1;
    }
    let dg = h.finish();
    l.all.insert(dg);
    if compared {
        l.nontrivial.insert(dg);
    }
}

pub fn replay_mixed(ctx: &Ctx, case: &Value, l: &mut Local) {
    let mc: MixedCase = serde_json::from_value(case["mixed"].clone()).expect("mixed");
    run_mixed(ctx, &mc, l);
}

pub fn space_mixed(ctx: &Ctx) {
    let mut cases = vec![];
    for kind in [BaseKind::GlyfLong, BaseKind::GvarShort, BaseKind::GlyfGvar, BaseKind::Cff, BaseKind::Cff2] {
        for tk_in_iftx in [false, true] {
            for gk_sets in [vec![vec![1u32, 3]], vec![vec![0, 1], vec![1, 4]]] {
                let n = gk_sets.len() + 1;
                for pre in 0u32..1 << n {
                    let pre_applied: Vec<bool> = (0..n).map(|u| pre & (1 << u) != 0).collect();
                    for missing in std::iter::once(None).chain((0..n).map(Some)) {
                        if let Some(m) = missing {
                            if pre_applied[m] {
                                continue; // absent and pre-applied at once is the absent case
                            }
                        }
                        let mut faults: Vec<Option<(u32, FaultKind)>> = vec![None];
                        for k in 1..=n as u32 + 1 {
                            for f in [FaultKind::InvalidStream, FaultKind::MaxSizeExceeded, FaultKind::Oversize] {
                                faults.push(Some((k, f)));
                            }
                        }
                        for fault in faults {
                            cases.push(MixedCase { kind, tk_in_iftx, gk_sets: gk_sets.clone(), pre_applied: pre_applied.clone(), missing, fault, swap_compat: 0, full: false });
                        }
                        if missing.is_none() {
                            for swap_compat in [1u8, 2] {
                                cases.push(MixedCase { kind, tk_in_iftx, gk_sets: gk_sets.clone(), pre_applied: pre_applied.clone(), missing, fault: None, swap_compat, full: false });
                            }
                        }
                        // full invalidation next to glyph keyed entries: fault-free and a fault at the first two calls
                        for fault in [None, Some((1, FaultKind::InvalidStream)), Some((2, FaultKind::InvalidStream))] {
                            cases.push(MixedCase { kind, tk_in_iftx, gk_sets: gk_sets.clone(), pre_applied: pre_applied.clone(), missing, fault, swap_compat: 0, full: true });
                        }
                    }
                }
            }
        }
    }
    ctx.run.count("mixed_group_cases", cases.len() as u64);
    ctx.run.bound("mixed_group_steps_per_case", json!(MIXED_STEPS));
    ctx.run.sample(json!({"space":"mixed","case": cases[cases.len() / 3]}));
    let cases = &cases;
    let chunk = 32;
    par_for(cases.len().div_ceil(chunk), |c| {
        let mut l = Local::default();
        for i in c * chunk..((c + 1) * chunk).min(cases.len()) {
            run_mixed(ctx, &cases[i], &mut l);
        }
        ctx.merge(l);
    });
}

// ---------------------------------------------------------------------------
// the pure-Rust brotli wrapper (feature `rust-brotli`; not reachable through BuiltInBrotliDecoder in a
// default build): the repository's source file is compiled into this crate and compared with the
// c-brotli wrapper and with the from-construction expectation on hand-assembled streams
// ---------------------------------------------------------------------------

// tools/mutant_run.sh rewrites this path to the scratch worktree
#[path = "/repo/shared-brotli-patch-decoder/src/rust_brotli.rs"]
mod rust_brotli;

pub fn space_rust_decoder(ctx: &Ctx) {
    use shared_brotli_patch_decoder::{BuiltInBrotliDecoder, SharedBrotliDecoder};
    let mut l = Local::default();
    let dict: &[u8] = b"0123456789abcdefghij";
    // (name, stream, dictionary, decoded)
    let mut streams: Vec<(String, Vec<u8>, Option<&[u8]>, Vec<u8>)> = vec![];
    let datas: Vec<Vec<u8>> = vec![
        vec![],
        vec![7],
        b"hello brotli".to_vec(),
        (0..4095u32).map(|i| (i * 7) as u8).collect(),
        (0..4096u32).map(|i| (i * 7) as u8).collect(),
        (0..4097u32).map(|i| (i * 7) as u8).collect(),
        (0..8192u32).map(|i| (i * 5) as u8).collect(),
        (0..70_000u32).map(|i| (i * 13 + 1) as u8).collect(),
    ];
    for d in &datas {
        for (wb, chunk) in [(16u32, 1usize << 16), (24, 5), (22, 4096)] {
            if chunk == 5 && d.len() > 100 {
                continue;
            }
            streams.push((format!("stored len {} wbits {wb} chunk {chunk}", d.len()), brotli::stored(d, wb, chunk), None, d.clone()));
        }
    }
    for copy_len in [2usize, 5, 9] {
        for distance in [9u32, 15] {
            let tail = b"-tail".to_vec();
            let start = dict.len() - distance as usize;
            let mut want = dict[start..start + copy_len].to_vec();
            want.extend_from_slice(&tail);
            streams.push((format!("dictionary copy {copy_len} from {distance}"), brotli::dict_copy_then_stored(copy_len, distance, &tail, 16), Some(dict), want));
        }
    }
    let mut n = 0u64;
    let mut n_lenient = 0u64;
    for (name, valid, d, decoded) in &streams {
        for variant in ["valid", "truncated", "corrupt", "trailing"] {
            let (stream, dec) = stream_variant(variant, valid, decoded);
            let len = decoded.len();
            let mut maxes = vec![0usize, 1, len.saturating_sub(1), len, len + 1, len + 4096];
            maxes.sort();
            maxes.dedup();
            for max in maxes {
                n += 1;
                l.evals += 1;
                let case = json!({"kind":"rust-decoder","stream": name, "variant": variant, "max": max});
                let want: Option<&Vec<u8>> = dec.as_ref().filter(|d| d.len() <= max);
                let r = guard(|| rust_brotli::shared_brotli_decode_rust(&stream, *d, max));
                let c = BuiltInBrotliDecoder.decode(&stream, *d, max);
                let class = |len: usize| if len == max { "exactly max" } else if len > max { "longer than max" } else { "fits" };
                let r = match r {
                    Err(p) => {
                        ctx.run.violation(&format!("rust-brotli wrapper panics: {} at {}", p.kind(), p.site()), &format!("{name} / {variant} / max {max}: {}", p.message), case);
                        continue;
                    }
                    Ok(r) => r,
                };
                // Judged for the Rust wrapper: content and max length for valid streams, truncation, and the
                // documented "excess data after the stream is an error". Non-zero padding bits ("corrupt") are
                // a leniency of the brotli-decompressor library, not of the wrapper: recorded, not judged.
                let lenient_padding = variant == "corrupt" && r.is_ok();
                if lenient_padding {
                    n_lenient += 1;
                }
                let mut reported = false;
                match (&r, want) {
                    (Ok(out), Some(w)) if out == w => {}
                    (Err(_), None) => {}
                    (Ok(out), Some(_)) => {
                        reported = true;
                        ctx.run.violation(
                            &format!("rust-brotli wrapper: decoded bytes differ from the encoded content ({variant} stream)"),
                            &format!("{name} / max {max}: got {} bytes", out.len()),
                            case.clone(),
                        )
                    }
                    (Ok(out), None) if variant == "trailing" && out == decoded && out.len() <= max => {
                        reported = true;
                        ctx.run.violation(
                            "rust-brotli wrapper accepts a valid stream followed by excess input",
                            &format!("{name} + one 0x00 byte / max {max}: Ok({} bytes); c-brotli wrapper: {:?}", out.len(), c.as_ref().map(|v| v.len())),
                            case.clone(),
                        )
                    }
                    (Ok(_), None) if lenient_padding && decoded.len() <= max => {}
                    (Ok(out), None) => {
                        reported = true;
                        ctx.run.violation(
                            &format!("rust-brotli wrapper accepts a {variant} stream whose content is {}", class(decoded.len())),
                            &format!("{name} / max {max}: Ok({} bytes); c-brotli wrapper: {:?}", out.len(), c.as_ref().map(|v| v.len())),
                            case.clone(),
                        )
                    }
                    (Err(e), Some(_)) => {
                        reported = true;
                        ctx.run.violation(
                            &format!("rust-brotli wrapper rejects a valid stream whose content is {}", class(decoded.len())),
                            &format!("{name} / max {max}: {e:?}; c-brotli wrapper: {:?}", c.as_ref().map(|v| v.len())),
                            case.clone(),
                        )
                    }
                }
                // the c-brotli wrapper against the same expectation (strict about padding bits too)
                match (&c, want) {
                    (Ok(out), Some(w)) if out == w => {}
                    (Err(_), None) => {}
                    _ => {
                        reported = true;
                        ctx.run.violation(
                            &format!("c-brotli wrapper: wrong verdict on a {variant} stream whose content is {}", class(decoded.len())),
                            &format!("{name} / max {max}: {:?}", c.as_ref().map(|v| v.len())),
                            case.clone(),
                        )
                    }
                }
                // where both are judged and neither was reported they agree by construction; an error kind
                // the documentation names: too long => MaxSizeExceeded from both
                if !reported && variant == "valid" && decoded.len() > max {
                    for (who, e) in [("rust", r.as_ref().err()), ("c", c.as_ref().err())] {
                        if e != Some(&decode_error::DecodeError::MaxSizeExceeded) {
                            ctx.run.violation(
                                &format!("{who}-brotli wrapper: a valid stream longer than max is not reported as MaxSizeExceeded"),
                                &format!("{name} / max {max}: {e:?}"),
                                case.clone(),
                            );
                        }
                    }
                }
                let dg = digest_of(&("rust-decoder", variant, class(decoded.len()), r.is_ok(), d.is_some(), len.min(3)));
                l.all.insert(dg);
                if r.is_ok() {
                    l.nontrivial.insert(dg);
                }
            }
        }
    }
    ctx.run.count("rust_decoder_differential_cases", n);
    ctx.run.count("rust_decoder_nonzero_padding_bits_accepted_not_judged", n_lenient);
    ctx.merge(l);
}

// ---------------------------------------------------------------------------
// public entry points that only delegate: `apply_next_patches` (built-in decoder)
// ---------------------------------------------------------------------------

pub fn space_entry_points(ctx: &Ctx) {
    let mut l = Local::default();
    let mut n = 0u64;
    for spec in base_specs() {
        let tabs = tables_for(spec.kind)[0].clone();
        let sc = Scenario {
            base: spec.clone(),
            mapping: Mapping::F2,
            patches: vec![gk_patch(0, &[1, 3], &tabs, false, COMPAT_IFT), gk_patch(0, &[3, 4], &tabs, true, COMPAT_IFT)],
            note: "entry-points".into(),
            real_brotli: true,
        };
        let built = build_scenario(&sc, &[1, 2]);
        let sd = SubsetDefinition::codepoints(built.cps.iter().copied().collect());
        let mk_map = || {
            let mut m: HashMap<String, UriStatus> = HashMap::new();
            for i in 0..2 {
                m.insert(built.uris[i].clone(), UriStatus::Pending(patch_bytes(&sc, i)));
            }
            m
        };
        let (mut m1, mut m2) = (mk_map(), mk_map());
        let r = guard(|| {
            let a = PatchGroup::select_next_patches(FontRef::new(&built.font).unwrap(), &sd).unwrap().apply_next_patches(&mut m1);
            let b = PatchGroup::select_next_patches(FontRef::new(&built.font).unwrap(), &sd)
                .unwrap()
                .apply_next_patches_with_decoder(&mut m2, &shared_brotli_patch_decoder::BuiltInBrotliDecoder);
            (a, b)
        });
        n += 1;
        l.evals += 1;
        l.applies += 2;
        let case = json!({"kind":"entry-points","base": format!("{:?}", spec.kind)});
        match r {
            Err(p) => ctx.run.violation(&format!("apply_next_patches panics: {} at {}", p.kind(), p.site()), &p.message, case),
            Ok((a, b)) => {
                if a != b || a.is_err() || snapshot(&m1) != snapshot(&m2) {
                    ctx.run.violation(
                        "apply_next_patches differs from apply_next_patches_with_decoder(BuiltInBrotliDecoder)",
                        &format!("{:?}: {:?} vs {:?}", spec.kind, a.as_ref().map(|v| v.len()), b.as_ref().map(|v| v.len())),
                        case,
                    );
                }
                let dg = digest_of(&("entry-points", format!("{:?}", spec.kind)));
                l.all.insert(dg);
                l.nontrivial.insert(dg);
            }
        }
    }
    ctx.run.count("entry_point_differential_cases", n);
    ctx.merge(l);
}
