//! C18 — IFT patches change exactly what they say, atomically and order-independently.
//!
//! The real `PatchGroup::select_next_patches` / `apply_next_patches_with_decoder` (and through them
//! `apply_glyph_keyed_patches` / `apply_table_keyed_patch`) are driven over harness-synthesised base
//! fonts, mapping tables and patches; every result is compared with a reference of the patch
//! semantics on the *table map* (ref_*.rs style code below) and the caller's `UriStatus` map is
//! snapshotted around every call.
//!
//! Spaces (fixed nested order; the per patch-set sub-space of application order, grouping and
//! decoder fault is enumerated with the vcore choice tape, `explore_full`):
//!   gk    : base kinds x glyph-data "worlds" x patch sets (singles, pairs, triples) x id
//!           permutation (= order inside one call) x ordered partition into calls x decoder fault
//!   wide  : totals on both sides of the short-offset limit 0x1FFFE (glyf/loca, gvar) and of the CFF
//!           offSize limits (254, 65534)
//!   tk    : table keyed patches: per table {replace, diff, drop} over <= 3 of 5 tags x compat x fault
//!   misc  : compat id mismatch, disagreeing patches (documented first-wins), out of range gid, unknown
//!           table tags, missing URIs

mod audit;
mod brotli;
mod model;
mod patches;
mod unordered;

/// `shared-brotli-patch-decoder/src/rust_brotli.rs` is compiled into this crate by path (audit.rs); it
/// names its error type as `crate::decode_error::DecodeError`.
pub use shared_brotli_patch_decoder::decode_error;

use incremental_font_transfer::font_patch::PatchingError;
use incremental_font_transfer::patch_group::{PatchGroup, UriStatus};
use model::*;
use patches::*;
use read_fonts::types::Tag;
use read_fonts::FontRef;
use serde::{Deserialize, Serialize};
use serde_json::{json, Value};
use shared_brotli_patch_decoder::decode_error::DecodeError;
use shared_brotli_patch_decoder::SharedBrotliDecoder;
use std::cell::Cell;
use std::collections::{BTreeMap, HashMap, HashSet};
use std::sync::Mutex;
use vcore::*;

fn main() {
    main_for("C18", body)
}

const NG: usize = 6; // glyphs in the base fonts of most families (BaseSpec::lens decides)
const LIMIT_SHORT: usize = 0x1FFFE;

// ---------------------------------------------------------------------------
// decoders (injected dependency)
// ---------------------------------------------------------------------------

#[derive(Clone, Copy, Debug, PartialEq, Serialize, Deserialize)]
pub enum FaultKind {
    InitFailure,
    InvalidStream,
    InvalidDictionary,
    MaxSizeExceeded,
    ExcessInputData,
    IoError,
    /// not an error: the decoder returns one byte more than max_uncompressed_length
    Oversize,
}

pub const FAULT_KINDS: [FaultKind; 7] = [
    FaultKind::InitFailure,
    FaultKind::InvalidStream,
    FaultKind::InvalidDictionary,
    FaultKind::MaxSizeExceeded,
    FaultKind::ExcessInputData,
    FaultKind::IoError,
    FaultKind::Oversize,
];

/// Pass-through decoder with a dictionary rule (so that "diff against base" is observable) and an
/// optional fault at its k-th call (1 based, counted over the decoder's life time).
/// With a dictionary: output = dictionary ++ [0xDD] ++ encoded; without: output = encoded.
pub struct Decoder {
    pub calls: Cell<u32>,
    pub fault: Option<(u32, FaultKind)>,
    pub fault_hit: Cell<bool>,
    /// delegate to the repository's `BuiltInBrotliDecoder` (real brotli streams) instead of passing through
    pub real: bool,
}

impl Decoder {
    pub fn new(fault: Option<(u32, FaultKind)>) -> Self {
        Decoder {
            calls: Cell::new(0),
            fault,
            fault_hit: Cell::new(false),
            real: false,
        }
    }
    pub fn real(fault: Option<(u32, FaultKind)>) -> Self {
        Decoder {
            real: true,
            ..Decoder::new(fault)
        }
    }
}

impl SharedBrotliDecoder for Decoder {
    fn decode(
        &self,
        encoded: &[u8],
        shared_dictionary: Option<&[u8]>,
        max_uncompressed_length: usize,
    ) -> Result<Vec<u8>, DecodeError> {
        let n = self.calls.get() + 1;
        self.calls.set(n);
        let mut out = vec![];
        if self.real {
            let is_error_fault = matches!(self.fault, Some((k, kind)) if k == n && kind != FaultKind::Oversize);
            if !is_error_fault {
                out = shared_brotli_patch_decoder::BuiltInBrotliDecoder.decode(encoded, shared_dictionary, max_uncompressed_length)?;
            }
        } else {
            if let Some(d) = shared_dictionary {
                out.extend_from_slice(d);
                out.push(0xDD);
            }
            out.extend_from_slice(encoded);
        }
        if let Some((k, kind)) = self.fault {
            if k == n {
                self.fault_hit.set(true);
                return match kind {
                    FaultKind::InitFailure => Err(DecodeError::InitFailure),
                    FaultKind::InvalidStream => Err(DecodeError::InvalidStream),
                    FaultKind::InvalidDictionary => Err(DecodeError::InvalidDictionary),
                    FaultKind::MaxSizeExceeded => Err(DecodeError::MaxSizeExceeded),
                    FaultKind::ExcessInputData => Err(DecodeError::ExcessInputData),
                    FaultKind::IoError => Err(DecodeError::IoError(std::io::ErrorKind::Other)),
                    FaultKind::Oversize => {
                        while out.len() <= max_uncompressed_length {
                            out.push(0xEE);
                        }
                        Ok(out)
                    }
                };
            }
        }
        if out.len() > max_uncompressed_length {
            return Err(DecodeError::MaxSizeExceeded);
        }
        Ok(out)
    }
}

// ---------------------------------------------------------------------------
// reference font model (table map)
// ---------------------------------------------------------------------------

#[derive(Clone, Copy, Debug, PartialEq, Eq, Hash, Serialize, Deserialize)]
pub enum BaseKind {
    GlyfShort,
    GlyfLong,
    GvarShort,
    GvarLong,
    /// glyf (short loca) and gvar (short) in one font
    GlyfGvar,
    Cff,
    Cff2,
}

#[derive(Clone, Debug, PartialEq, Eq, Hash, Serialize, Deserialize)]
pub struct BaseSpec {
    pub kind: BaseKind,
    /// stored length of the data of every glyph in the base (even for short kinds)
    pub lens: Vec<usize>,
    /// CFF/CFF2 charstrings offSize of the base
    pub off_size: u8,
    /// gvar: shared tuples placed after the glyph data (out of spec order) instead of before
    pub gvar_tuples_last: bool,
    /// gvar: no shared tuples at all (sharedTupleCount 0; the client then points the shared tuple offset at the glyph data)
    #[serde(default)]
    pub gvar_no_tuples: bool,
}

/// an offset-array table: per glyph the *stored* bytes (padding included)
#[derive(Clone, Debug, PartialEq)]
pub struct OffT {
    pub slices: Vec<Vec<u8>>,
    /// glyf/gvar: long offsets; CFF: unused
    pub long: bool,
    /// CFF/CFF2 offSize
    pub off_size: u8,
}

#[derive(Clone, Debug, PartialEq)]
pub struct RefFont {
    pub glyf: Option<OffT>,
    pub gvar: Option<OffT>,
    pub cff: Option<OffT>,
    pub cff2: Option<OffT>,
    /// bytes of the CFF / CFF2 table before the charstrings INDEX
    pub cff_prefix: Vec<u8>,
    /// gvar: shared tuple bytes
    pub gvar_tuples: Vec<u8>,
    /// every other table incl. IFT / IFTX / head / maxp / cmap
    pub others: BTreeMap<TagB, Vec<u8>>,
}

fn base_glyph_bytes(table: u8, g: usize, len: usize) -> Vec<u8> {
    (0..len).map(|i| 0x80 | (table << 5) | ((g as u8) << 2) | (i as u8 & 3)).collect()
}

fn put_off(w: &mut W, size: u8, v: u32) {
    match size {
        1 => w.u8(v as u8),
        2 => w.u16(v as u16),
        3 => w.u24(v),
        _ => w.u32(v),
    }
}

fn encode_loca(t: &OffT) -> (Vec<u8>, Vec<u8>) {
    let mut glyf = vec![];
    let mut loca = W::default();
    let mut off = 0u32;
    for s in &t.slices {
        if t.long {
            loca.u32(off)
        } else {
            loca.u16((off / 2) as u16)
        }
        glyf.extend_from_slice(s);
        off += s.len() as u32;
    }
    if t.long {
        loca.u32(off)
    } else {
        loca.u16((off / 2) as u16)
    }
    (glyf, loca.0)
}

fn encode_gvar(t: &OffT, tuples: &[u8], tuples_last: bool) -> Vec<u8> {
    let mut w = W::default();
    w.u16(1);
    w.u16(0);
    w.u16(1); // axis count
    w.u16((tuples.len() / 2) as u16); // shared tuple count (1 axis => 2 bytes per tuple)
    let st_at = w.len();
    w.u32(0);
    w.u16(t.slices.len() as u16);
    w.u16(t.long as u16);
    let data_at = w.len();
    w.u32(0);
    let mut off = 0u32;
    for s in t.slices.iter() {
        if t.long {
            w.u32(off)
        } else {
            w.u16((off / 2) as u16)
        }
        off += s.len() as u32;
    }
    if t.long {
        w.u32(off)
    } else {
        w.u16((off / 2) as u16)
    }
    let put_tuples = |w: &mut W| {
        let at = w.len() as u32;
        w.patch_u32(st_at, at);
        w.bytes(tuples);
    };
    if !tuples_last {
        put_tuples(&mut w);
    }
    let at = w.len() as u32;
    w.patch_u32(data_at, at);
    for s in &t.slices {
        w.bytes(s);
    }
    if tuples_last {
        put_tuples(&mut w);
    }
    w.0
}

fn cff_prefix(v2: bool) -> Vec<u8> {
    if v2 {
        // header (5 bytes, top dict length 1), top dict, empty global subr INDEX (u32 count)
        vec![2, 0, 5, 0, 1, 0x8b, 0, 0, 0, 0]
    } else {
        // header, name INDEX ["A"], top dict INDEX [1 byte], empty string INDEX, empty global subr INDEX
        vec![1, 0, 4, 1, 0, 1, 1, 1, 2, b'A', 0, 1, 1, 1, 2, 0x8b, 0, 0, 0, 0]
    }
}

fn encode_cff(prefix: &[u8], t: &OffT, v2: bool) -> Vec<u8> {
    let mut w = W::default();
    w.bytes(prefix);
    if v2 {
        w.u32(t.slices.len() as u32)
    } else {
        w.u16(t.slices.len() as u16)
    }
    w.u8(t.off_size);
    let mut off = 1u32;
    for s in &t.slices {
        put_off(&mut w, t.off_size, off);
        off += s.len() as u32;
    }
    put_off(&mut w, t.off_size, off);
    for s in &t.slices {
        w.bytes(s);
    }
    w.0
}

pub const IFT: TagB = *b"IFT ";
pub const IFTX: TagB = *b"IFTX";
pub const GLYF: TagB = *b"glyf";
pub const LOCA: TagB = *b"loca";
pub const GVAR: TagB = *b"gvar";
pub const CFF: TagB = *b"CFF ";
pub const CFF2: TagB = *b"CFF2";
pub const HEAD: TagB = *b"head";
pub const ZZZZ: TagB = *b"zzzz";

pub fn build_base(spec: &BaseSpec) -> RefFont {
    use write_fonts::tables::{cmap::Cmap, head::Head, maxp::Maxp};
    let mut f = RefFont {
        glyf: None,
        gvar: None,
        cff: None,
        cff2: None,
        cff_prefix: vec![],
        gvar_tuples: if spec.gvar_no_tuples { vec![] } else { vec![0, 42, 0, 13, 0, 25] },
        others: BTreeMap::new(),
    };
    let slices = |table: u8| -> Vec<Vec<u8>> {
        spec.lens
            .iter()
            .enumerate()
            .map(|(g, l)| base_glyph_bytes(table, g, *l))
            .collect()
    };
    let mut long_loca = false;
    match spec.kind {
        BaseKind::GlyfShort => f.glyf = Some(OffT { slices: slices(0), long: false, off_size: 0 }),
        BaseKind::GlyfLong => {
            long_loca = true;
            f.glyf = Some(OffT { slices: slices(0), long: true, off_size: 0 })
        }
        BaseKind::GvarShort => f.gvar = Some(OffT { slices: slices(1), long: false, off_size: 0 }),
        BaseKind::GvarLong => f.gvar = Some(OffT { slices: slices(1), long: true, off_size: 0 }),
        BaseKind::GlyfGvar => {
            f.glyf = Some(OffT { slices: slices(0), long: false, off_size: 0 });
            f.gvar = Some(OffT { slices: slices(1), long: false, off_size: 0 });
        }
        BaseKind::Cff => {
            f.cff_prefix = cff_prefix(false);
            f.cff = Some(OffT { slices: slices(2), long: false, off_size: spec.off_size });
        }
        BaseKind::Cff2 => {
            f.cff_prefix = cff_prefix(true);
            f.cff2 = Some(OffT { slices: slices(3), long: false, off_size: spec.off_size });
        }
    }
    let cmap = Cmap::from_mappings(
        (0..5u32).map(|i| (char::from_u32(0x41 + i).unwrap(), font_types::GlyphId::new(i + 1))),
    )
    .unwrap();
    let maxp = Maxp {
        num_glyphs: spec.lens.len() as u16,
        ..Default::default()
    };
    let head = Head {
        index_to_loc_format: long_loca as i16,
        ..Default::default()
    };
    f.others.insert(*b"cmap", write_fonts::dump_table(&cmap).unwrap());
    f.others.insert(*b"maxp", write_fonts::dump_table(&maxp).unwrap());
    f.others.insert(HEAD, write_fonts::dump_table(&head).unwrap());
    f.others.insert(*b"tabA", b"unrelated table A".to_vec());
    f.others.insert(*b"tabB", vec![]);
    f
}

pub fn encode_font(f: &RefFont, spec: &BaseSpec) -> Vec<u8> {
    let mut b = write_fonts::FontBuilder::new();
    for (t, d) in &f.others {
        b.add_raw(Tag::new(t), d.clone());
    }
    if let Some(t) = &f.glyf {
        let (glyf, loca) = encode_loca(t);
        b.add_raw(Tag::new(&GLYF), glyf);
        b.add_raw(Tag::new(&LOCA), loca);
    }
    if let Some(t) = &f.gvar {
        b.add_raw(Tag::new(&GVAR), encode_gvar(t, &f.gvar_tuples, spec.gvar_tuples_last));
    }
    if let Some(t) = &f.cff {
        b.add_raw(Tag::new(&CFF), encode_cff(&f.cff_prefix, t, false));
    }
    if let Some(t) = &f.cff2 {
        b.add_raw(Tag::new(&CFF2), encode_cff(&f.cff_prefix, t, true));
    }
    b.build()
}

// ---------------------------------------------------------------------------
// patches (model) and the reference application
// ---------------------------------------------------------------------------

#[derive(Clone, Debug, PartialEq, Serialize, Deserialize)]
pub struct GkPatch {
    pub compat: [u32; 4],
    pub wide: bool,
    pub gids: Vec<u32>,
    pub tables: Vec<TagB>,
    /// data[table][glyph]
    pub data: Vec<Vec<Vec<u8>>>,
}

impl GkPatch {
    pub fn bytes(&self) -> Vec<u8> {
        glyph_keyed_patch(self.compat, self.wide, &self.gids, &self.tables, &self.data, 0)
    }
}

/// bytes of patch i of a scenario: pass-through body, or (real_brotli) the body inside a stored brotli stream
pub fn patch_bytes(sc: &Scenario, i: usize) -> Vec<u8> {
    let p = &sc.patches[i];
    if !sc.real_brotli {
        return p.bytes();
    }
    let body = glyph_keyed_body(p.wide, &p.gids, &p.tables, &p.data);
    let (wb, chunk) = [(16u32, 1usize << 16), (22, 1 << 24), (24, 7)][i % 3];
    let stream = brotli::stored(&body, wb, chunk);
    glyph_keyed_wrap(p.compat, p.wide, &stream, body.len() as u32)
}

#[derive(Debug, Clone, PartialEq)]
pub enum RefErr {
    OffsetOverflow,
    UnsortedTables,
    GidBeyondFont,
    MissingTable,
    Incompatible,
    /// the glyph id list of a patch is not strictly ascending (and the patch lists a table that is processed)
    UnsortedGids,
}

fn cff_max(off_size: u8) -> usize {
    (1usize << (8 * off_size as usize)) - 2
}

/// Apply the glyph keyed patches of ONE call, in application order, to table `tag`.
fn ref_patch_table(t: &mut OffT, tag: TagB, patches: &[&GkPatch], is_cff: bool, can_widen: bool) -> Result<(), RefErr> {
    // first patch (in application order) that lists the glyph wins
    let mut repl: BTreeMap<u32, &Vec<u8>> = BTreeMap::new();
    for p in patches {
        let Some(ti) = p.tables.iter().position(|x| *x == tag) else {
            continue;
        };
        for (gi, g) in p.gids.iter().enumerate() {
            repl.entry(*g).or_insert(&p.data[ti][gi]);
        }
    }
    let div = if !is_cff && !t.long { 2 } else { 1 };
    let mut total = 0usize;
    for (g, s) in t.slices.iter().enumerate() {
        match repl.get(&(g as u32)) {
            Some(d) => total += d.len() + d.len() % div,
            None => total += s.len(),
        }
    }
    // widening decision
    if is_cff {
        if total > cff_max(t.off_size) {
            let mut w = t.off_size;
            while w < 4 && cff_max(w) < total {
                w += 1;
            }
            t.off_size = w;
        }
    } else if !t.long && total > LIMIT_SHORT {
        if !can_widen {
            return Err(RefErr::OffsetOverflow);
        }
        t.long = true;
    }
    if let Some((g, _)) = repl.iter().next_back() {
        if *g as usize >= t.slices.len() {
            return Err(RefErr::GidBeyondFont);
        }
    }
    let new_div = if !is_cff && !t.long { 2 } else { 1 };
    for (g, d) in repl {
        let mut v = d.clone();
        if v.len() % new_div != 0 {
            v.push(0);
        }
        t.slices[g as usize] = v;
    }
    Ok(())
}

/// Reference of one `apply_glyph_keyed_patches` call. `bits` = (table tag, bit index) of every patch.
pub fn ref_apply_gk(f: &mut RefFont, patches: &[&GkPatch], bits: &[(TagB, usize)], compat: &HashMap<TagB, [u32; 4]>, patch_tables: &[TagB]) -> Result<(), RefErr> {
    for (p, t) in patches.iter().zip(patch_tables) {
        if compat.get(t) != Some(&p.compat) {
            return Err(RefErr::Incompatible);
        }
    }
    if patches.iter().any(|p| p.tables.windows(2).any(|w| w[0] >= w[1])) {
        return Err(RefErr::UnsortedTables);
    }
    let mut g = f.clone();
    let mut tags: Vec<TagB> = patches.iter().flat_map(|p| p.tables.iter().copied()).collect();
    tags.sort();
    tags.dedup();
    for tag in tags {
        let (slot, is_cff, can_widen) = if tag == GLYF {
            (&mut g.glyf, false, false)
        } else if tag == GVAR {
            (&mut g.gvar, false, true)
        } else if tag == CFF {
            (&mut g.cff, true, true)
        } else if tag == CFF2 {
            (&mut g.cff2, true, true)
        } else {
            continue;
        };
        let Some(t) = slot.as_mut() else {
            return Err(RefErr::MissingTable);
        };
        // the glyph id list is validated while the data of a processed table is collected
        if patches.iter().any(|p| p.tables.contains(&tag) && p.gids.windows(2).any(|w| w[0] >= w[1])) {
            return Err(RefErr::UnsortedGids);
        }
        ref_patch_table(t, tag, patches, is_cff, can_widen)?;
    }
    for (tag, bit) in bits {
        let d = g.others.get_mut(tag).expect("mapping table present");
        d[bit / 8] |= 1 << (bit % 8);
    }
    *f = g;
    Ok(())
}

// ---------------------------------------------------------------------------
// reading a result font back (independent parsers for the offset arrays)
// ---------------------------------------------------------------------------

fn be16(b: &[u8], at: usize) -> Option<u32> {
    Some(u16::from_be_bytes(b.get(at..at + 2)?.try_into().ok()?) as u32)
}
fn be32(b: &[u8], at: usize) -> Option<u32> {
    Some(u32::from_be_bytes(b.get(at..at + 4)?.try_into().ok()?))
}
fn be_n(b: &[u8], at: usize, n: usize) -> Option<u32> {
    let s = b.get(at..at + n)?;
    let mut v = 0u32;
    for x in s {
        v = (v << 8) | *x as u32;
    }
    Some(v)
}

pub fn table_map(font: &[u8]) -> Result<BTreeMap<TagB, Vec<u8>>, String> {
    let f = FontRef::new(font).map_err(|e| format!("result font does not parse: {e}"))?;
    let mut m = BTreeMap::new();
    for r in f.table_directory.table_records() {
        let tag = r.tag();
        let d = f.table_data(tag).ok_or("table data out of bounds")?;
        let mut bytes = d.as_bytes().to_vec();
        let t: TagB = tag.to_be_bytes();
        if t == HEAD && bytes.len() >= 12 {
            // checksum adjustment is recomputed by the font container writer
            bytes[8..12].copy_from_slice(&[0; 4]);
        }
        if m.insert(t, bytes).is_some() {
            return Err("duplicate table tag in result".into());
        }
    }
    Ok(m)
}

fn slices_from_offsets(offs: &[u32], data: &[u8], what: &str) -> Result<Vec<Vec<u8>>, String> {
    let mut out = vec![];
    for w in offs.windows(2) {
        if w[0] > w[1] {
            return Err(format!("{what}: offsets not ascending {:?}", offs));
        }
        out.push(
            data.get(w[0] as usize..w[1] as usize)
                .ok_or(format!("{what}: offset beyond data"))?
                .to_vec(),
        );
    }
    Ok(out)
}

/// Compare a result font with the reference. Err((class, detail)); class is used in the identity.
pub fn compare(font: &[u8], want: &RefFont) -> Result<(), (String, String)> {
    let e = |c: &str, d: String| Err((c.to_string(), d));
    let m = match table_map(font) {
        Ok(m) => m,
        Err(s) => return e("result unreadable", s),
    };
    let mut expect_tags: Vec<TagB> = want.others.keys().copied().collect();
    if want.glyf.is_some() {
        expect_tags.extend([GLYF, LOCA]);
    }
    if want.gvar.is_some() {
        expect_tags.push(GVAR);
    }
    if want.cff.is_some() {
        expect_tags.push(CFF);
    }
    if want.cff2.is_some() {
        expect_tags.push(CFF2);
    }
    expect_tags.sort();
    let got_tags: Vec<TagB> = m.keys().copied().collect();
    if got_tags != expect_tags {
        return e(
            "table set differs",
            format!(
                "got {:?} want {:?}",
                got_tags.iter().map(tag_str).collect::<Vec<_>>(),
                expect_tags.iter().map(tag_str).collect::<Vec<_>>()
            ),
        );
    }
    for (t, d) in &want.others {
        let mut d = d.clone();
        if *t == HEAD && d.len() >= 12 {
            d[8..12].copy_from_slice(&[0; 4]);
        }
        if m[t] != d {
            let class = if *t == IFT || *t == IFTX {
                "applied bits in mapping table differ"
            } else {
                "untouched table changed"
            };
            return e(class, format!("{}: got {} want {}", tag_str(t), hex(&m[t]), hex(&d)));
        }
    }
    if let Some(t) = &want.glyf {
        let loca = &m[&LOCA];
        let n = t.slices.len() + 1;
        let width = if t.long { 4 } else { 2 };
        if loca.len() != n * width {
            return e("loca width/length differs", format!("loca len {} want {}", loca.len(), n * width));
        }
        let offs: Vec<u32> = (0..n)
            .map(|i| if t.long { be32(loca, 4 * i).unwrap() } else { be16(loca, 2 * i).unwrap() * 2 })
            .collect();
        let s = match slices_from_offsets(&offs, &m[&GLYF], "glyf/loca") {
            Ok(s) => s,
            Err(d) => return e("glyf offsets broken", d),
        };
        if let Some(g) = (0..t.slices.len()).find(|g| s[*g] != t.slices[*g]) {
            return e(
                "glyf glyph data differs",
                format!("gid {g}: got {} want {}", hex(&s[g]), hex(&t.slices[g])),
            );
        }
    }
    if let Some(t) = &want.gvar {
        let b = &m[&GVAR];
        let bad = || e("gvar header broken", hex(&b[..b.len().min(40)]));
        let (Some(ver), Some(axes), Some(ntup), Some(st_off), Some(gc), Some(flags), Some(data_off)) =
            (be32(b, 0), be16(b, 4), be16(b, 6), be32(b, 8), be16(b, 12), be16(b, 14), be32(b, 16))
        else {
            return bad();
        };
        if ver != 0x0001_0000 || axes != 1 || ntup as usize != want.gvar_tuples.len() / 2 || gc as usize != t.slices.len() {
            return bad();
        }
        if (flags & 1 == 1) != t.long {
            return e(
                "gvar offset width differs",
                format!("long={} want long={}", flags & 1, t.long),
            );
        }
        let n = t.slices.len() + 1;
        let mut offs = vec![];
        for i in 0..n {
            let v = if t.long { be32(b, 20 + 4 * i) } else { be16(b, 20 + 2 * i).map(|v| v * 2) };
            let Some(v) = v else { return bad() };
            offs.push(v);
        }
        let Some(data) = b.get(data_off as usize..) else { return bad() };
        let s = match slices_from_offsets(&offs, data, "gvar") {
            Ok(s) => s,
            Err(d) => return e("gvar offsets broken", d),
        };
        if let Some(g) = (0..t.slices.len()).find(|g| s[*g] != t.slices[*g]) {
            return e(
                "gvar glyph data differs",
                format!("gid {g}: got {} want {}", hex(&s[g]), hex(&t.slices[g])),
            );
        }
        let tl = want.gvar_tuples.len();
        if b.get(st_off as usize..st_off as usize + tl) != Some(&want.gvar_tuples[..]) {
            return e("gvar shared tuples differ", format!("at {st_off}"));
        }
    }
    for (t, tag, v2) in [(&want.cff, CFF, false), (&want.cff2, CFF2, true)] {
        let Some(t) = t else { continue };
        let b = &m[&tag];
        let p = want.cff_prefix.len();
        if b.get(..p) != Some(&want.cff_prefix[..]) {
            return e("CFF bytes before charstrings changed", hex(&b[..b.len().min(p)]));
        }
        let (count, at) = if v2 { (be32(b, p), p + 4) } else { (be16(b, p), p + 2) };
        if count != Some(t.slices.len() as u32) {
            return e("CFF charstrings count differs", format!("{count:?}"));
        }
        let Some(os) = b.get(at).copied() else {
            return e("CFF charstrings truncated", String::new());
        };
        if os != t.off_size {
            return e("CFF offSize differs", format!("offSize {os} want {}", t.off_size));
        }
        let n = t.slices.len() + 1;
        let mut offs = vec![];
        for i in 0..n {
            let Some(v) = be_n(b, at + 1 + i * os as usize, os as usize) else {
                return e("CFF charstrings truncated", String::new());
            };
            if v == 0 {
                return e("CFF offset 0", String::new());
            }
            offs.push(v - 1);
        }
        if offs[0] != 0 {
            return e("CFF first offset not 1", format!("{:?}", offs));
        }
        let data = &b[at + 1 + n * os as usize..];
        let s = match slices_from_offsets(&offs, data, "CFF") {
            Ok(s) => s,
            Err(d) => return e("CFF offsets broken", d),
        };
        if let Some(g) = (0..t.slices.len()).find(|g| s[*g] != t.slices[*g]) {
            return e(
                "CFF glyph data differs",
                format!("gid {g}: got {} want {}", hex(&s[g]), hex(&t.slices[g])),
            );
        }
    }
    Ok(())
}

// ---------------------------------------------------------------------------
// UriStatus map helpers
// ---------------------------------------------------------------------------

pub type Snap = Vec<(String, Option<Vec<u8>>)>;

pub fn snapshot(m: &HashMap<String, UriStatus>) -> Snap {
    let mut v: Snap = m
        .iter()
        .map(|(k, s)| {
            (
                k.clone(),
                match s {
                    UriStatus::Applied => None,
                    UriStatus::Pending(b) => Some(b.clone()),
                },
            )
        })
        .collect();
    v.sort();
    v
}

// ---------------------------------------------------------------------------
// scenario: base + mapping + patch set
// ---------------------------------------------------------------------------

#[derive(Clone, Copy, Debug, PartialEq, Eq, Hash, Serialize, Deserialize)]
pub enum Mapping {
    /// all entries in a format-2 "IFT " table
    F2,
    /// all entries in a format-1 "IFT " table (entry i+1 <- gid i+1 <- code point 0x41+i)
    F1,
    /// even entries in a format-2 "IFT ", odd entries in a format-2 "IFTX" (other compat id, other template)
    Split,
}

pub const COMPAT_IFT: [u32; 4] = [1, 2, 3, 4];
pub const COMPAT_IFTX: [u32; 4] = [5, 6, 7, 8];

#[derive(Clone, Debug, Serialize, Deserialize)]
pub struct Scenario {
    pub base: BaseSpec,
    pub mapping: Mapping,
    pub patches: Vec<GkPatch>,
    /// patch formats per entry: 3 = glyph keyed (the only one used in gk scenarios)
    pub note: String,
    /// patch bodies are wrapped into hand-made brotli streams and decoded by `BuiltInBrotliDecoder`
    #[serde(default)]
    pub real_brotli: bool,
}

pub struct Built {
    pub font: Vec<u8>,
    pub reference: RefFont,
    /// per patch: uri, mapping table tag, applied bit index, code point that selects it
    pub uris: Vec<String>,
    pub tables: Vec<TagB>,
    pub bits: Vec<usize>,
    pub cps: Vec<u32>,
}

/// `ids[i]` = numeric id of patch i (format 2 only; decides the URI and so the order inside a call)
pub fn build_scenario(sc: &Scenario, ids: &[u32]) -> Built {
    let n = sc.patches.len();
    let mut reference = build_base(&sc.base);
    let cff_off = matches!(sc.base.kind, BaseKind::Cff).then(|| reference.cff_prefix.len() as u32);
    let cff2_off = matches!(sc.base.kind, BaseKind::Cff2).then(|| reference.cff_prefix.len() as u32);
    let cp = |i: usize| 0x41 + i as u32;
    let mut uris = vec![String::new(); n];
    let mut tables = vec![IFT; n];
    let mut bits = vec![0usize; n];
    let cps: Vec<u32> = (0..n).map(cp).collect();
    let entry = |i: usize, last_id: &mut i64| {
        let mut e = E2::plain();
        e.cps = Cps::Set {
            bias_kind: 0,
            bias: 0,
            members: vec![cp(i)],
        };
        let delta = ids[i] as i64 - *last_id - 1;
        e.id = if delta == 0 { IdSpec::Default } else { IdSpec::Delta(delta as i32) };
        *last_id = ids[i] as i64;
        e
    };
    match sc.mapping {
        Mapping::F2 | Mapping::Split => {
            let mut t_ift = T2 {
                compat: COMPAT_IFT,
                default_format: 3,
                template: b"p/{id}".to_vec(),
                entries: vec![],
                string_data: None,
                cff_off,
                cff2_off,
            };
            let mut t_iftx = T2 {
                compat: COMPAT_IFTX,
                default_format: 3,
                template: b"q/{id}".to_vec(),
                entries: vec![],
                string_data: None,
                cff_off: None,
                cff2_off: None,
            };
            let (mut last_a, mut last_b) = (0i64, 0i64);
            let mut where_: Vec<(bool, usize)> = vec![];
            for i in 0..n {
                let in_x = sc.mapping == Mapping::Split && i % 2 == 1;
                if in_x {
                    where_.push((true, t_iftx.entries.len()));
                    let e = entry(i, &mut last_b);
                    t_iftx.entries.push(e);
                } else {
                    where_.push((false, t_ift.entries.len()));
                    let e = entry(i, &mut last_a);
                    t_ift.entries.push(e);
                }
            }
            let ea = encode_t2(&t_ift);
            let eb = encode_t2(&t_iftx);
            for i in 0..n {
                let (x, k) = where_[i];
                let (t, enc) = if x { (&t_iftx, &eb) } else { (&t_ift, &ea) };
                uris[i] = expand_uri(&t.template, &Id::Num(ids[i]));
                tables[i] = if x { IFTX } else { IFT };
                bits[i] = enc.entry_starts[k] * 8 + 6;
            }
            reference.others.insert(IFT, ea.bytes);
            if sc.mapping == Mapping::Split {
                reference.others.insert(IFTX, eb.bytes);
            }
        }
        Mapping::F1 => {
            // note "f1base=K": patch i uses entry K+i+1 (applied bits beyond the first bitmap byte; K >= 255
            // also switches the glyph map to 16 bit entry indices); entries 1..=K map no glyph
            let eb: u16 = sc.note.strip_prefix("f1base=").and_then(|v| v.parse().ok()).unwrap_or(0);
            let mut entry_index = vec![0u16; sc.base.lens.len() - 1];
            for i in 0..n {
                entry_index[i] = eb + i as u16 + 1;
            }
            let n = n + eb as usize;
            let t = T1 {
                compat: COMPAT_IFT,
                max_entry_index: n as u16,
                max_glyph_map_entry_index: n as u16,
                glyph_count: sc.base.lens.len() as u32,
                first_mapped_glyph: 1,
                entry_index,
                feature_map: None,
                applied: vec![0; bitmap_len(n as u16)],
                template: b"p/{id}".to_vec(),
                patch_format: 3,
                cff_off,
                cff2_off,
            };
            let enc = encode_t1(&t);
            for i in 0..sc.patches.len() {
                uris[i] = expand_uri(&t.template, &Id::Num(eb as u32 + i as u32 + 1));
                bits[i] = enc.applied_start * 8 + eb as usize + i + 1;
            }
            reference.others.insert(IFT, enc.bytes);
        }
    }
    let font = encode_font(&reference, &sc.base);
    Built {
        font,
        reference,
        uris,
        tables,
        bits,
        cps,
    }
}

// ---------------------------------------------------------------------------
// one execution = (scenario, id permutation, ordered partition, fault)
// ---------------------------------------------------------------------------

pub fn permutations(n: usize) -> Vec<Vec<usize>> {
    fn rec(cur: &mut Vec<usize>, used: &mut Vec<bool>, out: &mut Vec<Vec<usize>>) {
        if cur.len() == used.len() {
            out.push(cur.clone());
            return;
        }
        for i in 0..used.len() {
            if !used[i] {
                used[i] = true;
                cur.push(i);
                rec(cur, used, out);
                cur.pop();
                used[i] = false;
            }
        }
    }
    let mut out = vec![];
    rec(&mut vec![], &mut vec![false; n], &mut out);
    out
}

/// all ordered partitions of {0..n} into non-empty blocks (sequence of calls)
pub fn ordered_partitions(n: usize) -> Vec<Vec<Vec<usize>>> {
    // assign each element a block number; keep assignments whose used blocks are exactly 0..k
    let mut out = vec![];
    let total = (n as u32).pow(n as u32).max(1);
    for code in 0..total {
        let mut c = code;
        let asg: Vec<usize> = (0..n)
            .map(|_| {
                let v = (c % n as u32) as usize;
                c /= n as u32;
                v
            })
            .collect();
        let k = asg.iter().max().map(|m| m + 1).unwrap_or(0);
        if (0..k).all(|b| asg.contains(&b)) {
            out.push((0..k).map(|b| (0..n).filter(|i| asg[*i] == b).collect()).collect());
        }
    }
    out.sort();
    out.dedup();
    out
}

#[derive(Default)]
pub struct Local {
    pub all: HashSet<u64>,
    pub nontrivial: HashSet<u64>,
    pub evals: u64,
    pub applies: u64,
    pub oversize_ok: u64,
    pub oversize_err: u64,
    pub faults_injected: u64,
    pub expected_err_runs: u64,
    pub width_dependent: u64,
}

pub struct Ctx<'a> {
    pub run: &'a Run,
    pub sink: Mutex<Local>,
}
impl Ctx<'_> {
    pub fn merge(&self, l: Local) {
        let mut g = self.sink.lock().unwrap();
        g.all.extend(l.all);
        g.nontrivial.extend(l.nontrivial);
        g.evals += l.evals;
        g.applies += l.applies;
        g.oversize_ok += l.oversize_ok;
        g.oversize_err += l.oversize_err;
        g.faults_injected += l.faults_injected;
        g.expected_err_runs += l.expected_err_runs;
        g.width_dependent += l.width_dependent;
    }
}

fn sc_sig(sc: &Scenario) -> String {
    let tabs: Vec<String> = {
        let mut t: Vec<TagB> = sc.patches.iter().flat_map(|p| p.tables.iter().copied()).collect();
        t.sort();
        t.dedup();
        t.iter().map(tag_str).collect()
    };
    format!("{:?}/{:?} tables={}", sc.base.kind, sc.mapping, tabs.join("+"))
}

pub struct Outcome {
    /// table map of the final font (head checksum zeroed) when every round succeeded
    pub final_tables: Option<BTreeMap<TagB, Vec<u8>>>,
    /// the reference state the final font was compared with
    pub final_ref: Option<RefFont>,
    /// some round switched an offset array to a wider type
    pub widened: bool,
}
impl Outcome {
    fn none() -> Outcome {
        Outcome { final_tables: None, final_ref: None, widened: false }
    }
}

fn widths(f: &RefFont) -> (Option<bool>, Option<bool>, Option<u8>, Option<u8>) {
    (
        f.glyf.as_ref().map(|t| t.long),
        f.gvar.as_ref().map(|t| t.long),
        f.cff.as_ref().map(|t| t.off_size),
        f.cff2.as_ref().map(|t| t.off_size),
    )
}

/// glyph data equal up to one trailing zero pad byte (what short, divided offsets add)
fn logically_equal(a: &RefFont, b: &RefFont) -> bool {
    let eq = |x: &Option<OffT>, y: &Option<OffT>| match (x, y) {
        (None, None) => true,
        (Some(x), Some(y)) => {
            x.slices.len() == y.slices.len()
                && x.slices.iter().zip(&y.slices).all(|(p, q)| {
                    let (s, l) = if p.len() <= q.len() { (p, q) } else { (q, p) };
                    s == l || (s.len() + 1 == l.len() && l[s.len()] == 0 && l[..s.len()] == s[..])
                })
        }
        _ => false,
    };
    eq(&a.glyf, &b.glyf) && eq(&a.gvar, &b.gvar) && eq(&a.cff, &b.cff) && eq(&a.cff2, &b.cff2)
}

/// Execute one tape. Rounds = blocks of the partition; round r asks for the code points of its block
/// (plus those of earlier blocks: they are applied already), supplies the patch bytes, applies.
pub fn execute(
    ctx: &Ctx,
    sc: &Scenario,
    tape: &mut Tape,
    perms: &[Vec<usize>],
    parts: &[Vec<Vec<usize>>],
    local: &mut Local,
) -> Outcome {
    use incremental_font_transfer::patchmap::SubsetDefinition;
    let n = sc.patches.len();
    let perm_i = if sc.mapping == Mapping::F1 { 0 } else { tape.choose(perms.len() as u32) as usize };
    let part_i = tape.choose(parts.len() as u32) as usize;
    // faults only for the identity id assignment (the decoder does not see ids)
    let n_dec = n as u32;
    let fault_c = if perm_i == 0 { tape.choose(1 + (n_dec + 1) * FAULT_KINDS.len() as u32) } else { 0 };
    let fault = if fault_c == 0 {
        None
    } else {
        let c = fault_c - 1;
        Some((1 + c / FAULT_KINDS.len() as u32, FAULT_KINDS[(c % FAULT_KINDS.len() as u32) as usize]))
    };
    let perm = &perms[perm_i];
    let part = &parts[part_i];
    let ids: Vec<u32> = (0..n).map(|i| perm[i] as u32 + 1).collect();
    let built = build_scenario(sc, &ids);
    let case = || {
        json!({"kind":"gk","scenario": sc, "tape": tape_choices(perm_i, part_i, fault_c, sc.mapping), "ids": ids,
               "partition": part, "fault": fault.map(|(k, f)| json!({"call": k, "kind": format!("{f:?}")}))})
    };
    local.evals += 1;
    let mut compat: HashMap<TagB, [u32; 4]> = HashMap::new();
    compat.insert(IFT, COMPAT_IFT);
    if sc.mapping == Mapping::Split {
        compat.insert(IFTX, COMPAT_IFTX);
    }
    let decoder = if sc.real_brotli { Decoder::real(fault) } else { Decoder::new(fault) };
    let mut font = built.font.clone();
    let mut reference = built.reference.clone();
    let mut map: HashMap<String, UriStatus> = HashMap::new();
    map.insert("unrelated".into(), UriStatus::Pending(vec![1, 2, 3]));
    let mut asked: Vec<u32> = vec![];
    let mut h = Fnv::new();
    h.str(&sc_sig(sc));
    h.u64(fault.map(|(k, f)| k as u64 * 16 + f as u64).unwrap_or(0));
    let mut all_ok = true;
    let mut any_applied = false;
    let mut retried = false;
    let mut widened = false;
    let mut r = 0;
    while r < part.len() {
        let block = &part[r];
        asked.extend(block.iter().map(|i| built.cps[*i]));
        let sd = SubsetDefinition::codepoints(asked.iter().copied().collect());
        // expected group of this round: the block's patches, in URI order within each mapping table
        let mut order: Vec<usize> = block.clone();
        order.sort_by(|a, b| (built.tables[*a] == IFTX, &built.uris[*a]).cmp(&(built.tables[*b] == IFTX, &built.uris[*b])));
        let step = guard(|| {
            let fr = FontRef::new(&font).map_err(|e| format!("font: {e}"))?;
            let group = PatchGroup::select_next_patches(fr, &sd).map_err(|e| format!("select: {e}"))?;
            let uris: Vec<String> = group.uris().map(|s| s.to_string()).collect();
            Ok::<_, String>((group, uris))
        });
        let (group, uris) = match step {
            Err(p) => {
                ctx.run.violation(
                    &format!("select_next_patches panics: {} at {}", p.kind(), p.site()),
                    &p.message,
                    case(),
                );
                return Outcome::none();
            }
            Ok(Err(e)) => {
                ctx.run.violation(
                    &format!("select_next_patches fails on a harness font: {}", sc_sig(sc)),
                    &e,
                    case(),
                );
                return Outcome::none();
            }
            Ok(Ok(x)) => x,
        };
        let want_uris: Vec<String> = order.iter().map(|i| built.uris[*i].clone()).collect();
        if uris != want_uris {
            ctx.run.violation(
                &format!("select_next_patches does not offer exactly the un-applied patches of the request: {}", sc_sig(sc)),
                &format!("round {r}: got {:?} want {:?}", uris, want_uris),
                case(),
            );
            return Outcome::none();
        }
        // the client fetches what it does not have yet
        for i in block {
            map.insert(built.uris[*i].clone(), UriStatus::Pending(patch_bytes(sc, *i)));
        }
        let before = snapshot(&map);
        let calls_before = decoder.calls.get();
        let hit_before = decoder.fault_hit.get();
        let res = guard(|| group.apply_next_patches_with_decoder(&mut map, &decoder));
        local.applies += 1;
        let after = snapshot(&map);
        let fault_now = decoder.fault_hit.get() && !hit_before;
        let fault_kind = fault.map(|f| f.1);
        // reference for this round
        let ps: Vec<&GkPatch> = order.iter().map(|i| &sc.patches[*i]).collect();
        let bits: Vec<(TagB, usize)> = order.iter().map(|i| (built.tables[*i], built.bits[*i])).collect();
        let pt: Vec<TagB> = order.iter().map(|i| built.tables[*i]).collect();
        let mut next_ref = reference.clone();
        let want = ref_apply_gk(&mut next_ref, &ps, &bits, &compat, &pt);
        let res = match res {
            Err(p) => {
                ctx.run.violation(
                    &format!("apply_next_patches_with_decoder panics: {} at {}", p.kind(), p.site()),
                    &format!("{} ({}:{})", p.message, p.file, p.line),
                    case(),
                );
                return Outcome::none();
            }
            Ok(r) => r,
        };
        if fault_now {
            local.faults_injected += 1;
        }
        match (&res, fault_now, fault_kind) {
            (Ok(_), true, Some(k)) if k != FaultKind::Oversize => {
                ctx.run.violation(
                    &format!("decoder failure {:?} does not produce an error: {}", k, sc_sig(sc)),
                    &format!("round {r}: decoder failed at call {} but the result is Ok", fault.unwrap().0),
                    case(),
                );
                return Outcome::none();
            }
            _ => {}
        }
        match res {
            Err(e) => {
                if before != after {
                    ctx.run.violation(
                        &format!(
                            "UriStatus map modified although the call failed ({}): {}",
                            err_class(&e),
                            sc_sig(sc)
                        ),
                        &format!("round {r}: error {e:?}; before={} entries, after differs: {:?}", before.len(),
                                 after.iter().map(|(k, v)| (k.clone(), v.is_some())).collect::<Vec<_>>()),
                        case(),
                    );
                    return Outcome::none();
                }
                h.str("err");
                h.str(&err_class(&e));
                if fault_now {
                    if fault_kind == Some(FaultKind::Oversize) {
                        local.oversize_err += 1;
                    }
                    // failure leaves nothing behind: retry the same round with the (now past its fault) decoder
                    if !retried {
                        retried = true;
                        asked.truncate(asked.len() - block.len());
                        continue;
                    }
                }
                if want.is_ok() {
                    let gvar_empty = next_ref.gvar.as_ref().map(|t| t.slices.iter().all(|s| s.is_empty())).unwrap_or(false)
                        && ps.iter().any(|p| p.tables.contains(&GVAR));
                    if gvar_empty && matches!(e, PatchingError::SerializationError(_)) {
                        // one defect class, independent of base kind / mapping
                        ctx.run.violation(
                            "glyph keyed apply fails (SerializationError) when the patched gvar has no glyph variation data at all",
                            &format!("{}: round {r}: {e:?}", sc_sig(sc)),
                            case(),
                        );
                    } else {
                        ctx.run.violation(
                            &format!("apply fails ({}) where the reference applies: {}", err_class(&e), sc_sig(sc)),
                            &format!("round {r}: {e:?}"),
                            case(),
                        );
                    }
                } else {
                    local.expected_err_runs += 1;
                }
                all_ok = false;
                let _ = calls_before;
                break;
            }
            Ok(new_font) => {
                if fault_now && fault_kind == Some(FaultKind::Oversize) {
                    // a misbehaving decoder: only totality and bookkeeping are judged, not the content
                    local.oversize_ok += 1;
                    h.str("oversize-ok");
                    let ok = order.iter().all(|i| after.iter().any(|(k, v)| k == &built.uris[*i] && v.is_none()));
                    if !ok {
                        ctx.run.violation(
                            &format!("UriStatus map not updated after a successful call: {}", sc_sig(sc)),
                            "oversize decoder output accepted but URIs not marked applied",
                            case(),
                        );
                    }
                    all_ok = false;
                    break;
                }
                if let Err(re) = &want {
                    ctx.run.violation(
                        &format!("apply succeeds where the reference expects an error ({re:?}): {}", sc_sig(sc)),
                        &format!("round {r}"),
                        case(),
                    );
                    return Outcome::none();
                }
                // exactly the applied URIs flipped
                let mut exp = before.clone();
                for (k, v) in exp.iter_mut() {
                    if order.iter().any(|i| &built.uris[*i] == k) {
                        *v = None;
                    }
                }
                if exp != after {
                    ctx.run.violation(
                        &format!("UriStatus map after success is not 'exactly the applied URIs flipped': {}", sc_sig(sc)),
                        &format!("round {r}: after={:?}", after.iter().map(|(k, v)| (k.clone(), v.is_some())).collect::<Vec<_>>()),
                        case(),
                    );
                    return Outcome::none();
                }
                if let Err((class, detail)) = compare(&new_font, &next_ref) {
                    ctx.run.violation(
                        &format!("glyph keyed result: {class}: {}", sc_sig(sc)),
                        &format!("round {r} (patches {:?}): {detail}", order),
                        case(),
                    );
                    return Outcome::none();
                }
                if widths(&reference) != widths(&next_ref) {
                    widened = true;
                }
                reference = next_ref;
                font = new_font;
                any_applied = true;
                h.str("ok");
                h.u64(order.len() as u64);
            }
        }
        r += 1;
    }
    // widening / kind part of the digest
    if let Some(t) = &reference.gvar {
        h.u64(t.long as u64);
    }
    if let Some(t) = reference.cff.as_ref().or(reference.cff2.as_ref()) {
        h.u64(t.off_size as u64);
    }
    let mut gids: Vec<u32> = sc.patches.iter().flat_map(|p| p.gids.iter().copied()).collect();
    gids.sort();
    gids.dedup();
    for g in gids {
        h.u64(g as u64);
    }
    let dg = h.finish();
    local.all.insert(dg);
    if any_applied {
        local.nontrivial.insert(dg);
    }
    Outcome {
        final_tables: if all_ok { table_map(&font).ok() } else { None },
        final_ref: if all_ok { Some(reference) } else { None },
        widened,
    }
}

fn tape_choices(perm_i: usize, part_i: usize, fault_c: u32, mapping: Mapping) -> Vec<u32> {
    let mut v = vec![];
    if mapping != Mapping::F1 {
        v.push(perm_i as u32);
    }
    v.push(part_i as u32);
    if perm_i == 0 {
        v.push(fault_c);
    }
    v
}

pub fn err_class(e: &PatchingError) -> String {
    match e {
        PatchingError::PatchParsingFailed(_) => "PatchParsingFailed".into(),
        PatchingError::FontParsingFailed(_) => "FontParsingFailed".into(),
        PatchingError::SerializationError(_) => "SerializationError".into(),
        PatchingError::IncompatiblePatch => "IncompatiblePatch".into(),
        PatchingError::NonIncrementalFont => "NonIncrementalFont".into(),
        PatchingError::InvalidPatch(m) => format!("InvalidPatch({m})"),
        PatchingError::EmptyPatchList => "EmptyPatchList".into(),
        PatchingError::InternalError => "InternalError".into(),
        PatchingError::MissingPatches => "MissingPatches".into(),
    }
}

/// Explore every (id permutation, ordered partition, fault) of one scenario; all fault-free complete
/// runs must end in identical tables.
pub fn explore_scenario(ctx: &Ctx, sc: &Scenario, local: &mut Local) {
    let n = sc.patches.len();
    let perms = permutations(n);
    let parts = ordered_partitions(n);
    let mut finals: Vec<(Vec<u32>, BTreeMap<TagB, Vec<u8>>, RefFont, bool)> = vec![];
    let agreeing = patches_agree(&sc.patches);
    let r = explore_full(u64::MAX, |tape| {
        let out = execute(ctx, sc, tape, &perms, &parts, local);
        if let (Some(t), Some(rf)) = (out.final_tables, out.final_ref) {
            finals.push((tape.choices.clone(), t, rf, out.widened));
        }
        true
    });
    if let Err(d) = r {
        ctx.run.machinery_error(&format!("tape divergence in C18 gk: {}", d.0));
    }
    if agreeing && finals.len() > 1 {
        // the mapping tables hold the ids (which differ between id permutations): they are compared
        // between runs of the same permutation only; every other table between all runs
        let perm_of = |tp: &Vec<u32>| if sc.mapping == Mapping::F1 { 0 } else { tp[0] };
        for (tp, t, rf, widened) in &finals[1..] {
            let same_perm = finals.iter().find(|x| perm_of(&x.0) == perm_of(tp)).unwrap();
            let differs = |a: &BTreeMap<TagB, Vec<u8>>, b: &BTreeMap<TagB, Vec<u8>>, mapping: bool| {
                a.keys().chain(b.keys()).any(|k| ((*k == IFT || *k == IFTX) == mapping) && a.get(k) != b.get(k))
            };
            if differs(t, &finals[0].1, false) || differs(t, &same_perm.1, true) {
                let diff: Vec<String> = t
                    .iter()
                    .filter(|(k, v)| {
                        let other = if **k == IFT || **k == IFTX { &same_perm.1 } else { &finals[0].1 };
                        other.get(*k) != Some(v)
                    })
                    .map(|(k, _)| tag_str(k))
                    .collect();
                let only_width = (*widened || finals[0].3)
                    && logically_equal(rf, &finals[0].2)
                    && !differs(t, &same_perm.1, true)
                    && diff.iter().all(|d| ["glyf", "loca", "gvar", "CFF ", "CFF2"].contains(&d.as_str()));
                let identity = if only_width {
                    local.width_dependent += 1;
                    format!(
                        "grouping of agreeing glyph keyed patches changes table bytes across an offset widening (pad bytes of the short phase kept / width never narrowed): {:?}",
                        sc.base.kind
                    )
                } else {
                    format!("order/grouping of agreeing glyph keyed patches changes the result: {}", sc_sig(sc))
                };
                ctx.run.violation(
                    &identity,
                    &format!("tapes {:?} and {:?} differ in tables {:?}", finals[0].0, tp, diff),
                    json!({"kind":"gk","scenario": sc, "tape": tp, "tape2": finals[0].0}),
                );
                break;
            }
        }
    }
}

fn patches_agree(ps: &[GkPatch]) -> bool {
    let mut seen: HashMap<(TagB, u32), &Vec<u8>> = HashMap::new();
    for p in ps {
        for (ti, t) in p.tables.iter().enumerate() {
            for (gi, g) in p.gids.iter().enumerate() {
                if let Some(prev) = seen.insert((*t, *g), &p.data[ti][gi]) {
                    if prev != &p.data[ti][gi] {
                        return false;
                    }
                }
            }
        }
    }
    true
}

// ---------------------------------------------------------------------------
// alphabets
// ---------------------------------------------------------------------------

/// new data of glyph g in table `tag` under length pattern `world`
pub fn world_data(world: usize, tag: &TagB, g: u32) -> Vec<u8> {
    const LENS: [usize; 4] = [0, 1, 2, 7];
    let len = match world {
        0 => LENS[(g as usize) % 4],
        1 => LENS[(g as usize + 1) % 4],
        2 => LENS[(g as usize * 3 + 2) % 4],
        3 => 7,
        4 => 0,
        _ => 1,
    };
    let t = tag[3].wrapping_add(tag[0]);
    (0..len).map(|i| 0x40 ^ t ^ ((g as u8) << 3) ^ i as u8).collect()
}

pub fn gk_patch(world: usize, gids: &[u32], tables: &[TagB], wide: bool, compat: [u32; 4]) -> GkPatch {
    let mut tables = tables.to_vec();
    tables.sort();
    GkPatch {
        compat,
        wide,
        gids: gids.to_vec(),
        data: tables
            .iter()
            .map(|t| gids.iter().map(|g| world_data(world, t, *g)).collect())
            .collect(),
        tables,
    }
}

/// all non-empty subsets of {0..6} with at most 3 members, ascending
pub fn gid_sets() -> Vec<Vec<u32>> {
    let mut out = vec![];
    for mask in 1u32..64 {
        if mask.count_ones() <= 3 {
            out.push((0..6).filter(|g| mask & (1 << g) != 0).collect());
        }
    }
    out
}

pub fn base_specs() -> Vec<BaseSpec> {
    let even = vec![4usize, 2, 0, 6, 2, 4];
    let any = vec![3usize, 1, 0, 5, 2, 4];
    let mk = |kind, lens: &Vec<usize>, off_size| BaseSpec {
        kind,
        lens: lens.clone(),
        off_size,
        gvar_tuples_last: false,
                    gvar_no_tuples: false,
    };
    vec![
        mk(BaseKind::GlyfShort, &even, 0),
        mk(BaseKind::GlyfLong, &any, 0),
        mk(BaseKind::GvarShort, &even, 0),
        mk(BaseKind::GvarLong, &any, 0),
        mk(BaseKind::GlyfGvar, &even, 0),
        mk(BaseKind::Cff, &any, 1),
        mk(BaseKind::Cff2, &any, 2),
    ]
}

pub fn tables_for(kind: BaseKind) -> Vec<Vec<TagB>> {
    match kind {
        BaseKind::GlyfShort | BaseKind::GlyfLong => vec![vec![GLYF], vec![GLYF, ZZZZ]],
        BaseKind::GvarShort | BaseKind::GvarLong => vec![vec![GVAR]],
        BaseKind::GlyfGvar => vec![vec![GLYF, GVAR], vec![GVAR], vec![GLYF]],
        BaseKind::Cff => vec![vec![CFF]],
        BaseKind::Cff2 => vec![vec![CFF2, ZZZZ]],
    }
}

fn compat_of(mapping: Mapping, i: usize) -> [u32; 4] {
    if mapping == Mapping::Split && i % 2 == 1 {
        COMPAT_IFTX
    } else {
        COMPAT_IFT
    }
}

// ---------------------------------------------------------------------------
// body
// ---------------------------------------------------------------------------

fn body(run: &Run, replay: Option<&Value>) {
    run.rule("a case is one tape: (base font kind, glyph-data world, patch set, id permutation = order inside a call, ordered partition into calls, decoder fault (call k, kind)) or one table-keyed patch x compat x fault; distinct = digest of (base kind, mapping kind, patched gid set, tables, widening outcome, fault position/kind, per round outcome); non-trivial = at least one patch was applied and its result compared with the reference");
    run.assume("reference patch semantics (harness): per table the first patch in application order that lists a glyph supplies its data, other glyphs keep their stored bytes; data is zero padded to even length while the offsets are short (divided by two); gvar switches to long offsets and CFF/CFF2 to the next sufficient offSize exactly when the new total exceeds the current maximum (0x1FFFE; 2^(8*offSize)-2); glyf/loca never changes width: the code documents that as unsupported and an error is accepted there");
    run.assume("head.checkSumAdjustment (bytes 8..12) is rewritten by write-fonts' FontBuilder and excluded from 'byte-identical'");
    run.assume("decoders are harness pass-through implementations of SharedBrotliDecoder (uncompressed bodies); real brotli streams are covered only by the repository's fixtures");
    run.assume("read-fonts FontRef is trusted to list the tables of a result font; offset arrays (loca, gvar, CFF INDEX) are re-parsed by harness code");
    let ctx = Ctx {
        run,
        sink: Mutex::new(Local::default()),
    };
    if let Some(case) = replay {
        replay_case(&ctx, case);
        return;
    }
    match brotli::gate() {
        brotli::Gate::Ok(n) => run.count("brotli_streams_decoded_by_the_real_decoder_in_the_gate", n),
        brotli::Gate::FixtureFails(e) => run.violation(
            "BuiltInBrotliDecoder does not decode the repository's own brotli fixtures (with / without shared dictionary)",
            &e,
            json!({"kind":"brotli-fixture"}),
        ),
        brotli::Gate::HandMadeFails(e) => {
            run.machinery_error(&format!("gate: hand-made brotli streams are not what the real decoder expects: {e}"));
            return;
        }
    }
    if std::env::var("C18_GATE_ONLY").is_ok() {
        return;
    }
    let mut walls: Vec<(String, f64)> = vec![];
    let mut timed = |name: &str, f: &dyn Fn(&Ctx)| {
        let t0 = std::time::Instant::now();
        f(&ctx);
        walls.push((name.to_string(), (t0.elapsed().as_secs_f64() * 10.0).round() / 10.0));
    };
    // development aid: C18_ONLY_AUDIT=1 runs only the audit families (never set by ./check)
    let only_audit = std::env::var("C18_ONLY_AUDIT").is_ok();
    let skip = |_: &Ctx| {};
    macro_rules! old {
        ($f:expr) => {
            if only_audit { &skip as &dyn Fn(&Ctx) } else { &$f as &dyn Fn(&Ctx) }
        };
    }
    timed("gk", old!(space_gk));
    timed("wide", old!(space_wide));
    timed("misc", old!(space_misc));
    timed("tk", old!(space_tk));
    timed("tk_extra", old!(space_tk_extra));
    timed("tk_chain", old!(space_tk_chain));
    timed("real", old!(space_real));
    timed("corrupt", old!(space_corrupt));
    timed("declared", old!(space_declared));
    timed("gid_pages", old!(space_gid_pages));
    timed("unsorted", old!(space_unsorted));
    // audit families (round 12 coverage-gap audit, see AUDIT.md)
    timed("cff_jump", &audit::space_cff_jump);
    timed("gvar_variants", &audit::space_gvar_variants);
    timed("mixed_groups", &audit::space_mixed);
    timed("tk_flags", &audit::space_tk_flags);
    timed("gid_lists", &audit::space_gid_lists);
    timed("f1_bits", &audit::space_f1_bits);
    timed("rust_decoder", &audit::space_rust_decoder);
    timed("entry_points", &audit::space_entry_points);
    // round 13: malformed offset arrays in the base font (src/unordered.rs)
    timed("unordered_offsets", &unordered::space_unordered);
    if run.tier == Tier::Thorough {
        timed("four", old!(space_four));
    }
    run.extra("wall_s_per_space", json!(walls));
    let l = std::mem::take(&mut *ctx.sink.lock().unwrap());
    run.evals(l.evals);
    run.trans(l.applies);
    run.observe_many(&l.all, &l.nontrivial);
    run.count("apply_calls", l.applies);
    run.count("decoder_faults_injected", l.faults_injected);
    run.count("oversize_decoder_output_accepted_ok", l.oversize_ok);
    run.count("oversize_decoder_output_rejected_err", l.oversize_err);
    run.count("runs_ending_in_an_error_the_reference_expects", l.expected_err_runs);
    run.count("scenarios_where_grouping_changes_bytes_only_through_widening", l.width_dependent);
}

fn replay_case(ctx: &Ctx, case: &Value) {
    let kind = case["kind"].as_str().unwrap_or("");
    let mut l = Local::default();
    match kind {
        "gk" => {
            let sc: Scenario = serde_json::from_value(case["scenario"].clone()).expect("scenario");
            let n = sc.patches.len();
            let perms = permutations(n);
            let parts = ordered_partitions(n);
            for key in ["tape", "tape2"] {
                if let Some(t) = case[key].as_array() {
                    let prefix: Vec<u32> = t.iter().map(|v| v.as_u64().unwrap() as u32).collect();
                    let mut tape = Tape::new(&prefix);
                    execute(ctx, &sc, &mut tape, &perms, &parts, &mut l);
                }
            }
            // order independence needs the whole scenario
            if case.get("tape2").is_some() {
                explore_scenario(ctx, &sc, &mut l);
            }
        }
        "tk" => {
            let tc: TkCase = serde_json::from_value(case["tk"].clone()).expect("tk");
            run_tk(ctx, &tc, &mut l);
        }
        "misc" => {
            space_misc(ctx);
        }
        "tk-chain" => space_tk_chain(ctx),
        "decl" => {
            let dc: DeclCase = serde_json::from_value(case["decl"].clone()).expect("decl");
            run_decl(ctx, &dc, &mut l);
        }
        "corrupt" => space_corrupt(ctx),
        "mixed" => audit::replay_mixed(ctx, case, &mut l),
        "rust-decoder" => audit::space_rust_decoder(ctx),
        "entry-points" => audit::space_entry_points(ctx),
        "unordered" => unordered::space_unordered(ctx),
        _ => println!("unknown replay kind {kind}"),
    }
}

fn space_gk(ctx: &Ctx) {
    let run = ctx.run;
    let thorough = run.tier == Tier::Thorough;
    let sets = gid_sets();
    run.bound("gid_sets", json!(sets.len()));
    let specs = base_specs();
    run.bound("base_kinds", json!(specs.iter().map(|s| format!("{:?}", s.kind)).collect::<Vec<_>>()));
    let worlds: Vec<usize> = if thorough { vec![0, 1, 2, 3, 4, 5] } else { vec![0, 2, 4] };
    run.bound("glyph_data_worlds", json!(worlds.len()));
    run.bound("glyph_data_lengths", json!([0, 1, 2, 7]));
    // triples come from a sub-alphabet of gid sets
    let tri_sets: Vec<Vec<u32>> = vec![
        vec![0], vec![2], vec![5], vec![0, 1], vec![1, 2], vec![2, 5], vec![0, 5], vec![0, 1, 2], vec![1, 3, 5], vec![3, 4, 5],
    ];
    let mut scenarios: Vec<Scenario> = vec![];
    for spec in &specs {
        for (tli, tables) in tables_for(spec.kind).iter().enumerate() {
            for &world in &worlds {
                for mapping in [Mapping::F2, Mapping::F1, Mapping::Split] {
                    // singles: every gid set, u16 and u24 gids
                    for s in &sets {
                        for wide in [false, true] {
                            if mapping != Mapping::F2 && (wide || tli > 0) {
                                continue;
                            }
                            scenarios.push(Scenario {
                                base: spec.clone(),
                                mapping,
                                patches: vec![gk_patch(world, s, tables, wide, COMPAT_IFT)],
                                note: "single".into(), real_brotli: false
                            });
                        }
                    }
                    if tli > 0 && !thorough {
                        continue;
                    }
                    // pairs (unordered, including a set with itself): order comes from the id permutation
                    let pair_sets: &Vec<Vec<u32>> = if thorough || mapping == Mapping::F2 { &sets } else { &tri_sets };
                    for (i, a) in pair_sets.iter().enumerate() {
                        for b in &pair_sets[i..] {
                            if !thorough && world != 0 && !a.iter().any(|g| b.contains(g)) && a.len() + b.len() > 3 {
                                continue;
                            }
                            scenarios.push(Scenario {
                                base: spec.clone(),
                                mapping,
                                patches: vec![
                                    gk_patch(world, a, tables, false, compat_of(mapping, 0)),
                                    gk_patch(world, b, tables, true, compat_of(mapping, 1)),
                                ],
                                note: "pair".into(), real_brotli: false
                            });
                        }
                    }
                    // triples
                    if !thorough && (world != 0 || mapping == Mapping::F1) {
                        continue;
                    }
                    for i in 0..tri_sets.len() {
                        for j in i + 1..tri_sets.len() {
                            for k in j + 1..tri_sets.len() {
                                // second patch of a triple lists only the first table (mixed table lists)
                                let t2: Vec<TagB> = vec![tables[0]];
                                scenarios.push(Scenario {
                                    base: spec.clone(),
                                    mapping,
                                    patches: vec![
                                        gk_patch(world, &tri_sets[i], tables, false, compat_of(mapping, 0)),
                                        gk_patch(world, &tri_sets[j], &t2, false, compat_of(mapping, 1)),
                                        gk_patch(world, &tri_sets[k], tables, true, compat_of(mapping, 2)),
                                    ],
                                    note: "triple".into(), real_brotli: false
                                });
                            }
                        }
                    }
                }
            }
        }
    }
    run.count("gk_scenarios", scenarios.len() as u64);
    for note in ["single", "pair", "triple"] {
        run.count(
            &format!("gk_scenarios_{note}"),
            scenarios.iter().filter(|s| s.note == note).count() as u64,
        );
    }
    run.bound("orders_per_triple", json!({"id_permutations": 6, "ordered_partitions": ordered_partitions(3).len()}));
    run.bound("fault_positions", json!("every decoder call 1..=n and n+1 (never reached), 6 DecodeError kinds + oversize output, for every ordered partition with the identity id assignment"));
    run.sample(json!({"space":"gk","scenario": scenarios[scenarios.len() / 2]}));
    run.sample(json!({"space":"gk","scenario": scenarios[3]}));
    let scenarios = &scenarios;
    par_for(scenarios.len(), |i| {
        let mut l = Local::default();
        explore_scenario(ctx, &scenarios[i], &mut l);
        ctx.merge(l);
    });
}

/// totals on both sides of the offset-width limits
fn space_wide(ctx: &Ctx) {
    let run = ctx.run;
    let mut scenarios = vec![];
    // short glyf / gvar: the last glyph is big; patching gid 0 (old stored length 4) with 0/1/2/7/8 bytes
    for kind in [BaseKind::GlyfShort, BaseKind::GvarShort, BaseKind::GvarLong, BaseKind::GlyfGvar] {
        for big in (LIMIT_SHORT - 34..=LIMIT_SHORT - 14).step_by(2) {
            for tuples_last in [false, true] {
                if tuples_last && !matches!(kind, BaseKind::GvarShort) {
                    continue;
                }
                let spec = BaseSpec {
                    kind,
                    lens: vec![4, 2, 0, 6, 2, big],
                    off_size: 0,
                    gvar_tuples_last: tuples_last,
                    gvar_no_tuples: false,
                };
                for tables in tables_for(kind).iter().take(1) {
                    for gids in [vec![0u32], vec![1, 2], vec![0, 3], vec![5], vec![0, 1, 2]] {
                        for world in [3usize, 0, 4] {
                            scenarios.push(Scenario {
                                base: spec.clone(),
                                mapping: Mapping::F2,
                                patches: vec![gk_patch(world, &gids, tables, false, COMPAT_IFT)],
                                note: "wide-single".into(), real_brotli: false
                            });
                        }
                    }
                    // two patches, together crossing the limit; both orders and both groupings
                    scenarios.push(Scenario {
                        base: spec.clone(),
                        mapping: Mapping::F2,
                        patches: vec![
                            gk_patch(3, &[1, 2], tables, false, COMPAT_IFT),
                            gk_patch(3, &[2, 4], tables, false, COMPAT_IFT),
                        ],
                        note: "wide-pair".into(), real_brotli: false
                    });
                }
            }
        }
    }
    // CFF / CFF2: offSize 1 limit (254) and offSize 2 limit (65534)
    for (kind, tag) in [(BaseKind::Cff, CFF), (BaseKind::Cff2, CFF2)] {
        for (off_size, limit) in [(1u8, 254usize), (2, 65534), (3, 300)] {
            for big in limit - 31..=limit - 11 {
                let spec = BaseSpec {
                    kind,
                    lens: vec![3, 1, 0, 5, 2, big],
                    off_size,
                    gvar_tuples_last: false,
                    gvar_no_tuples: false,
                };
                for gids in [vec![0u32], vec![1, 2], vec![0, 3], vec![5]] {
                    for world in [3usize, 0] {
                        scenarios.push(Scenario {
                            base: spec.clone(),
                            mapping: Mapping::F2,
                            patches: vec![gk_patch(world, &gids, &[tag], false, COMPAT_IFT)],
                            note: "wide-cff".into(), real_brotli: false
                        });
                    }
                }
            }
        }
    }
    // CFF / CFF2 offSize 3 -> 4 at 2^24 - 2 bytes of charstrings data (the last 1-based offset is then
    // exactly 0xFFFFFF). One 16 MiB glyph keeps these few cases cheap. Base totals are 11 + big.
    let limit3 = (1usize << 24) - 2;
    let thorough = run.tier == Tier::Thorough;
    let mut n_big = 0u64;
    for (kind, tag) in [(BaseKind::Cff, CFF), (BaseKind::Cff2, CFF2)] {
        // base total -> after the +4 patch (gid 0: 3 -> 7 bytes): limit-1, limit, limit+1, limit+2, limit+4
        let base_totals: Vec<usize> = if thorough {
            vec![limit3 - 5, limit3 - 4, limit3 - 3, limit3 - 2, limit3]
        } else {
            vec![limit3 - 4, limit3 - 3] // quick: exactly on the limit (offSize stays 3) and one byte above (must become 4)
        };
        for total in base_totals {
            let spec = BaseSpec {
                kind,
                lens: vec![3, 1, 0, 5, 2, total - 11],
                off_size: 3,
                gvar_tuples_last: false,
                    gvar_no_tuples: false,
            };
            // +4 bytes; unchanged total (gid 2 stays empty); shrink by one (gid 1: 1 -> 0 bytes)
            let mut patch_sets: Vec<Vec<GkPatch>> = vec![vec![gk_patch(3, &[0], &[tag], false, COMPAT_IFT)]];
            if thorough {
                patch_sets.push(vec![gk_patch(4, &[2], &[tag], false, COMPAT_IFT)]);
                patch_sets.push(vec![gk_patch(4, &[1], &[tag], false, COMPAT_IFT)]);
                // grouping: A alone lands on / crosses the boundary, B takes it back below
                patch_sets.push(vec![gk_patch(3, &[0], &[tag], false, COMPAT_IFT), gk_patch(4, &[3], &[tag], false, COMPAT_IFT)]);
            }
            for patches in patch_sets {
                n_big += 1;
                scenarios.push(Scenario {
                    base: spec.clone(),
                    mapping: Mapping::F2,
                    patches,
                    note: "wide-cff-16M".into(),
                    real_brotli: false,
                });
            }
        }
    }
    run.count("wide_scenarios_cff_offsize_3_to_4", n_big);
    run.count("wide_scenarios", scenarios.len() as u64);
    run.sample(json!({"space":"wide","base": scenarios[1].base, "gids": scenarios[1].patches[0].gids}));
    let scenarios = &scenarios;
    par_for(scenarios.len(), |i| {
        let mut l = Local::default();
        explore_scenario(ctx, &scenarios[i], &mut l);
        ctx.merge(l);
    });
}

/// hand-picked corner scenarios, each still fully explored over orders/groupings/faults
fn space_misc(ctx: &Ctx) {
    let mut l = Local::default();
    let specs = base_specs();
    let mut n = 0u64;
    for spec in &specs {
        let tables = &tables_for(spec.kind)[0];
        for mapping in [Mapping::F2, Mapping::Split] {
            // (1) compat id differs (per patch position)
            for bad in 0..2usize {
                let mut ps = vec![
                    gk_patch(0, &[0, 1], tables, false, compat_of(mapping, 0)),
                    gk_patch(0, &[1, 4], tables, false, compat_of(mapping, 1)),
                ];
                ps[bad].compat = [7, 7, 7, 7];
                let sc = Scenario { base: spec.clone(), mapping, patches: ps, note: "compat".into(), real_brotli: false };
                explore_scenario(ctx, &sc, &mut l);
                check_no_decode_on_incompatible(ctx, &sc, &mut l);
                n += 1;
            }
            // (2) disagreeing patches: documented first-applied-wins
            let mut ps = vec![
                gk_patch(0, &[1, 2], tables, false, compat_of(mapping, 0)),
                gk_patch(3, &[2, 3], tables, false, compat_of(mapping, 1)),
                gk_patch(5, &[1, 2, 3], tables, false, compat_of(mapping, 2)),
            ];
            ps.truncate(if mapping == Mapping::F2 { 3 } else { 2 });
            let sc = Scenario { base: spec.clone(), mapping, patches: ps, note: "disagree".into(), real_brotli: false };
            explore_scenario(ctx, &sc, &mut l);
            check_missing_patch_data(ctx, &sc, &mut l);
            n += 1;
            // (3) gid beyond the font
            let sc = Scenario {
                base: spec.clone(),
                mapping,
                patches: vec![
                    gk_patch(0, &[0], tables, false, compat_of(mapping, 0)),
                    gk_patch(0, &[2, 6], tables, true, compat_of(mapping, 1)),
                ],
                note: "gid-beyond".into(), real_brotli: false
            };
            explore_scenario(ctx, &sc, &mut l);
            n += 1;
            // (4) patch for a table the font does not have / only unknown tables / no glyphs
            let other = if tables.contains(&GVAR) { CFF } else { GVAR };
            let sc = Scenario {
                base: spec.clone(),
                mapping,
                patches: vec![
                    gk_patch(0, &[0], tables, false, compat_of(mapping, 0)),
                    gk_patch(0, &[1], &[other], false, compat_of(mapping, 1)),
                ],
                note: "missing-table".into(), real_brotli: false
            };
            explore_scenario(ctx, &sc, &mut l);
            let sc = Scenario {
                base: spec.clone(),
                mapping,
                patches: vec![
                    gk_patch(0, &[0, 1], &[ZZZZ], false, compat_of(mapping, 0)),
                    gk_patch(0, &[], tables, false, compat_of(mapping, 1)),
                ],
                note: "unknown-table-and-empty".into(), real_brotli: false
            };
            explore_scenario(ctx, &sc, &mut l);
            n += 2;
        }
    }
    ctx.run.count("misc_scenarios", n);
    ctx.merge(l);
}

/// a group whose patch data has not all been supplied: error, bookkeeping untouched, nothing decoded
fn check_missing_patch_data(ctx: &Ctx, sc: &Scenario, l: &mut Local) {
    use incremental_font_transfer::patchmap::SubsetDefinition;
    let n = sc.patches.len();
    let ids: Vec<u32> = (1..=n as u32).collect();
    let built = build_scenario(sc, &ids);
    let sd = SubsetDefinition::codepoints(built.cps.iter().copied().collect());
    for absent in 0..n {
        let decoder = Decoder::new(None);
        let mut map: HashMap<String, UriStatus> = HashMap::new();
        for i in 0..n {
            if i != absent {
                map.insert(built.uris[i].clone(), UriStatus::Pending(patch_bytes(sc, i)));
            }
        }
        let before = snapshot(&map);
        let r = guard(|| {
            let fr = FontRef::new(&built.font).unwrap();
            let g = PatchGroup::select_next_patches(fr, &sd).unwrap();
            g.apply_next_patches_with_decoder(&mut map, &decoder)
        });
        l.applies += 1;
        l.evals += 1;
        let case = json!({"kind":"misc","scenario": sc, "absent": absent});
        match r {
            Ok(Err(_)) => {
                if snapshot(&map) != before || decoder.calls.get() != 0 {
                    ctx.run.violation(
                        &format!("UriStatus map modified or decoder run although patch data is missing: {}", sc_sig(sc)),
                        &format!("decode calls {}", decoder.calls.get()),
                        case,
                    );
                }
                l.all.insert(digest_of(&("missing", absent, sc_sig(sc))));
            }
            Ok(Ok(_)) => ctx.run.violation(
                &format!("group applied although the data of one of its patches was never supplied: {}", sc_sig(sc)),
                "result Ok",
                case,
            ),
            Err(p) => ctx.run.violation(
                &format!("apply_next_patches_with_decoder panics: {} at {}", p.kind(), p.site()),
                &p.message,
                case,
            ),
        }
    }
}

/// mechanism named by the property: compatibility ids are verified before any decoding
fn check_no_decode_on_incompatible(ctx: &Ctx, sc: &Scenario, l: &mut Local) {
    use incremental_font_transfer::patchmap::SubsetDefinition;
    let n = sc.patches.len();
    let ids: Vec<u32> = (1..=n as u32).collect();
    let built = build_scenario(sc, &ids);
    let sd = SubsetDefinition::codepoints(built.cps.iter().copied().collect());
    let decoder = Decoder::new(None);
    let mut map: HashMap<String, UriStatus> = HashMap::new();
    for i in 0..n {
        map.insert(built.uris[i].clone(), UriStatus::Pending(patch_bytes(sc, i)));
    }
    let before = snapshot(&map);
    let r = guard(|| {
        let fr = FontRef::new(&built.font).unwrap();
        let g = PatchGroup::select_next_patches(fr, &sd).unwrap();
        g.apply_next_patches_with_decoder(&mut map, &decoder)
    });
    l.applies += 1;
    l.evals += 1;
    let case = json!({"kind":"misc","scenario": sc});
    match r {
        Ok(Err(PatchingError::IncompatiblePatch)) => {
            if decoder.calls.get() != 0 {
                ctx.run.violation(
                    &format!("decoder invoked before every compatibility id was verified: {}", sc_sig(sc)),
                    &format!("{} decode calls before IncompatiblePatch", decoder.calls.get()),
                    case.clone(),
                );
            }
        }
        Ok(Err(e)) => {
            if decoder.calls.get() != 0 {
                ctx.run.violation(
                    &format!("decoder invoked before every compatibility id was verified: {}", sc_sig(sc)),
                    &format!("{} decode calls, error {e:?}", decoder.calls.get()),
                    case.clone(),
                );
            }
        }
        Ok(Ok(_)) => ctx.run.violation(
            &format!("patch with a different compatibility id is applied: {}", sc_sig(sc)),
            "result Ok",
            case.clone(),
        ),
        Err(p) => ctx.run.violation(
            &format!("apply_next_patches_with_decoder panics: {} at {}", p.kind(), p.site()),
            &p.message,
            case.clone(),
        ),
    }
    if snapshot(&map) != before {
        ctx.run.violation(
            &format!("UriStatus map modified although the call failed (IncompatiblePatch): {}", sc_sig(sc)),
            "map differs",
            case,
        );
    }
}

// ---------------------------------------------------------------------------
// table keyed patches
// ---------------------------------------------------------------------------

#[derive(Clone, Debug, Serialize, Deserialize)]
pub struct TkCase {
    /// (tag, op: 0 replace / 1 diff / 2 drop)
    pub ops: Vec<(TagB, u8)>,
    /// mapping entry format: 1 full invalidation, 2 partial
    pub format: u8,
    pub compat_equal: bool,
    pub fault: Option<(u32, FaultKind)>,
    /// mapping table tag the entry lives in
    pub in_iftx: bool,
    /// real brotli streams (stored blocks; diffs copy the tail of the base table out of the shared dictionary)
    #[serde(default)]
    pub real: bool,
    /// real only: max_uncompressed_length = exact output length + max_delta
    #[serde(default)]
    pub max_delta: i32,
}

fn tk_base(in_iftx: bool, format: u8) -> (Vec<u8>, BTreeMap<TagB, Vec<u8>>, String) {
    let mut e = E2::plain();
    e.cps = Cps::Set { bias_kind: 0, bias: 0, members: vec![0x41] };
    let t = T2 {
        compat: if in_iftx { COMPAT_IFTX } else { COMPAT_IFT },
        default_format: format,
        template: b"t/{id}".to_vec(),
        entries: vec![e],
        string_data: None,
        cff_off: None,
        cff2_off: None,
    };
    let mut tables: BTreeMap<TagB, Vec<u8>> = BTreeMap::new();
    tables.insert(if in_iftx { IFTX } else { IFT }, encode_t2(&t).bytes);
    tables.insert(*b"tab1", b"abcdef\n".to_vec());
    tables.insert(*b"tab2", b"foobar\n".to_vec());
    tables.insert(*b"tab3", vec![]);
    tables.insert(*b"tab4", b"untouched".to_vec());
    let mut b = write_fonts::FontBuilder::new();
    for (t, d) in &tables {
        b.add_raw(Tag::new(t), d.clone());
    }
    (b.build(), tables, expand_uri(&t.template, &Id::Num(1)))
}

const TK_TAGS: [TagB; 5] = [*b"tab1", *b"tab2", *b"tab3", *b"tab9", *b"IFT "];

fn run_tk(ctx: &Ctx, tc: &TkCase, l: &mut Local) {
    use incremental_font_transfer::patchmap::SubsetDefinition;
    let (font, base_tables, uri) = tk_base(tc.in_iftx, tc.format);
    let compat = if tc.in_iftx { COMPAT_IFTX } else { COMPAT_IFT };
    let patch_compat = if tc.compat_equal { compat } else { [4, 3, 2, 1] };
    let mut ops = vec![];
    let mut lens: Vec<u32> = vec![];
    let mut want = base_tables.clone();
    let mut want_err = !tc.compat_equal;
    let mut seen: Vec<TagB> = vec![];
    let mut stopped = false; // the reference stops at the first failing op
    for (i, (tag, op)) in tc.ops.iter().enumerate() {
        let payload: Vec<u8> = format!("new-{}-{}", tag_str(tag), i).into_bytes();
        // a tag listed again is ignored (first entry wins); it is still encoded into the patch
        let dup = seen.contains(tag);
        seen.push(*tag);
        let live = !dup && !stopped;
        match op {
            0 => {
                let stream = if tc.real { brotli::stored(&payload, 16, 1 << 16) } else { payload.clone() };
                lens.push((payload.len() as i64 + if tc.real { tc.max_delta as i64 } else { 64 }).max(0) as u32);
                ops.push((*tag, TableOp::Replace(stream)));
                if live {
                    if tc.real && tc.max_delta < 0 {
                        want_err = true;
                        stopped = true;
                    } else {
                        want.insert(*tag, payload);
                    }
                }
            }
            1 => {
                let base = base_tables.get(tag);
                let (stream, out): (Vec<u8>, Vec<u8>) = if tc.real {
                    match base {
                        Some(b) if b.len() >= 2 => {
                            // copy the last c bytes of the base table out of the shared dictionary, then the payload
                            let c = b.len().min(7);
                            let mut out = b[b.len() - c..].to_vec();
                            out.extend_from_slice(&payload);
                            (brotli::dict_copy_then_stored(c, c as u32, &payload, 16), out)
                        }
                        _ => (brotli::stored(&payload, 16, 1 << 16), payload.clone()),
                    }
                } else {
                    let mut out = base.cloned().unwrap_or_default();
                    out.push(0xDD);
                    out.extend_from_slice(&payload);
                    (payload.clone(), out)
                };
                lens.push((out.len() as i64 + if tc.real { tc.max_delta as i64 } else { 64 }).max(0) as u32);
                ops.push((*tag, TableOp::Diff(stream)));
                if live {
                    if base.is_none() || (tc.real && tc.max_delta < 0) {
                        want_err = true;
                        stopped = true;
                    } else {
                        want.insert(*tag, out);
                    }
                }
            }
            3 | 4 => {
                // 3: DROP_TABLE | REPLACE_TABLE with a stream; 4: DROP_TABLE with a stream. The drop flag
                // decides: the table is removed and the stream is never decoded.
                lens.push(payload.len() as u32 + 64);
                ops.push((*tag, TableOp::Raw(if *op == 3 { 3 } else { 2 }, payload.clone())));
                if live {
                    want.remove(tag);
                }
            }
            _ => {
                lens.push(0);
                ops.push((*tag, TableOp::Drop));
                if live {
                    want.remove(tag);
                }
            }
        }
    }
    let patch = table_keyed_patch_lens(patch_compat, &ops, &lens);
    let case = json!({"kind":"tk","tk": tc});
    let sig = format!(
        "format={} in_iftx={} ops={}",
        tc.format,
        tc.in_iftx,
        tc.ops.iter().map(|(t, o)| format!("{}:{}", tag_str(t).trim(), ["replace", "diff", "drop", "drop+replace", "drop+stream"][*o as usize])).collect::<Vec<_>>().join(",")
    );
    let decoder = if tc.real { Decoder::real(tc.fault) } else { Decoder::new(tc.fault) };
    let mut map: HashMap<String, UriStatus> = HashMap::new();
    map.insert(uri.clone(), UriStatus::Pending(patch));
    map.insert("unrelated".into(), UriStatus::Pending(vec![9]));
    let before = snapshot(&map);
    let sd = SubsetDefinition::codepoints([0x41u32].into_iter().collect());
    let r = guard(|| {
        let fr = FontRef::new(&font).unwrap();
        let g = PatchGroup::select_next_patches(fr, &sd).map_err(|e| format!("{e}"))?;
        let uris: Vec<String> = g.uris().map(|s| s.to_string()).collect();
        Ok::<_, String>((uris, g.apply_next_patches_with_decoder(&mut map, &decoder)))
    });
    l.evals += 1;
    l.applies += 1;
    let after = snapshot(&map);
    let mut h = Fnv::new();
    h.str("tk");
    h.str(&sig);
    h.u64(tc.real as u64 * 8 + (tc.max_delta + 2) as u64);
    h.u64(tc.compat_equal as u64);
    h.u64(tc.fault.map(|(k, f)| k as u64 * 16 + f as u64).unwrap_or(0));
    let (uris, res) = match r {
        Err(p) => {
            ctx.run.violation(&format!("table keyed apply panics: {} at {}", p.kind(), p.site()), &p.message, case);
            return;
        }
        Ok(Err(e)) => {
            ctx.run.violation("select_next_patches fails on the table keyed harness font", &e, case);
            return;
        }
        Ok(Ok(x)) => x,
    };
    if uris != vec![uri.clone()] {
        ctx.run.violation("select_next_patches does not offer the table keyed entry", &format!("{uris:?}"), case);
        return;
    }
    let fault_hit = decoder.fault_hit.get();
    if fault_hit {
        l.faults_injected += 1;
    }
    if !tc.compat_equal && decoder.calls.get() != 0 {
        ctx.run.violation(
            "decoder invoked before the compatibility id was verified: table keyed",
            &format!("{} calls", decoder.calls.get()),
            case.clone(),
        );
    }
    match res {
        Err(e) => {
            h.str("err");
            h.str(&err_class(&e));
            if after != before {
                ctx.run.violation(
                    &format!("UriStatus map modified although the call failed ({}): table keyed", err_class(&e)),
                    &sig,
                    case.clone(),
                );
            }
            let fault_err = fault_hit && tc.fault.map(|f| f.1) != Some(FaultKind::Oversize);
            if !want_err && !fault_err && !(fault_hit) {
                ctx.run.violation(
                    &format!("table keyed apply fails ({}) where the reference applies", err_class(&e)),
                    &sig,
                    case.clone(),
                );
            }
            if fault_hit && tc.fault.map(|f| f.1) == Some(FaultKind::Oversize) {
                l.oversize_err += 1;
            }
            l.expected_err_runs += 1;
        }
        Ok(new_font) => {
            if fault_hit && tc.fault.map(|f| f.1) != Some(FaultKind::Oversize) {
                ctx.run.violation(
                    &format!("decoder failure {:?} does not produce an error: table keyed", tc.fault.unwrap().1),
                    &sig,
                    case.clone(),
                );
                return;
            }
            let mut exp = before.clone();
            for (k, v) in exp.iter_mut() {
                if *k == uri {
                    *v = None;
                }
            }
            if exp != after {
                ctx.run.violation("UriStatus map after success is not 'exactly the applied URIs flipped': table keyed", &sig, case.clone());
            }
            if fault_hit {
                l.oversize_ok += 1;
                h.str("oversize-ok");
            } else if want_err {
                ctx.run.violation(
                    &format!("table keyed apply succeeds where the reference expects an error (compat_equal={})", tc.compat_equal),
                    &sig,
                    case.clone(),
                );
            } else {
                match table_map(&new_font) {
                    Err(s) => ctx.run.violation("table keyed result unreadable", &s, case.clone()),
                    Ok(m) => {
                        if m != want {
                            let class = if m.keys().collect::<Vec<_>>() != want.keys().collect::<Vec<_>>() {
                                "table set differs (dropped/added tables)"
                            } else if tc.ops.iter().any(|(t, _)| m.get(t) != want.get(t)) {
                                "patched table is not the decoded replacement/diff"
                            } else {
                                "untouched table changed"
                            };
                            ctx.run.violation(
                                &format!("table keyed result: {class}"),
                                &format!("{sig}: got {:?}", m.iter().map(|(k, v)| (tag_str(k), hex(v))).collect::<Vec<_>>()),
                                case.clone(),
                            );
                        }
                        h.str("ok");
                        let dg = h.finish();
                        l.nontrivial.insert(dg);
                    }
                }
            }
        }
    }
    l.all.insert(h.finish());
}

fn space_tk(ctx: &Ctx) {
    let run = ctx.run;
    // ordered selections of <= 3 distinct tags x op per tag
    let mut op_lists: Vec<Vec<(TagB, u8)>> = vec![];
    fn rec(cur: &mut Vec<(TagB, u8)>, out: &mut Vec<Vec<(TagB, u8)>>) {
        if !cur.is_empty() {
            out.push(cur.clone());
        }
        if cur.len() == 3 {
            return;
        }
        for t in TK_TAGS {
            if cur.iter().any(|(x, _)| *x == t) {
                continue;
            }
            for op in 0..3u8 {
                cur.push((t, op));
                rec(cur, out);
                cur.pop();
            }
        }
    }
    rec(&mut vec![], &mut op_lists);
    run.bound("tk_op_lists", json!(op_lists.len()));
    let mut cases: Vec<TkCase> = vec![];
    for ops in &op_lists {
        let n_dec = ops.iter().filter(|(_, o)| *o != 2).count() as u32;
        for format in [1u8, 2] {
            for in_iftx in [false, true] {
                if in_iftx && format == 1 && ops.len() == 3 && run.tier == Tier::Quick {
                    continue;
                }
                cases.push(TkCase { ops: ops.clone(), format, compat_equal: true, fault: None, in_iftx, real: false, max_delta: 0 });
                cases.push(TkCase { ops: ops.clone(), format, compat_equal: false, fault: None, in_iftx, real: false, max_delta: 0 });
                if in_iftx || format == 2 {
                    continue;
                }
                for k in 1..=n_dec + 1 {
                    for f in FAULT_KINDS {
                        cases.push(TkCase { ops: ops.clone(), format, compat_equal: true, fault: Some((k, f)), in_iftx, real: false, max_delta: 0 });
                    }
                }
            }
        }
    }
    run.count("tk_cases", cases.len() as u64);
    run.sample(json!({"space":"tk","case": cases[cases.len() / 2]}));
    let cases = &cases;
    let chunk = 64;
    par_for(cases.len().div_ceil(chunk), |c| {
        let mut l = Local::default();
        for i in c * chunk..((c + 1) * chunk).min(cases.len()) {
            run_tk(ctx, &cases[i], &mut l);
        }
        ctx.merge(l);
    });
}

// ---------------------------------------------------------------------------
// round 2 spaces
// ---------------------------------------------------------------------------

/// table keyed: duplicate tags, IFTX as a patched tag, real brotli streams
fn space_tk_extra(ctx: &Ctx) {
    let run = ctx.run;
    let mut cases: Vec<TkCase> = vec![];
    let tags6: [TagB; 6] = [*b"tab1", *b"tab2", *b"tab3", *b"tab9", *b"IFT ", *b"IFTX"];
    // (a) a tag listed twice (every op pair), alone and with a third op before / between / after
    for t in [*b"tab1", *b"tab9", *b"IFT "] {
        for o1 in 0..3u8 {
            for o2 in 0..3u8 {
                let pair = vec![(t, o1), (t, o2)];
                let mut lists = vec![pair.clone()];
                for o3 in 0..3u8 {
                    lists.push(vec![(*b"tab2", o3), (t, o1), (t, o2)]);
                    lists.push(vec![(t, o1), (*b"tab2", o3), (t, o2)]);
                    lists.push(vec![(t, o1), (t, o2), (*b"tab2", o3)]);
                }
                lists.push(vec![(t, o1), (t, o2), (t, o1)]);
                for ops in lists {
                    let n_dec = ops.iter().filter(|(_, o)| *o != 2).count() as u32;
                    cases.push(TkCase { ops: ops.clone(), format: 2, compat_equal: true, fault: None, in_iftx: false, real: false, max_delta: 0 });
                    cases.push(TkCase { ops: ops.clone(), format: 1, compat_equal: true, fault: None, in_iftx: true, real: false, max_delta: 0 });
                    for k in 1..=n_dec {
                        cases.push(TkCase { ops: ops.clone(), format: 2, compat_equal: true, fault: Some((k, FaultKind::InvalidStream)), in_iftx: false, real: false, max_delta: 0 });
                    }
                }
            }
        }
    }
    // (b) IFTX among the patched tags (the mapping table replacing itself / the other mapping table)
    for a in tags6 {
        for oa in 0..3u8 {
            for in_iftx in [false, true] {
                cases.push(TkCase { ops: vec![(*b"IFTX", oa)], format: 2, compat_equal: true, fault: None, in_iftx, real: false, max_delta: 0 });
                if a != *b"IFTX" {
                    for ob in 0..3u8 {
                        cases.push(TkCase { ops: vec![(a, oa), (*b"IFTX", ob)], format: 1, compat_equal: true, fault: None, in_iftx, real: false, max_delta: 0 });
                        cases.push(TkCase { ops: vec![(*b"IFTX", ob), (a, oa)], format: 2, compat_equal: true, fault: None, in_iftx, real: false, max_delta: 0 });
                    }
                }
            }
        }
    }
    let n_passthrough = cases.len();
    // (c) real brotli streams through BuiltInBrotliDecoder: all lists of <= 2 ops over 5 tags
    let mut lists: Vec<Vec<(TagB, u8)>> = vec![];
    for a in TK_TAGS {
        for oa in 0..3u8 {
            lists.push(vec![(a, oa)]);
            for b in TK_TAGS {
                for ob in 0..3u8 {
                    lists.push(vec![(a, oa), (b, ob)]); // b == a: duplicates through the real decoder too
                }
            }
        }
    }
    for ops in &lists {
        let n_dec = ops.iter().filter(|(_, o)| *o != 2).count() as u32;
        for in_iftx in [false, true] {
            for max_delta in [0i32, 1, -1] {
                cases.push(TkCase { ops: ops.clone(), format: 2, compat_equal: true, fault: None, in_iftx, real: true, max_delta });
            }
            cases.push(TkCase { ops: ops.clone(), format: 1, compat_equal: false, fault: None, in_iftx, real: true, max_delta: 0 });
        }
        for k in 1..=n_dec {
            for f in [FaultKind::InvalidStream, FaultKind::Oversize] {
                cases.push(TkCase { ops: ops.clone(), format: 2, compat_equal: true, fault: Some((k, f)), in_iftx: false, real: true, max_delta: 0 });
            }
        }
    }
    run.count("tk_cases_duplicates_and_iftx", n_passthrough as u64);
    run.count("tk_cases_real_brotli", (cases.len() - n_passthrough) as u64);
    run.sample(json!({"space":"tk-real","case": cases[n_passthrough + 77]}));
    let cases = &cases;
    let chunk = 64;
    par_for(cases.len().div_ceil(chunk), |c| {
        let mut l = Local::default();
        for i in c * chunk..((c + 1) * chunk).min(cases.len()) {
            run_tk(ctx, &cases[i], &mut l);
        }
        ctx.merge(l);
    });
}

/// A table keyed patch replaces the mapping table it came from by a valid table of another size
/// (more / fewer entries, other compat id); the next selection must work on the new table.
fn space_tk_chain(ctx: &Ctx) {
    use incremental_font_transfer::patchmap::SubsetDefinition;
    let mut l = Local::default();
    let mut n = 0u64;
    for in_iftx in [false, true] {
        for format in [1u8, 2] {
            for n_new in [0usize, 1, 2, 3] {
                for real in [false, true] {
                    let (font, _tables, uri) = tk_base(in_iftx, format);
                    let compat = if in_iftx { COMPAT_IFTX } else { COMPAT_IFT };
                    let mut new_t = T2 {
                        compat: [8, 8, 8, n_new as u32],
                        default_format: 3,
                        template: b"next/{id}".to_vec(),
                        entries: vec![],
                        string_data: None,
                        cff_off: None,
                        cff2_off: None,
                    };
                    for k in 0..n_new {
                        let mut e = E2::plain();
                        e.cps = Cps::Set { bias_kind: 0, bias: 0, members: vec![0x41 + (k as u32 % 2)] };
                        new_t.entries.push(e);
                    }
                    let new_bytes = encode_t2(&new_t).bytes;
                    let own = if in_iftx { IFTX } else { IFT };
                    let stream = if real { brotli::stored(&new_bytes, 18, 11) } else { new_bytes.clone() };
                    let patch = table_keyed_patch_lens(compat, &[(own, TableOp::Replace(stream))], &[new_bytes.len() as u32]);
                    let decoder = if real { Decoder::real(None) } else { Decoder::new(None) };
                    let mut map: HashMap<String, UriStatus> = HashMap::new();
                    map.insert(uri.clone(), UriStatus::Pending(patch));
                    let sd = SubsetDefinition::codepoints([0x41u32, 0x42].into_iter().collect());
                    let case = json!({"kind":"tk-chain","in_iftx": in_iftx, "format": format, "n_new": n_new, "real": real});
                    l.evals += 1;
                    l.applies += 1;
                    n += 1;
                    let r = guard(|| {
                        let fr = FontRef::new(&font).unwrap();
                        let g = PatchGroup::select_next_patches(fr, &sd).map_err(|e| format!("select 1: {e}"))?;
                        let f2 = g.apply_next_patches_with_decoder(&mut map, &decoder).map_err(|e| format!("apply: {e:?}"))?;
                        let fr2 = FontRef::new(&f2).map_err(|e| format!("font 2: {e}"))?;
                        let got_table = fr2.table_data(Tag::new(&own)).map(|d| d.as_bytes().to_vec());
                        let g2 = PatchGroup::select_next_patches(fr2, &sd).map_err(|e| format!("select 2: {e}"))?;
                        let uris: Vec<String> = g2.uris().map(|s| s.to_string()).collect();
                        Ok::<_, String>((got_table, uris))
                    });
                    let want_uris: Vec<String> = (0..n_new).map(|k| expand_uri(&new_t.template, &Id::Num(k as u32 + 1))).collect();
                    match r {
                        Err(p) => ctx.run.violation(&format!("table keyed chain panics: {} at {}", p.kind(), p.site()), &p.message, case),
                        Ok(Err(e)) => ctx.run.violation("table keyed patch replacing its own mapping table by a differently sized one fails", &e, case),
                        Ok(Ok((t, uris))) => {
                            if t.as_deref() != Some(&new_bytes[..]) {
                                ctx.run.violation("table keyed result: patched table is not the decoded replacement/diff", "mapping table after self replacement", case.clone());
                            }
                            if uris != want_uris {
                                ctx.run.violation(
                                    "selection after a mapping table replaced itself does not follow the new table",
                                    &format!("got {uris:?} want {want_uris:?}"),
                                    case,
                                );
                            }
                            let dg = digest_of(&("tk-chain", in_iftx, format, n_new, real));
                            l.all.insert(dg);
                            l.nontrivial.insert(dg);
                        }
                    }
                }
            }
        }
    }
    ctx.run.count("tk_chain_cases", n);
    ctx.merge(l);
}

/// glyph keyed scenarios through the real decoder (bodies in stored brotli streams)
fn space_real(ctx: &Ctx) {
    let run = ctx.run;
    let thorough = run.tier == Tier::Thorough;
    let sets = gid_sets();
    let tri_sets: Vec<Vec<u32>> = vec![vec![0], vec![2], vec![5], vec![0, 1], vec![1, 2], vec![2, 5], vec![0, 5], vec![0, 1, 2], vec![1, 3, 5], vec![3, 4, 5]];
    let mut scenarios = vec![];
    for spec in base_specs() {
        let tables = &tables_for(spec.kind)[0];
        for world in if thorough { vec![0usize, 1, 3] } else { vec![0] } {
            for s in &sets {
                scenarios.push(Scenario {
                    base: spec.clone(),
                    mapping: Mapping::F2,
                    patches: vec![gk_patch(world, s, tables, s.len() % 2 == 0, COMPAT_IFT)],
                    note: "real-single".into(),
                    real_brotli: true,
                });
            }
            for mapping in [Mapping::F2, Mapping::Split] {
                for (i, a) in tri_sets.iter().enumerate() {
                    for b in &tri_sets[i..] {
                        scenarios.push(Scenario {
                            base: spec.clone(),
                            mapping,
                            patches: vec![
                                gk_patch(world, a, tables, false, compat_of(mapping, 0)),
                                gk_patch(world, b, tables, true, compat_of(mapping, 1)),
                            ],
                            note: "real-pair".into(),
                            real_brotli: true,
                        });
                    }
                }
            }
            if thorough {
                for i in 0..tri_sets.len() {
                    for j in i + 1..tri_sets.len() {
                        for k in j + 1..tri_sets.len() {
                            scenarios.push(Scenario {
                                base: spec.clone(),
                                mapping: Mapping::F2,
                                patches: vec![
                                    gk_patch(world, &tri_sets[i], tables, false, COMPAT_IFT),
                                    gk_patch(world, &tri_sets[j], tables, false, COMPAT_IFT),
                                    gk_patch(world, &tri_sets[k], tables, true, COMPAT_IFT),
                                ],
                                note: "real-triple".into(),
                                real_brotli: true,
                            });
                        }
                    }
                }
            }
        }
    }
    // across the widening limit as well (130 KB bodies are not involved: only the base is big)
    for kind in [BaseKind::GvarShort, BaseKind::GlyfShort] {
        for big in [LIMIT_SHORT - 22, LIMIT_SHORT - 18, LIMIT_SHORT - 14] {
            let spec = BaseSpec { kind, lens: vec![4, 2, 0, 6, 2, big], off_size: 0, gvar_tuples_last: false, gvar_no_tuples: false };
            let tables = &tables_for(kind)[0];
            for gids in [vec![0u32], vec![1, 2], vec![5]] {
                scenarios.push(Scenario {
                    base: spec.clone(),
                    mapping: Mapping::F2,
                    patches: vec![gk_patch(3, &gids, tables, false, COMPAT_IFT)],
                    note: "real-wide".into(),
                    real_brotli: true,
                });
            }
        }
    }
    run.count("real_brotli_gk_scenarios", scenarios.len() as u64);
    run.sample(json!({"space":"real","scenario": scenarios[50]}));
    let scenarios = &scenarios;
    par_for(scenarios.len(), |i| {
        let mut l = Local::default();
        explore_scenario(ctx, &scenarios[i], &mut l);
        ctx.merge(l);
    });
}

/// Fault enumeration on the real decoder: one glyph keyed patch per base kind and one table keyed
/// patch, truncated at every length and with every byte xor-ed by 0x01 / 0x80 / 0xFF (the two high
/// bytes of max_uncompressed_length fields are left alone: the real decoder allocates that much).
/// Truncation must give Err; any Err leaves the bookkeeping untouched; an accepted corruption flips
/// exactly the applied URI; nothing panics.
fn space_corrupt(ctx: &Ctx) {
    use incremental_font_transfer::patchmap::SubsetDefinition;
    struct Target {
        font: Vec<u8>,
        uri: String,
        patch: Vec<u8>,
        skip: Vec<usize>,
        sd: SubsetDefinition,
        what: String,
    }
    let mut targets = vec![];
    for spec in base_specs() {
        let tables = &tables_for(spec.kind)[0];
        let sc = Scenario {
            base: spec.clone(),
            mapping: Mapping::F2,
            patches: vec![gk_patch(0, &[1, 3], tables, false, COMPAT_IFT)],
            note: "corrupt".into(),
            real_brotli: true,
        };
        let built = build_scenario(&sc, &[1]);
        targets.push(Target {
            font: built.font.clone(),
            uri: built.uris[0].clone(),
            patch: patch_bytes(&sc, 0),
            skip: vec![25, 26],
            sd: SubsetDefinition::codepoints(built.cps.iter().copied().collect()),
            what: format!("glyph keyed {:?}", spec.kind),
        });
    }
    {
        let (font, base_tables, uri) = tk_base(false, 2);
        let p1 = b"replacement".to_vec();
        let p2 = b"+diff".to_vec();
        let b = &base_tables[b"tab2"];
        let ops = vec![
            (*b"tab1", TableOp::Replace(brotli::stored(&p1, 16, 1 << 16))),
            (*b"tab2", TableOp::Diff(brotli::dict_copy_then_stored(7, 7, &p2, 16))),
            (*b"tab3", TableOp::Drop),
        ];
        let lens = [p1.len() as u32, (b.len().min(7) + p2.len()) as u32, 0];
        let patch = table_keyed_patch_lens(COMPAT_IFT, &ops, &lens);
        // positions of the two high bytes of every max_uncompressed_length
        let header = 4 + 4 + 16 + 2 + 4 * (ops.len() + 1);
        let mut skip = vec![];
        let mut at = header;
        for (_, op) in &ops {
            skip.extend([at + 5, at + 6]);
            at += 9 + match op {
                TableOp::Replace(s) | TableOp::Diff(s) | TableOp::Raw(_, s) => s.len(),
                TableOp::Drop => 0,
            };
        }
        targets.push(Target {
            font,
            uri,
            patch,
            skip,
            sd: SubsetDefinition::codepoints([0x41u32].into_iter().collect()),
            what: "table keyed".into(),
        });
    }
    let counts = Mutex::new((0u64, 0u64, 0u64)); // truncations, corruptions rejected, corruptions accepted
    let targets = &targets;
    par_for(targets.len(), |ti| {
        let t = &targets[ti];
        let mut l = Local::default();
        let mut variants: Vec<(String, Vec<u8>, bool)> = vec![("intact".into(), t.patch.clone(), false)];
        for p in 0..t.patch.len() {
            variants.push((format!("truncated to {p}"), t.patch[..p].to_vec(), true));
        }
        for p in 0..t.patch.len() {
            if t.skip.contains(&p) {
                continue;
            }
            for x in [0x01u8, 0x80, 0xFF] {
                let mut v = t.patch.clone();
                v[p] ^= x;
                variants.push((format!("byte {p} xor {x:#04x}"), v, false));
            }
        }
        let (mut n_trunc, mut n_rej, mut n_acc) = (0u64, 0u64, 0u64);
        for (name, bytes, must_fail) in variants {
            let decoder = Decoder::real(None);
            let mut map: HashMap<String, UriStatus> = HashMap::new();
            map.insert(t.uri.clone(), UriStatus::Pending(bytes.clone()));
            map.insert("unrelated".into(), UriStatus::Pending(vec![1]));
            let before = snapshot(&map);
            let r = guard(|| {
                let fr = FontRef::new(&t.font).unwrap();
                let g = PatchGroup::select_next_patches(fr, &t.sd).unwrap();
                g.apply_next_patches_with_decoder(&mut map, &decoder)
            });
            l.evals += 1;
            l.applies += 1;
            let after = snapshot(&map);
            let case = json!({"kind":"corrupt","target": t.what, "variant": name, "patch": hex(&bytes)});
            match r {
                Err(p) => ctx.run.violation(
                    &format!("apply with the real decoder panics on a damaged patch: {} at {}", p.kind(), p.site()),
                    &format!("{}: {name}: {}", t.what, p.message),
                    case,
                ),
                Ok(Err(e)) => {
                    if after != before {
                        ctx.run.violation(
                            &format!("UriStatus map modified although the call failed ({}): real decoder, damaged patch", err_class(&e)),
                            &format!("{}: {name}", t.what),
                            case.clone(),
                        );
                    }
                    if name == "intact" {
                        ctx.run.violation("intact patch with a real brotli stream is rejected", &format!("{}: {e:?}", t.what), case);
                    }
                    if must_fail {
                        n_trunc += 1;
                    } else {
                        n_rej += 1;
                    }
                    l.all.insert(digest_of(&("corrupt-err", ti, err_class(&e))));
                }
                Ok(Ok(_)) => {
                    if must_fail {
                        ctx.run.violation(
                            &format!("truncated patch is applied (real decoder): {}", t.what.split(' ').next().unwrap_or("")),
                            &format!("{}: {name}", t.what),
                            case.clone(),
                        );
                    }
                    let mut exp = before.clone();
                    for (k, v) in exp.iter_mut() {
                        if *k == t.uri {
                            *v = None;
                        }
                    }
                    if exp != after {
                        ctx.run.violation("UriStatus map after success is not 'exactly the applied URIs flipped': real decoder, damaged patch", &name, case);
                    }
                    n_acc += 1;
                    let dg = digest_of(&("corrupt-ok", ti, name == "intact"));
                    l.all.insert(dg);
                    l.nontrivial.insert(dg);
                }
            }
        }
        let mut g = counts.lock().unwrap();
        g.0 += n_trunc;
        g.1 += n_rej;
        g.2 += n_acc;
        drop(g);
        ctx.merge(l);
    });
    let g = counts.lock().unwrap();
    ctx.run.count("real_decoder_truncations_rejected", g.0);
    ctx.run.count("real_decoder_corruptions_rejected", g.1);
    ctx.run.count("real_decoder_corruptions_accepted_incl_intact", g.2);
}

/// glyph keyed patches whose table list is not strictly ascending must be rejected as a whole
fn space_unsorted(ctx: &Ctx) {
    let mut l = Local::default();
    let mut n = 0;
    for spec in base_specs() {
        let base_tabs = tables_for(spec.kind)[0].clone();
        let first = base_tabs[0];
        let lists: Vec<Vec<TagB>> = vec![
            vec![first, first],
            vec![ZZZZ, first],
            vec![first, *b"AAAA"],
            vec![GVAR, GLYF],
            vec![first, ZZZZ, ZZZZ],
        ];
        for tl in lists {
            for mapping in [Mapping::F2, Mapping::Split] {
                let bad = GkPatch {
                    compat: compat_of(mapping, 1),
                    wide: false,
                    gids: vec![2],
                    data: tl.iter().map(|t| vec![world_data(0, t, 2)]).collect(),
                    tables: tl.clone(),
                };
                let sc = Scenario {
                    base: spec.clone(),
                    mapping,
                    patches: vec![gk_patch(0, &[0, 2], &base_tabs, false, compat_of(mapping, 0)), bad],
                    note: "unsorted-tables".into(),
                    real_brotli: false,
                };
                explore_scenario(ctx, &sc, &mut l);
                n += 1;
            }
        }
    }
    ctx.run.count("unsorted_table_list_scenarios", n);
    ctx.merge(l);
}

/// thorough: four patches (24 id permutations x 75 ordered partitions, faults at every call)
fn space_four(ctx: &Ctx) {
    let sets: Vec<Vec<u32>> = vec![vec![0], vec![1, 2], vec![2, 5], vec![0, 1, 2], vec![3, 4, 5], vec![1, 3, 5]];
    let mut scenarios = vec![];
    for spec in base_specs() {
        let tables = &tables_for(spec.kind)[0];
        for mapping in [Mapping::F2, Mapping::Split, Mapping::F1] {
            for a in 0..sets.len() {
                for b in a + 1..sets.len() {
                    for c in b + 1..sets.len() {
                        for d in c + 1..sets.len() {
                            scenarios.push(Scenario {
                                base: spec.clone(),
                                mapping,
                                patches: vec![
                                    gk_patch(0, &sets[a], tables, false, compat_of(mapping, 0)),
                                    gk_patch(0, &sets[b], tables, true, compat_of(mapping, 1)),
                                    gk_patch(0, &sets[c], tables, false, compat_of(mapping, 2)),
                                    gk_patch(0, &sets[d], tables, false, compat_of(mapping, 3)),
                                ],
                                note: "four".into(),
                                real_brotli: false,
                            });
                        }
                    }
                }
            }
        }
    }
    ctx.run.count("gk_scenarios_four_patches", scenarios.len() as u64);
    ctx.run.bound("orders_per_quadruple", json!({"id_permutations": 24, "ordered_partitions": ordered_partitions(4).len()}));
    let scenarios = &scenarios;
    par_for(scenarios.len(), |i| {
        let mut l = Local::default();
        explore_scenario(ctx, &scenarios[i], &mut l);
        ctx.merge(l);
    });
}

// ---------------------------------------------------------------------------
// declared-length boundaries x stream validity through the real decoder
// ---------------------------------------------------------------------------

#[derive(Clone, Debug, Serialize, Deserialize)]
pub struct DeclCase {
    /// "tk-replace", "tk-diff", "tk-second" (boundary on the second table entry), "gk-glyf", "gk-gvar"
    pub target: String,
    /// "valid", "valid-empty", "truncated", "corrupt", "trailing", "empty"
    pub stream: String,
    pub declared: u32,
}

/// (stream bytes, Some(decoded) when the stream is a valid and complete brotli encoding)
fn stream_variant(kind: &str, valid: &[u8], decoded: &[u8]) -> (Vec<u8>, Option<Vec<u8>>) {
    match kind {
        "valid" => (valid.to_vec(), Some(decoded.to_vec())),
        "valid-empty" => (brotli::stored(&[], 16, 1 << 16), Some(vec![])),
        "truncated" => (valid[..valid.len() - 1].to_vec(), None),
        "corrupt" => {
            // non-zero padding bits after the final empty meta-block
            let mut v = valid.to_vec();
            *v.last_mut().unwrap() |= 0x80;
            (v, None)
        }
        "trailing" => {
            let mut v = valid.to_vec();
            v.push(0);
            (v, None)
        }
        _ => (vec![], None),
    }
}

const STREAM_KINDS: [&str; 6] = ["valid", "valid-empty", "truncated", "corrupt", "trailing", "empty"];

fn declared_lengths(len: usize) -> Vec<u32> {
    let mut v = vec![0u32, 1, len.saturating_sub(1) as u32, len as u32, len as u32 + 1, u32::MAX];
    v.sort();
    v.dedup();
    v
}

fn run_decl(ctx: &Ctx, dc: &DeclCase, l: &mut Local) {
    use incremental_font_transfer::patchmap::SubsetDefinition;
    let case = json!({"kind":"decl","decl": dc});
    l.evals += 1;
    l.applies += 1;
    let ident = |what: &str| format!("declared max length {} / {} stream: {what}: {}", match dc.declared { 0 => "0".to_string(), u32::MAX => "u32::MAX".to_string(), _ => "near the decoded length".to_string() }, dc.stream, dc.target);
    if dc.target.starts_with("tk") {
        let (font, base_tables, uri) = tk_base(false, 2);
        let payload = b"declared-length payload".to_vec();
        let (valid, decoded): (Vec<u8>, Vec<u8>) = if dc.target == "tk-diff" {
            let b = &base_tables[b"tab2"];
            let mut out = b[b.len() - 7..].to_vec();
            out.extend_from_slice(&payload);
            (brotli::dict_copy_then_stored(7, 7, &payload, 16), out)
        } else {
            (brotli::stored(&payload, 16, 1 << 16), payload.clone())
        };
        let (stream, dec) = stream_variant(&dc.stream, &valid, &decoded);
        let (tag, op) = if dc.target == "tk-diff" { (*b"tab2", TableOp::Diff(stream)) } else { (*b"tab1", TableOp::Replace(stream)) };
        let other = b"other table".to_vec();
        let (ops, lens) = if dc.target == "tk-second" {
            (vec![(*b"tab4", TableOp::Replace(brotli::stored(&other, 16, 1 << 16))), (tag, op)], vec![other.len() as u32, dc.declared])
        } else {
            (vec![(tag, op)], vec![dc.declared])
        };
        let patch = table_keyed_patch_lens(COMPAT_IFT, &ops, &lens);
        let want_ok = matches!(&dec, Some(d) if d.len() as u64 <= dc.declared as u64);
        let mut want = base_tables.clone();
        if want_ok {
            want.insert(tag, dec.clone().unwrap());
            if dc.target == "tk-second" {
                want.insert(*b"tab4", other.clone());
            }
        }
        let decoder = Decoder::real(None);
        let mut map: HashMap<String, UriStatus> = HashMap::new();
        map.insert(uri.clone(), UriStatus::Pending(patch));
        let before = snapshot(&map);
        let sd = SubsetDefinition::codepoints([0x41u32].into_iter().collect());
        let r = guard(|| {
            let fr = FontRef::new(&font).unwrap();
            let g = PatchGroup::select_next_patches(fr, &sd).unwrap();
            g.apply_next_patches_with_decoder(&mut map, &decoder)
        });
        let after = snapshot(&map);
        match r {
            Err(p) => ctx.run.violation(&format!("table keyed apply panics: {} at {}", p.kind(), p.site()), &p.message, case),
            Ok(Err(e)) => {
                if after != before {
                    ctx.run.violation(&ident("UriStatus map modified although the call failed"), &format!("{e:?}"), case.clone());
                }
                if want_ok {
                    ctx.run.violation(&ident("rejected although the stream is valid and fits"), &format!("{e:?}"), case);
                }
                l.all.insert(digest_of(&("decl-err", &dc.target, &dc.stream, dc.declared.min(3), err_class(&e))));
            }
            Ok(Ok(new_font)) => {
                if !want_ok {
                    ctx.run.violation(
                        &ident("accepted although the stream is not a valid encoding of at most the declared number of bytes"),
                        &format!("decoded length {:?}, declared {}", dec.as_ref().map(|d| d.len()), dc.declared),
                        case,
                    );
                    return;
                }
                match table_map(&new_font) {
                    Ok(m) if m == want => {}
                    other => ctx.run.violation(
                        &ident("table keyed result: patched table is not the decoded replacement/diff"),
                        &format!("{:?}", other.map(|m| m.get(&tag).map(|v| hex(v)))),
                        case,
                    ),
                }
                let dg = digest_of(&("decl-ok", &dc.target, &dc.stream, dc.declared.min(3)));
                l.all.insert(dg);
                l.nontrivial.insert(dg);
            }
        }
    } else {
        let kind = if dc.target == "gk-gvar" { BaseKind::GvarShort } else { BaseKind::GlyfLong };
        let spec = base_specs().into_iter().find(|s| s.kind == kind).unwrap();
        let tables = tables_for(kind)[0].clone();
        let sc = Scenario {
            base: spec,
            mapping: Mapping::F2,
            patches: vec![gk_patch(0, &[1, 3], &tables, false, COMPAT_IFT)],
            note: "declared".into(),
            real_brotli: true,
        };
        let built = build_scenario(&sc, &[1]);
        let p = &sc.patches[0];
        let body = glyph_keyed_body(p.wide, &p.gids, &p.tables, &p.data);
        let valid = brotli::stored(&body, 16, 1 << 16);
        let (stream, dec) = stream_variant(&dc.stream, &valid, &body);
        let patch = glyph_keyed_wrap(p.compat, p.wide, &stream, dc.declared);
        // an empty body is not a GlyphPatches table: only the full body can be applied
        let want_ok = matches!(&dec, Some(d) if d == &body && d.len() as u64 <= dc.declared as u64);
        let decoder = Decoder::real(None);
        let mut map: HashMap<String, UriStatus> = HashMap::new();
        map.insert(built.uris[0].clone(), UriStatus::Pending(patch));
        let before = snapshot(&map);
        let sd = SubsetDefinition::codepoints(built.cps.iter().copied().collect());
        let r = guard(|| {
            let fr = FontRef::new(&built.font).unwrap();
            let g = PatchGroup::select_next_patches(fr, &sd).unwrap();
            g.apply_next_patches_with_decoder(&mut map, &decoder)
        });
        let after = snapshot(&map);
        match r {
            Err(pn) => ctx.run.violation(&format!("apply_next_patches_with_decoder panics: {} at {}", pn.kind(), pn.site()), &pn.message, case),
            Ok(Err(e)) => {
                if after != before {
                    ctx.run.violation(&ident("UriStatus map modified although the call failed"), &format!("{e:?}"), case.clone());
                }
                if want_ok {
                    ctx.run.violation(&ident("rejected although the stream is valid and fits"), &format!("{e:?}"), case);
                }
                l.all.insert(digest_of(&("decl-err", &dc.target, &dc.stream, dc.declared.min(3), err_class(&e))));
            }
            Ok(Ok(new_font)) => {
                if !want_ok {
                    ctx.run.violation(
                        &ident("accepted although the stream is not a valid encoding of at most the declared number of bytes"),
                        &format!("declared {}", dc.declared),
                        case,
                    );
                    return;
                }
                let mut want = built.reference.clone();
                let mut compat = HashMap::new();
                compat.insert(IFT, COMPAT_IFT);
                let _ = ref_apply_gk(&mut want, &[p], &[(IFT, built.bits[0])], &compat, &[IFT]);
                if let Err((class, detail)) = compare(&new_font, &want) {
                    ctx.run.violation(&ident(&format!("glyph keyed result: {class}")), &detail, case);
                }
                let dg = digest_of(&("decl-ok", &dc.target, &dc.stream, dc.declared.min(3)));
                l.all.insert(dg);
                l.nontrivial.insert(dg);
            }
        }
    }
}

fn space_declared(ctx: &Ctx) {
    let mut cases = vec![];
    // decoded lengths: replace payload 23, diff 7 + 23; glyph keyed bodies are computed per target
    for (target, len) in [("tk-replace", 23usize), ("tk-diff", 30), ("tk-second", 23)] {
        for s in STREAM_KINDS {
            for d in declared_lengths(len) {
                cases.push(DeclCase { target: target.into(), stream: s.into(), declared: d });
            }
        }
    }
    for (target, kind) in [("gk-glyf", BaseKind::GlyfLong), ("gk-gvar", BaseKind::GvarShort)] {
        let tables = tables_for(kind)[0].clone();
        let p = gk_patch(0, &[1, 3], &tables, false, COMPAT_IFT);
        let len = glyph_keyed_body(p.wide, &p.gids, &p.tables, &p.data).len();
        for s in STREAM_KINDS {
            for d in declared_lengths(len) {
                cases.push(DeclCase { target: target.into(), stream: s.into(), declared: d });
            }
        }
    }
    ctx.run.count("declared_length_boundary_cases", cases.len() as u64);
    ctx.run.sample(json!({"space":"decl","case": cases[7]}));
    // sequential: the C wrapper allocates the declared number of bytes (4 GiB of untouched pages for u32::MAX)
    let mut l = Local::default();
    for c in &cases {
        run_decl(ctx, c, &mut l);
    }
    ctx.merge(l);
}


/// Base fonts with 1100 tiny glyphs; patched glyph ids from the 512-value page boundary alphabet of
/// the glyph-id sets the client keeps (replaced / retained ranges): all pairs, and the triples that
/// contain 511 or 1023, as one patch and split over two patches (every order, one call or two).
fn space_gid_pages(ctx: &Ctx) {
    let run = ctx.run;
    let thorough = run.tier == Tier::Thorough;
    const N: usize = 1100;
    let alpha: [u32; 10] = [0, 1, 510, 511, 512, 513, 1023, 1024, 1025, N as u32 - 1];
    let mut sets: Vec<Vec<u32>> = vec![];
    for i in 0..alpha.len() {
        for j in i + 1..alpha.len() {
            sets.push(vec![alpha[i], alpha[j]]);
            for k in j + 1..alpha.len() {
                let t = vec![alpha[i], alpha[j], alpha[k]];
                if t.contains(&511) || t.contains(&1023) {
                    sets.push(t);
                }
            }
        }
    }
    let kinds: Vec<(BaseKind, u8)> = if thorough {
        vec![(BaseKind::GlyfLong, 0), (BaseKind::GvarShort, 0), (BaseKind::GvarLong, 0), (BaseKind::Cff, 2), (BaseKind::Cff2, 2)]
    } else {
        vec![(BaseKind::GlyfLong, 0), (BaseKind::GvarShort, 0)]
    };
    let mut scenarios = vec![];
    for (kind, off_size) in kinds {
        let short = matches!(kind, BaseKind::GvarShort);
        let spec = BaseSpec {
            kind,
            lens: (0..N).map(|g| if short { (g % 2) * 2 } else { g % 3 }).collect(),
            off_size,
            gvar_tuples_last: false,
                    gvar_no_tuples: false,
        };
        let tables = &tables_for(kind)[0];
        for s in &sets {
            scenarios.push(Scenario {
                base: spec.clone(),
                mapping: Mapping::F2,
                patches: vec![gk_patch(0, s, tables, s.len() == 3, COMPAT_IFT)],
                note: "gid-pages-single".into(),
                real_brotli: false,
            });
            // every split of the set into two non-empty patches (the tape supplies both orders and groupings)
            for mask in 1u32..(1 << s.len()) - 1 {
                if mask & 1 == 0 {
                    continue; // the complement split is the same pair of patches
                }
                let a: Vec<u32> = s.iter().enumerate().filter(|(i, _)| mask & (1 << i) != 0).map(|(_, g)| *g).collect();
                let b: Vec<u32> = s.iter().enumerate().filter(|(i, _)| mask & (1 << i) == 0).map(|(_, g)| *g).collect();
                scenarios.push(Scenario {
                    base: spec.clone(),
                    mapping: Mapping::F2,
                    patches: vec![gk_patch(0, &a, tables, false, COMPAT_IFT), gk_patch(0, &b, tables, true, COMPAT_IFT)],
                    note: "gid-pages-split".into(),
                    real_brotli: false,
                });
            }
        }
    }
    run.count("gid_page_boundary_scenarios", scenarios.len() as u64);
    run.bound("gid_page_boundary_alphabet", json!(alpha));
    run.bound("gid_page_boundary_glyphs", json!(N));
    run.sample(json!({"space":"gid-pages","gids": scenarios[3].patches[0].gids, "kind": format!("{:?}", scenarios[3].base.kind)}));
    let scenarios = &scenarios;
    par_for(scenarios.len(), |i| {
        let mut l = Local::default();
        explore_scenario(ctx, &scenarios[i], &mut l);
        ctx.merge(l);
    });
}
