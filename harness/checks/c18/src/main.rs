fn main() {}
