//! Family `unordered_offsets` (round 13): base fonts whose glyph-data offset array is malformed in exactly
//! one place, patched with one glyph keyed patch.
//!
//! For each of the six single-table base kinds (glyf+loca short/long, gvar short/long, CFF, CFF2) and each
//! adjacent pair (i, i+1) of the n+1 stored offsets (first, every middle, LAST pair) exactly that pair is made
//! unordered: `lower-next` stores offset[i+1] = offset[i] - d (d = one stored unit, or down to the smallest
//! value), `raise-this` stores offset[i] = offset[i+1] + d (d = one unit, or up to the largest representable
//! value). Further variants: last offset beyond the table data (+1 unit, largest value), first offset
//! non-zero (ordered), and the untouched base as control. Each base is patched by every single-glyph patch:
//! (a) the glyph before i, (b) the glyph after i, (c) glyph i itself, (d) the last glyph, and the glyphs further
//! away (the retained run that touches the broken pair then starts earlier: only then does a too-small final
//! offset still lie at or after the start of the last retained run, which is what seed C18-13 needs).
//!
//! Oracle (no more than the statement): Err with an untouched UriStatus map is always fine for a malformed
//! base. Ok is fine only if every glyph that must be retained has a well-formed range in the base
//! (start <= end <= data length); then the result is compared with the reference built from those ranges.

use crate::*;
use incremental_font_transfer::patchmap::SubsetDefinition;

struct Loc {
    tag: TagB,
    start: usize,
    width: usize,
    /// bytes per stored unit
    unit: u32,
    /// smallest legal stored value (CFF offsets are 1 based)
    min: u32,
}

fn loc(kind: BaseKind, reference: &RefFont, off_size: u8) -> Loc {
    let p = reference.cff_prefix.len();
    match kind {
        BaseKind::GlyfShort => Loc { tag: LOCA, start: 0, width: 2, unit: 2, min: 0 },
        BaseKind::GlyfLong => Loc { tag: LOCA, start: 0, width: 4, unit: 1, min: 0 },
        BaseKind::GvarShort | BaseKind::GlyfGvar => Loc { tag: GVAR, start: 20, width: 2, unit: 2, min: 0 },
        BaseKind::GvarLong => Loc { tag: GVAR, start: 20, width: 4, unit: 1, min: 0 },
        BaseKind::Cff => Loc { tag: CFF, start: p + 3, width: off_size as usize, unit: 1, min: 1 },
        BaseKind::Cff2 => Loc { tag: CFF2, start: p + 5, width: off_size as usize, unit: 1, min: 1 },
    }
}

fn max_rep(width: usize) -> u32 {
    if width >= 4 {
        u32::MAX
    } else {
        (1u32 << (8 * width)) - 1
    }
}

fn raw_tables(font: &[u8]) -> Vec<(TagB, Vec<u8>)> {
    let f = FontRef::new(font).expect("harness font");
    f.table_directory
        .table_records()
        .iter()
        .map(|r| (r.tag().to_be_bytes(), f.table_data(r.tag()).expect("table").as_bytes().to_vec()))
        .collect()
}

fn rebuild(tables: &[(TagB, Vec<u8>)]) -> Vec<u8> {
    let mut b = write_fonts::FontBuilder::new();
    for (t, d) in tables {
        b.add_raw(Tag::new(t), d.clone());
    }
    b.build()
}

fn pair_class(i: usize, n: usize) -> &'static str {
    if i == 0 {
        "first"
    } else if i + 1 == n {
        "last"
    } else {
        "middle"
    }
}

pub fn space_unordered(ctx: &Ctx) {
    let mut l = Local::default();
    let (mut n_cases, mut n_err, mut n_ok, mut n_ok_malformed_base) = (0u64, 0u64, 0u64, 0u64);
    let mut err_classes: BTreeMap<String, u64> = BTreeMap::new();
    let mut ok_on_malformed: Vec<String> = vec![];
    for spec in base_specs() {
        if spec.kind == BaseKind::GlyfGvar {
            continue;
        }
        let kind = spec.kind;
        let n = spec.lens.len();
        let tabs = tables_for(kind)[0].clone();
        // base with a harmless patch, only to learn the stored offsets
        let probe = Scenario {
            base: spec.clone(),
            mapping: Mapping::F2,
            patches: vec![gk_patch(0, &[0], &tabs, false, COMPAT_IFT)],
            note: "unordered-offsets".into(),
            real_brotli: false,
        };
        let probe_built = build_scenario(&probe, &[1]);
        let lc = loc(kind, &probe_built.reference, spec.off_size);
        let base_tables = raw_tables(&probe_built.font);
        let off_table = base_tables.iter().find(|(t, _)| *t == lc.tag).expect("offset table").1.clone();
        let raw: Vec<u32> = (0..=n).map(|i| be_n(&off_table, lc.start + i * lc.width, lc.width).expect("offset")).collect();
        let top = max_rep(lc.width);
        // (mutation name, position i, pair class, stored offsets)
        let mut muts: Vec<(String, usize, &'static str, Vec<u32>)> = vec![("control".into(), 0, "none", raw.clone())];
        for i in 0..n {
            let mut lows = vec![];
            if raw[i] > lc.min {
                lows.push(("1", raw[i] - 1));
                if raw[i] - 1 != lc.min {
                    lows.push(("large", lc.min));
                }
            }
            for (d, v) in lows {
                let mut r = raw.clone();
                r[i + 1] = v;
                muts.push((format!("lower-next d={d}"), i, pair_class(i, n), r));
            }
            for (d, v) in [("1", raw[i + 1] + 1), ("large", top)] {
                let mut r = raw.clone();
                r[i] = v;
                muts.push((format!("raise-this d={d}"), i, pair_class(i, n), r));
            }
        }
        for (d, v) in [("1", raw[n] + 1), ("large", top)] {
            let mut r = raw.clone();
            r[n] = v;
            muts.push((format!("last-beyond-data d={d}"), n - 1, "last", r));
        }
        if raw[1] > lc.min {
            let mut r = raw.clone();
            r[0] = lc.min + 1;
            muts.push(("first-non-zero".into(), 0, "first", r));
        }
        for (mname, i, cls, stored) in &muts {
            let (i, n) = (*i, n);
            // the mutated base font
            let mut tables = base_tables.clone();
            {
                let t = &mut tables.iter_mut().find(|(t, _)| *t == lc.tag).unwrap().1;
                for (k, v) in stored.iter().enumerate() {
                    let at = lc.start + k * lc.width;
                    let be = v.to_be_bytes();
                    t[at..at + lc.width].copy_from_slice(&be[4 - lc.width..]);
                }
            }
            let font = rebuild(&tables);
            // harness interpretation of the malformed base: glyph data region and per-glyph ranges
            let data: Vec<u8> = match lc.tag {
                LOCA => tables.iter().find(|(t, _)| *t == GLYF).unwrap().1.clone(),
                GVAR => {
                    let t = &tables.iter().find(|(t, _)| *t == GVAR).unwrap().1;
                    t[be32(t, 16).unwrap() as usize..].to_vec()
                }
                _ => {
                    let t = &tables.iter().find(|(t, _)| *t == lc.tag).unwrap().1;
                    t[lc.start + (n + 1) * lc.width..].to_vec()
                }
            };
            let pos = |v: u32| -> Option<u64> {
                if v < lc.min {
                    None
                } else {
                    Some((v - lc.min) as u64 * lc.unit as u64)
                }
            };
            let glyph: Vec<Option<Vec<u8>>> = (0..n)
                .map(|g| {
                    let (a, b) = (pos(stored[g])?, pos(stored[g + 1])?);
                    if a <= b && b <= data.len() as u64 {
                        Some(data[a as usize..b as usize].to_vec())
                    } else {
                        None
                    }
                })
                .collect();
            let ascending = stored.windows(2).all(|w| w[0] <= w[1]);
            let malformed_base = glyph.iter().any(|g| g.is_none()) || !ascending;
            // every single glyph as the patched one: directly before / after the pair, glyph i itself, the last
            // glyph, and the glyphs further away (the retained run next to the pair then starts earlier / later)
            for g in 0..n {
                let pname = if g == i {
                    "same"
                } else if g + 1 == i {
                    "before"
                } else if g == i + 1 {
                    "after"
                } else if g < i {
                    "far-before"
                } else {
                    "far-after"
                };
                let sc = Scenario {
                    patches: vec![gk_patch(0, &[g as u32], &tabs, false, COMPAT_IFT)],
                    ..probe.clone()
                };
                let built = build_scenario(&sc, &[1]);
                let case = json!({"kind":"unordered","base": format!("{kind:?}"),"mutation": mname,"pair_index": i,
                    "stored_offsets": stored,"patched_gid": g,"patch_position": pname,"font_hex": hex(&font)});
                let mut map: HashMap<String, UriStatus> = HashMap::new();
                map.insert(built.uris[0].clone(), UriStatus::Pending(sc.patches[0].bytes()));
                let before = snapshot(&map);
                let sd = SubsetDefinition::codepoints(built.cps.iter().copied().collect());
                let decoder = Decoder::new(None);
                let r = guard(|| {
                    let fr = FontRef::new(&font).map_err(|e| format!("FontRef: {e}"))?;
                    let grp = PatchGroup::select_next_patches(fr, &sd).map_err(|e| format!("select: {e}"))?;
                    Ok::<_, String>(grp.apply_next_patches_with_decoder(&mut map, &decoder))
                });
                n_cases += 1;
                l.evals += 1;
                l.applies += 1;
                let after = snapshot(&map);
                let tag = format!("{kind:?} pair={cls} {mname} patched={pname}");
                let dg = digest_of(&("unordered", format!("{kind:?}"), *cls, mname, pname, matches!(&r, Ok(Ok(Ok(_))))));
                l.all.insert(dg);
                match r {
                    Err(p) => ctx.run.violation(
                        &format!("unordered offsets: apply panics: {} at {}", p.kind(), p.site()),
                        &format!("{tag}: {}", p.message),
                        case,
                    ),
                    Ok(Err(e)) => {
                        if mname == "control" {
                            ctx.run.violation(&format!("unordered offsets control: selection fails on the well-formed base: {kind:?}"), &e, case);
                        } else {
                            n_err += 1;
                            *err_classes.entry(format!("{kind:?}: select/parse")).or_default() += 1;
                        }
                    }
                    Ok(Ok(Err(e))) => {
                        n_err += 1;
                        *err_classes.entry(format!("{kind:?}: {}", err_class(&e))).or_default() += 1;
                        if after != before {
                            ctx.run.violation(
                                &format!("unordered offsets: UriStatus map modified although the call failed: {kind:?}"),
                                &format!("{tag}: {e:?}"),
                                case.clone(),
                            );
                        }
                        if !malformed_base {
                            ctx.run.violation(
                                &format!("unordered offsets control: apply fails ({}) on a base whose offsets are ascending and in bounds: {kind:?} {mname}", err_class(&e)),
                                &format!("{tag}: {e:?}"),
                                case,
                            );
                        }
                    }
                    Ok(Ok(Ok(new_font))) => {
                        n_ok += 1;
                        if malformed_base {
                            n_ok_malformed_base += 1;
                            ok_on_malformed.push(tag.clone());
                        }
                        l.nontrivial.insert(dg);
                        // a glyph that must be retained has no well-formed data in the base: "unchanged" cannot hold
                        if let Some(bad) = (0..n).find(|x| *x != g && glyph[*x].is_none()) {
                            ctx.run.violation(
                                &format!("unordered offsets accepted: {kind:?} pair={cls} {mname} patched={pname}: a retained glyph has no well-formed data in the base"),
                                &format!("retained gid {bad} has stored range {}..{} (data length {}); stored offsets {:?}; the call returned Ok", stored[bad], stored[bad + 1], data.len(), stored),
                                case,
                            );
                            continue;
                        }
                        let mut want = built.reference.clone();
                        {
                            let slot = match lc.tag {
                                LOCA => want.glyf.as_mut(),
                                GVAR => want.gvar.as_mut(),
                                CFF => want.cff.as_mut(),
                                _ => want.cff2.as_mut(),
                            }
                            .expect("table in reference");
                            for x in 0..n {
                                if let Some(d) = &glyph[x] {
                                    slot.slices[x] = d.clone();
                                }
                            }
                        }
                        let mut compat = HashMap::new();
                        compat.insert(IFT, COMPAT_IFT);
                        if let Err(e) = ref_apply_gk(&mut want, &[&sc.patches[0]], &[(IFT, built.bits[0])], &compat, &[IFT]) {
                            ctx.run.machinery_error(&format!("unordered_offsets: reference fails {e:?} for {tag}"));
                            continue;
                        }
                        if let Err((class, detail)) = compare(&new_font, &want) {
                            let ident = if malformed_base {
                                format!("unordered offsets accepted: {kind:?} pair={cls} {mname} patched={pname}: result {class}")
                            } else {
                                format!("unordered offsets control: result {class}: {kind:?} {mname}")
                            };
                            ctx.run.violation(&ident, &detail, case);
                        }
                        if after == before {
                            ctx.run.violation(
                                &format!("unordered offsets: UriStatus map not updated although the call succeeded: {kind:?}"),
                                &tag,
                                json!({"kind":"unordered"}),
                            );
                        }
                    }
                }
            }
        }
    }
    ctx.run.count("unordered_offsets_cases", n_cases);
    ctx.run.count("unordered_offsets_rejected", n_err);
    ctx.run.count("unordered_offsets_applied_ok", n_ok);
    ctx.run.count("unordered_offsets_applied_ok_on_a_malformed_base", n_ok_malformed_base);
    ctx.run.extra("unordered_offsets_error_classes", json!(err_classes));
    ctx.run.extra("unordered_offsets_ok_on_a_malformed_base_all_retained_glyphs_well_formed", json!(ok_on_malformed));
    ctx.merge(l);
}
