//! Hand-assembled brotli streams (RFC 7932) that need no compressor:
//!  * `stored(data)`: WBITS header, uncompressed meta-blocks (ISLAST=0, MNIBBLES, MLEN-1,
//!    ISUNCOMPRESSED=1, zero padding to the byte boundary, raw bytes), final empty last meta-block;
//!  * `dict_copy_then_stored(copy_len, distance, data)`: one *compressed* meta-block made of
//!    single-symbol prefix codes whose only command copies `copy_len` (2..=9) bytes from `distance`
//!    (1..=15) bytes back at output position 0 - i.e. out of an attached raw prefix dictionary -
//!    followed by stored meta-blocks. Its output is dict[len-distance..][..copy_len] ++ data, which
//!    makes the use of the shared dictionary observable.
//! Both are gated against the real decoder (`gate`) before they are used in any verdict.

pub struct BitW {
    out: Vec<u8>,
    cur: u32,
    n: u32,
}

impl BitW {
    pub fn new() -> Self {
        BitW { out: vec![], cur: 0, n: 0 }
    }
    /// append the low `n` bits of `v`, least significant first
    pub fn bits(&mut self, v: u32, n: u32) {
        for i in 0..n {
            self.cur |= ((v >> i) & 1) << self.n;
            self.n += 1;
            if self.n == 8 {
                self.out.push(self.cur as u8);
                self.cur = 0;
                self.n = 0;
            }
        }
    }
    pub fn align(&mut self) {
        if self.n > 0 {
            self.out.push(self.cur as u8);
            self.cur = 0;
            self.n = 0;
        }
    }
    pub fn raw(&mut self, b: &[u8]) {
        assert_eq!(self.n, 0);
        self.out.extend_from_slice(b);
    }
    pub fn finish(mut self) -> Vec<u8> {
        self.align();
        self.out
    }
}

fn wbits(w: &mut BitW, bits: u32) {
    match bits {
        16 => w.bits(0, 1),
        18..=24 => {
            w.bits(1, 1);
            w.bits(bits - 17, 3);
        }
        _ => panic!("unsupported WBITS"),
    }
}

fn mlen(w: &mut BitW, len: usize) {
    // MNIBBLES code (2 bits): 0 -> 4 nibbles, 1 -> 5, 2 -> 6; minimal number of nibbles
    let v = (len - 1) as u32;
    let (code, nib) = if v < (1 << 16) {
        (0, 4)
    } else if v < (1 << 20) {
        (1, 5)
    } else {
        (2, 6)
    };
    w.bits(code, 2);
    w.bits(v, nib * 4);
}

fn stored_blocks(w: &mut BitW, data: &[u8], chunk: usize) {
    for c in data.chunks(chunk.max(1)) {
        w.bits(0, 1); // ISLAST
        mlen(w, c.len());
        w.bits(1, 1); // ISUNCOMPRESSED
        w.align();
        w.raw(c);
    }
}

fn last_empty(w: &mut BitW) {
    w.bits(1, 1); // ISLAST
    w.bits(1, 1); // ISLASTEMPTY
}

pub fn stored(data: &[u8], window_bits: u32, chunk: usize) -> Vec<u8> {
    let mut w = BitW::new();
    wbits(&mut w, window_bits);
    stored_blocks(&mut w, data, chunk);
    last_empty(&mut w);
    w.finish()
}

pub fn dict_copy_then_stored(copy_len: usize, distance: u32, data: &[u8], window_bits: u32) -> Vec<u8> {
    assert!((2..=9).contains(&copy_len) && (copy_len as u32..=15).contains(&distance));
    let mut w = BitW::new();
    wbits(&mut w, window_bits);
    // ---- compressed meta-block producing copy_len bytes
    w.bits(0, 1); // ISLAST
    mlen(&mut w, copy_len);
    w.bits(0, 1); // ISUNCOMPRESSED
    w.bits(0, 1); // NBLTYPESL = 1
    w.bits(0, 1); // NBLTYPESI = 1
    w.bits(0, 1); // NBLTYPESD = 1
    w.bits(0, 2); // NPOSTFIX = 0
    w.bits(15, 4); // NDIRECT = 15
    w.bits(0, 2); // context mode of literal block type 0
    w.bits(0, 1); // NTREESL = 1
    w.bits(0, 1); // NTREESD = 1
    let simple = |w: &mut BitW, symbol: u32, alphabet_bits: u32| {
        w.bits(1, 2); // simple prefix code
        w.bits(0, 2); // NSYM - 1
        w.bits(symbol, alphabet_bits);
    };
    simple(&mut w, 0, 8); // literals (never used)
    simple(&mut w, 128 + (copy_len as u32 - 2), 10); // insert length 0, copy length copy_len, explicit distance
    simple(&mut w, 16 + distance - 1, 7); // direct distance code (alphabet 16 + 15 + 48 = 79 symbols)
    // the single command costs no bits: every prefix code has one symbol, no extra bits
    // ---- the rest as stored meta-blocks
    stored_blocks(&mut w, data, 1 << 16);
    last_empty(&mut w);
    w.finish()
}

/// Err(description) when the real decoder does not decode the hand-made streams to the intended bytes
pub enum Gate {
    Ok(u64),
    /// the decoder fails the repository's own pinned streams: a verdict about the decoder
    FixtureFails(String),
    /// the fixtures decode but a hand-made stream does not: the harness encoder is wrong
    HandMadeFails(String),
}

// shared-brotli-patch-decoder/src/lib.rs tests: TARGET compressed with / without the dictionary BASE
const FIXTURE_TARGET: &[u8] = b"hijkabcdeflmnohijkabcdeflmno\n";
const FIXTURE_BASE: &[u8] = b"abcdef\n";
const FIXTURE_SHARED_DICT_PATCH: [u8; 23] = [
    0xa1, 0xe0, 0x00, 0xc0, 0x2f, 0x3a, 0x38, 0xf4, 0x01, 0xd1, 0xaf, 0x54, 0x84, 0x14, 0x71, 0x2a, 0x80, 0x04, 0xa2, 0x1c, 0xd3, 0xdd, 0x07,
];
const FIXTURE_NO_DICT_PATCH: [u8; 26] = [
    0xa1, 0xe0, 0x00, 0xc0, 0x2f, 0x96, 0x1c, 0xf3, 0x03, 0xb1, 0xcf, 0x45, 0x95, 0x22, 0x4a, 0xc5, 0x03, 0x21, 0xb2, 0x9a, 0x58, 0xd4, 0x7c, 0xf6,
    0x1e, 0x00,
];

pub fn gate() -> Gate {
    use shared_brotli_patch_decoder::{BuiltInBrotliDecoder, SharedBrotliDecoder};
    let a = BuiltInBrotliDecoder.decode(&FIXTURE_SHARED_DICT_PATCH, Some(FIXTURE_BASE), FIXTURE_TARGET.len());
    let b = BuiltInBrotliDecoder.decode(&FIXTURE_NO_DICT_PATCH, None, FIXTURE_TARGET.len());
    if a.as_deref() != Ok(FIXTURE_TARGET) || b.as_deref() != Ok(FIXTURE_TARGET) {
        return Gate::FixtureFails(format!("with dictionary: {:?}; without: {:?}", a.map(|v| v.len()), b.map(|v| v.len())));
    }
    match gate_hand_made() {
        Ok(n) => Gate::Ok(n + 2),
        Err(e) => Gate::HandMadeFails(e),
    }
}

fn gate_hand_made() -> Result<u64, String> {
    use shared_brotli_patch_decoder::{BuiltInBrotliDecoder, SharedBrotliDecoder};
    let mut n = 0;
    let datas: Vec<Vec<u8>> = vec![
        vec![],
        vec![7],
        b"hello brotli".to_vec(),
        (0..70_000u32).map(|i| (i * 7) as u8).collect(),
        (0..140_000u32).map(|i| (i * 13 + 1) as u8).collect(),
    ];
    for d in &datas {
        for (wb, chunk) in [(16u32, 1usize << 16), (22, 1 << 24), (24, 5), (18, 1 << 16)] {
            if chunk == 5 && d.len() > 100 {
                continue;
            }
            let s = stored(d, wb, chunk);
            match BuiltInBrotliDecoder.decode(&s, None, d.len()) {
                Ok(out) if &out == d => n += 1,
                other => return Err(format!("stored stream (len {}, wbits {wb}) decodes to {:?}", d.len(), other.map(|v| v.len()))),
            }
            // a dictionary must not matter for stored blocks
            match BuiltInBrotliDecoder.decode(&s, Some(b"some dictionary"), d.len()) {
                Ok(out) if &out == d => n += 1,
                other => return Err(format!("stored stream with dictionary decodes to {:?}", other.map(|v| v.len()))),
            }
        }
    }
    let dict = b"0123456789abcdefghij";
    for copy_len in 2..=9usize {
        for distance in [2u32, 7, 9, 15] {
            // a copy out of the attached dictionary may not run past its end
            if (distance as usize) < copy_len {
                continue;
            }
            let tail = b"-tail".to_vec();
            let s = dict_copy_then_stored(copy_len, distance, &tail, 16);
            let start = dict.len() - distance as usize;
            let mut want = dict[start..start + copy_len].to_vec();
            want.extend_from_slice(&tail);
            match BuiltInBrotliDecoder.decode(&s, Some(dict), want.len()) {
                Ok(out) if out == want => n += 1,
                other => {
                    return Err(format!(
                        "dictionary copy stream (copy {copy_len} from {distance}) decodes to {:?}, want {:?}",
                        other.map(|v| String::from_utf8_lossy(&v).to_string()),
                        String::from_utf8_lossy(&want)
                    ))
                }
            }
        }
    }
    Ok(n)
}
