#![allow(dead_code)]
//! Harness-side encoders for IFT patches (glyph keyed with an *uncompressed* body, table keyed with
//! raw streams). Used with pass-through decoders: the decoder is an injected dependency of the API.

use crate::model::{TagB, W};

/// Glyph keyed patch: `gids` ascending; `tables` ascending tags; `data[t][g]` = bytes for table t, glyph g.
pub fn glyph_keyed_patch(
    compat: [u32; 4],
    wide_gids: bool,
    gids: &[u32],
    tables: &[TagB],
    data: &[Vec<Vec<u8>>],
    max_len_delta: i64,
) -> Vec<u8> {
    // body = GlyphPatches
    let mut b = W::default();
    b.u32(gids.len() as u32);
    b.u8(tables.len() as u8);
    for g in gids {
        if wide_gids {
            b.u24(*g)
        } else {
            b.u16(*g as u16)
        }
    }
    for t in tables {
        b.bytes(t);
    }
    let n_off = gids.len() * tables.len() + 1;
    let data_start = b.len() + 4 * n_off;
    let mut off = data_start as u32;
    let mut blob: Vec<u8> = vec![];
    for t in 0..tables.len() {
        for g in 0..gids.len() {
            b.u32(off);
            blob.extend_from_slice(&data[t][g]);
            off += data[t][g].len() as u32;
        }
    }
    b.u32(off);
    b.bytes(&blob);
    let body = b.0;
    glyph_keyed_wrap(compat, wide_gids, &body, (body.len() as i64 + max_len_delta).max(0) as u32)
}

/// the uncompressed GlyphPatches body alone
pub fn glyph_keyed_body(wide_gids: bool, gids: &[u32], tables: &[TagB], data: &[Vec<Vec<u8>>]) -> Vec<u8> {
    let p = glyph_keyed_patch([0; 4], wide_gids, gids, tables, data, 0);
    p[29..].to_vec()
}

/// glyph keyed patch header + an already encoded stream
pub fn glyph_keyed_wrap(compat: [u32; 4], wide_gids: bool, stream: &[u8], max_uncompressed_length: u32) -> Vec<u8> {
    let mut w = W::default();
    w.bytes(b"ifgk");
    w.u32(0);
    w.u8(wide_gids as u8);
    for c in compat {
        w.u32(c);
    }
    w.u32(max_uncompressed_length);
    w.bytes(stream);
    w.0
}

#[derive(Clone, Debug)]
pub enum TableOp {
    /// flags = REPLACE_TABLE; stream = new table bytes
    Replace(Vec<u8>),
    /// flags = 0; stream = "diff" interpreted by the decoder together with the base table as dictionary
    Diff(Vec<u8>),
    /// flags = DROP_TABLE
    Drop,
    /// explicit flags byte and stream
    Raw(u8, Vec<u8>),
}

pub fn table_keyed_patch(compat: [u32; 4], ops: &[(TagB, TableOp)], max_len_delta: i64) -> Vec<u8> {
    table_keyed_patch_with(compat, ops, &|stream_len| (stream_len as i64 + max_len_delta).max(0) as u32)
}

/// `max_len(i, stream length)` supplies max_uncompressed_length of op i
pub fn table_keyed_patch_lens(compat: [u32; 4], ops: &[(TagB, TableOp)], lens: &[u32]) -> Vec<u8> {
    let idx = std::cell::Cell::new(0usize);
    table_keyed_patch_with(compat, ops, &|_| {
        let i = idx.get();
        idx.set(i + 1);
        lens[i]
    })
}

fn table_keyed_patch_with(compat: [u32; 4], ops: &[(TagB, TableOp)], max_len: &dyn Fn(usize) -> u32) -> Vec<u8> {
    let mut w = W::default();
    w.bytes(b"iftk");
    w.u32(0);
    for c in compat {
        w.u32(c);
    }
    w.u16(ops.len() as u16);
    let offs_at = w.len();
    for _ in 0..=ops.len() {
        w.u32(0);
    }
    for (i, (tag, op)) in ops.iter().enumerate() {
        let at = w.len() as u32;
        w.patch_u32(offs_at + 4 * i, at);
        w.bytes(tag);
        let (flags, stream): (u8, &[u8]) = match op {
            TableOp::Replace(b) => (1, b),
            TableOp::Diff(b) => (0, b),
            TableOp::Drop => (2, &[]),
            TableOp::Raw(f, b) => (*f, b),
        };
        w.u8(flags);
        w.u32(max_len(stream.len()));
        w.bytes(stream);
    }
    let end = w.len() as u32;
    w.patch_u32(offs_at + 4 * ops.len(), end);
    w.0
}
