//! C10 — glyph variation deltas survive encoding, IUP optimisation and application.
//!
//! Bounded exhaustive exploration of `write_fonts::tables::gvar::iup::iup_delta_optimize`, the gvar
//! builder (`GlyphDeltas` / `GlyphVariations` / `Gvar::new` / `dump_table`), the read-fonts gvar reader
//! and skrifa's application of deltas. See DESIGN.md §3 C10.
//!
//!  (a) optimiser: every closed contour of n points (+4 phantoms), per point (x, dx) from
//!      {0,1,2,10}×{-2..2} with y / dy rotated copies (family a1, n <= 5 quick, 6 thorough), with
//!      independent dx, dy (a2, n <= 3 / 4) and with independent x, y, dx, dy (a3, n <= 2 / 3);
//!      tolerances {0, 0.5, 1, 2.5}; two-contour glyphs from all pairs of the a1 n=2 (and n=2 × n=3) sets.
//!      Oracle: spec-text IUP inference in exact rationals over the retained deltas.
//!  (b) encoding: (b1) the optimiser's own output for every a1 case with n <= 3 under 4 tents (n = 4 under
//!      one), (b2) structured run families (point counts around 63/64/65, 127..130, 255..257, 520; 7 delta
//!      patterns; 11 required/optional masks incl. point-number gaps 255/256/257; 4 tents incl. an
//!      intermediate region; axis counts 1, 2; one or two glyphs sharing tuples and point sets; one or two
//!      regions per glyph), (b3) data sizes swept byte by byte across the short/long offset switch.
//!      Oracle: read-back tuples equal the input regions; explicit deltas + exact inference reproduce
//!      required deltas exactly and optional ones within the declared tolerance.
//!  (c) application: synthesised variable fonts (1 and 2 axes, 1..3 regions, dense and sparse tuples)
//!      drawn unscaled through `OutlineGlyph::draw` at every boundary location; oracle: default +
//!      Σ exact scalar · exact (inferred) delta, rounded half up, with an explicit fixed-point error bound.

use font_types::{F2Dot14, GlyphId, Tag};
use kurbo::{Point as KPoint, Vec2};
use rayon::prelude::*;
use read_fonts::tables::gvar as rgvar;
use read_fonts::{FontData, FontRead, FontRef};
use serde_json::{json, Value};
use skrifa::instance::{LocationRef, Size};
use skrifa::outline::{DrawSettings, OutlinePen};
use skrifa::MetadataProvider;
use std::collections::HashSet;
use vcore::*;
use font_types::GlyphId16;
use write_fonts::tables::glyf::{
    Anchor, Bbox, Component, ComponentFlags, CompositeGlyph, Contour, GlyfLocaBuilder, Glyph, SimpleGlyph, Transform,
};
use write_fonts::tables::gvar::iup::iup_delta_optimize;
use write_fonts::tables::gvar::{GlyphDelta, GlyphDeltas, GlyphVariations, Gvar, Tent};
use write_fonts::tables::head::Head;
use write_fonts::tables::hhea::Hhea;
use write_fonts::tables::hmtx::{Hmtx, LongMetric};
use write_fonts::tables::maxp::Maxp;
use write_fonts::{dump_table, FontBuilder};

mod audit;

fn main() {
    main_for("C10", body)
}

// ---------------------------------------------------------------------------
// exact rationals (small; i128 with gcd reduction)
// ---------------------------------------------------------------------------

#[derive(Clone, Copy, Debug, PartialEq)]
struct R {
    n: i128,
    d: i128, // > 0
}
fn gcd(a: i128, b: i128) -> i128 {
    let (mut a, mut b) = (a.abs(), b.abs());
    while b != 0 {
        (a, b) = (b, a % b);
    }
    a.max(1)
}
impl R {
    fn new(n: i128, d: i128) -> R {
        assert!(d != 0);
        let (n, d) = if d < 0 { (-n, -d) } else { (n, d) };
        let g = gcd(n, d);
        R { n: n / g, d: d / g }
    }
    fn int(n: i128) -> R {
        R { n, d: 1 }
    }
    fn add(self, o: R) -> R {
        R::new(self.n * o.d + o.n * self.d, self.d * o.d)
    }
    fn mul(self, o: R) -> R {
        R::new(self.n * o.n, self.d * o.d)
    }
    fn sub(self, o: R) -> R {
        self.add(R { n: -o.n, d: o.d })
    }
    fn to_f64(self) -> f64 {
        self.n as f64 / self.d as f64
    }
}

// ---------------------------------------------------------------------------
// spec-text IUP inference, exact
// ---------------------------------------------------------------------------

/// "Inferred deltas for un-referenced point numbers" (OpenType gvar), per axis, exact.
/// `coords`: every point incl. the 4 phantoms; `ends`: inclusive end index of each real contour;
/// `explicit[i]`: the delta carried by the table for point i, if any.
/// Points outside any contour (phantoms) and contours without a referenced point infer zero.
fn infer(coords: &[(i64, i64)], ends: &[usize], explicit: &[Option<(i64, i64)>]) -> Vec<(R, R)> {
    let n = coords.len();
    let mut out: Vec<(R, R)> = (0..n)
        .map(|i| match explicit[i] {
            Some((x, y)) => (R::int(x as i128), R::int(y as i128)),
            None => (R::int(0), R::int(0)),
        })
        .collect();
    let mut start = 0usize;
    for &end in ends {
        let idx: Vec<usize> = (start..=end).collect();
        start = end + 1;
        let refd: Vec<usize> = idx.iter().copied().filter(|i| explicit[*i].is_some()).collect();
        if refd.is_empty() {
            continue;
        }
        for &t in &idx {
            if explicit[t].is_some() {
                continue;
            }
            // nearest referenced point before / after in point-number order, wrapping in the contour
            let prec = refd.iter().rev().copied().find(|r| *r < t).unwrap_or(*refd.last().unwrap());
            let foll = refd.iter().copied().find(|r| *r > t).unwrap_or(refd[0]);
            let one = |c: i64, pc: i64, fc: i64, pd: i64, fd: i64| -> R {
                if pc == fc {
                    if pd == fd {
                        R::int(pd as i128)
                    } else {
                        R::int(0)
                    }
                } else {
                    let (c1, d1, c2, d2) = if pc < fc { (pc, pd, fc, fd) } else { (fc, fd, pc, pd) };
                    if c <= c1 {
                        R::int(d1 as i128)
                    } else if c >= c2 {
                        R::int(d2 as i128)
                    } else {
                        // d1 + (c - c1) (d2 - d1) / (c2 - c1)
                        R::int(d1 as i128)
                            .add(R::new((c - c1) as i128 * (d2 - d1) as i128, (c2 - c1) as i128))
                    }
                }
            };
            let (pd, fd) = (explicit[prec].unwrap(), explicit[foll].unwrap());
            out[t] = (
                one(coords[t].0, coords[prec].0, coords[foll].0, pd.0, fd.0),
                one(coords[t].1, coords[prec].1, coords[foll].1, pd.1, fd.1),
            );
        }
    }
    out
}

/// err² <= tol² exactly; tol = tol2 / 2 (tolerances are multiples of one half)
fn within(inferred: (R, R), want: (i64, i64), tol2: i64) -> bool {
    let ex = inferred.0.sub(R::int(want.0 as i128));
    let ey = inferred.1.sub(R::int(want.1 as i128));
    // 4 (ex.n² ey.d² + ey.n² ex.d²) <= tol2² ex.d² ey.d²
    let lhs = 4 * (ex.n * ex.n * ey.d * ey.d + ey.n * ey.n * ex.d * ex.d);
    let rhs = (tol2 as i128) * (tol2 as i128) * ex.d * ex.d * ey.d * ey.d;
    lhs <= rhs
}

// ---------------------------------------------------------------------------

struct Local {
    all: HashSet<u64>,
    nontrivial: HashSet<u64>,
    evals: u64,
    trans: u64,
    optional: u64,
    deltas: u64,
    sparse: u64,
    dense: u64,
    long_offsets: u64,
    shared_points: u64,
    halfway: u64,
    hb_unshifted: u64,
}
impl Local {
    fn new() -> Self {
        Local {
            all: HashSet::new(),
            nontrivial: HashSet::new(),
            evals: 0,
            trans: 0,
            optional: 0,
            deltas: 0,
            sparse: 0,
            dense: 0,
            long_offsets: 0,
            shared_points: 0,
            halfway: 0,
            hb_unshifted: 0,
        }
    }
    fn merge(self, run: &Run, p: &str) {
        run.observe_many(&self.all, &self.nontrivial);
        run.evals(self.evals);
        run.trans(self.trans);
        run.count(&format!("{p}.cases"), self.evals);
        if self.deltas > 0 {
            run.count(&format!("{p}.deltas"), self.deltas);
            run.count(&format!("{p}.deltas_marked_optional"), self.optional);
        }
        if self.sparse + self.dense > 0 {
            run.count(&format!("{p}.tuples_sparse"), self.sparse);
            run.count(&format!("{p}.tuples_dense"), self.dense);
            run.count(&format!("{p}.tables_with_long_offsets"), self.long_offsets);
            run.count(&format!("{p}.tuples_using_shared_points"), self.shared_points);
        }
        if self.hb_unshifted > 0 {
            run.count(&format!("{p}.harfbuzz_style_draws_not_relative_to_varied_origin"), self.hb_unshifted);
        }
        if self.halfway > 0 {
            run.count(&format!("{p}.coordinates_within_error_bound_of_a_half"), self.halfway);
        }
    }
}

// ---------------------------------------------------------------------------
// (a) optimiser
// ---------------------------------------------------------------------------

const XS: [i64; 4] = [0, 1, 2, 10];
const DS: [i64; 5] = [-2, -1, 0, 1, 2];
const TOLS2: [i64; 4] = [0, 1, 2, 5]; // tolerance × 2

#[derive(Clone, Debug)]
struct IupCase {
    coords: Vec<(i64, i64)>, // real points only
    deltas: Vec<(i64, i64)>, // real points + 4 phantoms
    ends: Vec<usize>,
    tol2: i64,
}

fn iup_json(c: &IupCase) -> Value {
    json!({"kind":"iup","coords":c.coords,"deltas":c.deltas,"ends":c.ends,"tol2":c.tol2})
}
fn iup_from_json(v: &Value) -> IupCase {
    let pairs = |a: &Value| -> Vec<(i64, i64)> {
        a.as_array()
            .unwrap()
            .iter()
            .map(|p| (p[0].as_i64().unwrap(), p[1].as_i64().unwrap()))
            .collect()
    };
    IupCase {
        coords: pairs(&v["coords"]),
        deltas: pairs(&v["deltas"]),
        ends: v["ends"].as_array().unwrap().iter().map(|e| e.as_u64().unwrap() as usize).collect(),
        tol2: v["tol2"].as_i64().unwrap(),
    }
}

/// phantom coordinates used throughout: advance 50, nothing vertical
fn with_phantoms(coords: &[(i64, i64)]) -> Vec<(i64, i64)> {
    let mut v = coords.to_vec();
    v.extend([(0, 0), (50, 0), (0, 0), (0, 0)]);
    v
}

/// Run the real optimiser and check the statement; returns its output for reuse by (b1).
fn check_iup(run: &Run, c: &IupCase, l: &mut Local) -> Option<Vec<GlyphDelta>> {
    l.evals += 1;
    l.trans += 1;
    let all = with_phantoms(&c.coords);
    let kd: Vec<Vec2> = c.deltas.iter().map(|d| Vec2::new(d.0 as f64, d.1 as f64)).collect();
    let kc: Vec<KPoint> = all.iter().map(|p| KPoint::new(p.0 as f64, p.1 as f64)).collect();
    let tol = c.tol2 as f64 / 2.0;
    let ends = c.ends.clone();
    let res = match guard(|| iup_delta_optimize(kd, kc, tol, &ends)) {
        Ok(Ok(r)) => r,
        Ok(Err(e)) => {
            run.violation(
                "iup_delta_optimize returns an error for a well-formed glyph",
                &format!("{e:?}"),
                iup_json(c),
            );
            return None;
        }
        Err(p) => {
            run.violation(
                &format!("iup_delta_optimize panic: {} in {}", p.kind(), p.site()),
                &format!("{} ({}:{})", p.message, p.file, p.line),
                iup_json(c),
            );
            return None;
        }
    };
    if res.len() != all.len() {
        run.violation(
            "iup_delta_optimize returns the wrong number of deltas",
            &format!("{} for {} points", res.len(), all.len()),
            iup_json(c),
        );
        return None;
    }
    let explicit: Vec<Option<(i64, i64)>> =
        res.iter().map(|d| d.required.then_some((d.x as i64, d.y as i64))).collect();
    let inferred = infer(&all, &c.ends, &explicit);
    let mut h = Fnv::new();
    h.u64(c.tol2 as u64);
    let mut nopt = 0;
    for i in 0..all.len() {
        let want = c.deltas[i];
        if res[i].required {
            if (res[i].x as i64, res[i].y as i64) != want {
                run.violation(
                    "iup_delta_optimize changes the value of a retained delta",
                    &format!("point {i}: {:?} vs input {:?}", (res[i].x, res[i].y), want),
                    iup_json(c),
                );
                return None;
            }
        } else {
            nopt += 1;
            if !within(inferred[i], want, c.tol2) {
                let class = if i >= c.coords.len() {
                    "phantom point"
                } else if c.ends.len() > 1 {
                    "point of a multi-contour glyph"
                } else {
                    "contour point"
                };
                run.violation(
                    &format!(
                        "iup_delta_optimize marks a delta optional that inference does not reproduce within tolerance ({class}, tolerance {})",
                        tol
                    ),
                    &format!(
                        "point {i}: input delta {:?}, inferred ({}, {}) from retained {:?}",
                        want,
                        inferred[i].0.to_f64(),
                        inferred[i].1.to_f64(),
                        explicit
                    ),
                    iup_json(c),
                );
                return None;
            }
        }
        // observation = the optimiser's decision per delta (with the delta it was taken on); the
        // coordinates are input, not outcome, and are left out (the merged digest set is then ~20x
        // smaller, which is what made the merge the serial bottleneck of the run)
        h.u64(res[i].required as u64);
        h.i64(want.0);
        h.i64(want.1);
    }
    h.u64(c.coords.len() as u64);
    h.u64(c.ends.len() as u64);
    l.deltas += all.len() as u64;
    l.optional += nopt;
    let d = h.finish();
    l.all.insert(d);
    if nopt > 0 && nopt < all.len() as u64 {
        l.nontrivial.insert(d);
    }
    Some(res)
}

/// family a1: per point (x, dx); y_i = x_{i+1}, dy_i = -dx_{i+2}
fn a1_case(digits: &[usize], tol2: i64) -> IupCase {
    let n = digits.len();
    let xs: Vec<i64> = digits.iter().map(|d| XS[d % 4]).collect();
    let dx: Vec<i64> = digits.iter().map(|d| DS[d / 4]).collect();
    let coords: Vec<(i64, i64)> = (0..n).map(|i| (xs[i], xs[(i + 1) % n])).collect();
    let mut deltas: Vec<(i64, i64)> = (0..n).map(|i| (dx[i], -dx[(i + 2) % n])).collect();
    // phantom deltas: advance delta only, derived from the first point
    deltas.extend([(0, 0), (dx[0], 0), (0, 0), (0, 0)]);
    IupCase { coords, deltas, ends: vec![n - 1], tol2 }
}
/// family a2: per point (x, dx, dy); y rotated
fn a2_case(digits: &[usize], tol2: i64) -> IupCase {
    let n = digits.len();
    let xs: Vec<i64> = digits.iter().map(|d| XS[d % 4]).collect();
    let coords: Vec<(i64, i64)> = (0..n).map(|i| (xs[i], xs[(i + 1) % n])).collect();
    let mut deltas: Vec<(i64, i64)> =
        digits.iter().map(|d| (DS[(d / 4) % 5], DS[d / 20])).collect();
    deltas.extend([(0, 0), (0, 0), (0, 0), (0, 0)]);
    IupCase { coords, deltas, ends: vec![n - 1], tol2 }
}
/// family a3: per point (x, y, dx, dy) all independent
fn a3_case(digits: &[usize], tol2: i64) -> IupCase {
    let n = digits.len();
    let coords: Vec<(i64, i64)> = digits.iter().map(|d| (XS[d % 4], XS[(d / 4) % 4])).collect();
    let mut deltas: Vec<(i64, i64)> =
        digits.iter().map(|d| (DS[(d / 16) % 5], DS[d / 80])).collect();
    deltas.extend([(1, 0), (-1, 0), (0, 2), (0, 0)]);
    IupCase { coords, deltas, ends: vec![n - 1], tol2 }
}

fn next_digits(d: &mut [usize], radix: usize) -> bool {
    for i in (0..d.len()).rev() {
        d[i] += 1;
        if d[i] < radix {
            return true;
        }
        d[i] = 0;
    }
    false
}

fn sweep_family(
    run: &Run,
    name: &str,
    radix: usize,
    n: usize,
    make: &(dyn Fn(&[usize], i64) -> IupCase + Sync),
    skip_tol1_at: Option<usize>,
) {
    // parallel grain: the first one or two digits
    let fixed = n.min(2);
    let grain = radix.pow(fixed as u32);
    let locals: Vec<Local> = (0..grain)
        .into_par_iter()
        .map(|t| {
            let mut l = Local::new();
            let mut digits = vec![0usize; n];
            if fixed == 2 {
                digits[0] = t / radix;
                digits[1] = t % radix;
            } else {
                digits[0] = t;
            }
            loop {
                for tol2 in TOLS2 {
                    // quick: the largest a1 size (n = 5, 3.2 M contours) runs under {0, 0.5, 2.5}; tolerance
                    // 1.0 is covered there for n <= 4 and for n = 5 in thorough (budget: see AUDIT.md)
                    if skip_tol1_at.is_some_and(|m| n == m) && tol2 == 2 {
                        continue;
                    }
                    let c = make(&digits, tol2);
                    check_iup(run, &c, &mut l);
                }
                if n == fixed || !next_digits(&mut digits[fixed..], radix) {
                    break;
                }
            }
            l
        })
        .collect();
    for l in locals {
        l.merge(run, &format!("a.{name}.n{n}"));
    }
}

fn optimiser_families(run: &Run) {
    let (n1, n2, n3) = match run.tier {
        Tier::Quick => (5, 3, 2),
        Tier::Thorough => (6, 4, 3),
    };
    run.bound("a.x_alphabet", json!(XS));
    run.bound("a.delta_alphabet", json!(DS));
    run.bound("a.tolerances", json!([0.0, 0.5, 1.0, 2.5]));
    if run.tier == Tier::Quick {
        run.bound("a.a1_n5_tolerances(quick)", json!([0.0, 0.5, 2.5]));
    }
    run.bound("a.a1_max_points(y,dy rotated copies)", json!(n1));
    run.bound("a.a2_max_points(dx,dy independent)", json!(n2));
    run.bound("a.a3_max_points(x,y,dx,dy independent)", json!(n3));
    for n in 1..=n1 {
        sweep_family(run, "a1", 20, n, &a1_case, (run.tier == Tier::Quick).then_some(5));
    }
    for n in 1..=n2 {
        sweep_family(run, "a2", 100, n, &a2_case, None);
    }
    for n in 1..=n3 {
        sweep_family(run, "a3", 400, n, &a3_case, None);
    }
    // two-contour glyphs: all pairs of a1 n=2 sets; thorough adds n=2 × n=3
    let second_n: &[usize] = match run.tier {
        Tier::Quick => &[2],
        Tier::Thorough => &[2, 3],
    };
    run.bound("a.two_contour_pairs", json!(format!("a1 n=2 × a1 n in {second_n:?}")));
    for &m in second_n {
        let locals: Vec<Local> = (0..400usize)
            .into_par_iter()
            .map(|t| {
                let mut l = Local::new();
                let first = a1_case(&[t / 20, t % 20], 0);
                let mut digits = vec![0usize; m];
                loop {
                    let second = a1_case(&digits, 0);
                    for tol2 in TOLS2 {
                        let mut coords = first.coords.clone();
                        coords.extend(second.coords.iter().map(|p| (p.0 + 20, p.1 - 5)));
                        let mut deltas: Vec<(i64, i64)> = first.deltas[..2].to_vec();
                        deltas.extend_from_slice(&second.deltas[..m]);
                        deltas.extend([(0, 0), (second.deltas[0].0, 0), (0, 0), (0, 0)]);
                        let c = IupCase { coords, deltas, ends: vec![1, 1 + m], tol2 };
                        check_iup(run, &c, &mut l);
                    }
                    if !next_digits(&mut digits, 20) {
                        break;
                    }
                }
                l
            })
            .collect();
        for l in locals {
            l.merge(run, &format!("a.two_contours.2x{m}"));
        }
    }
    run.sample(iup_json(&a1_case(&[3, 9, 14, 0], 1)));
}

/// family a4: half-unit coordinates and deltas. Everything is carried in half units (integers), so the
/// exact oracle applies unchanged: inference is invariant under scaling the coordinates and linear in
/// the deltas. Retained = the *input* value of every delta the optimiser keeps (its decision is made
/// on unrounded values); the returned GlyphDelta must be that value rounded the OpenType way.
fn check_iup_half(run: &Run, coords2: &[(i64, i64)], deltas2: &[(i64, i64)], ends: &[usize], tol2: i64, l: &mut Local) {
    l.evals += 1;
    l.trans += 1;
    let all2: Vec<(i64, i64)> = {
        let mut v = coords2.to_vec();
        v.extend([(0, 0), (100, 0), (0, 0), (0, 0)]);
        v
    };
    let case = || json!({"kind":"iup_half","coords_x2":coords2,"deltas_x2":deltas2,"ends":ends,"tol2":tol2});
    let kd: Vec<Vec2> = deltas2.iter().map(|d| Vec2::new(d.0 as f64 / 2.0, d.1 as f64 / 2.0)).collect();
    let kc: Vec<KPoint> = all2.iter().map(|p| KPoint::new(p.0 as f64 / 2.0, p.1 as f64 / 2.0)).collect();
    let ends_v = ends.to_vec();
    let res = match guard(|| iup_delta_optimize(kd, kc, tol2 as f64 / 2.0, &ends_v)) {
        Ok(Ok(r)) => r,
        Ok(Err(e)) => {
            run.violation("iup_delta_optimize returns an error for a well-formed glyph (half-unit input)", &format!("{e:?}"), case());
            return;
        }
        Err(p) => {
            run.violation(&format!("iup_delta_optimize panic: {} in {}", p.kind(), p.site()), &p.message, case());
            return;
        }
    };
    if res.len() != all2.len() {
        run.violation("iup_delta_optimize returns the wrong number of deltas", "", case());
        return;
    }
    let explicit: Vec<Option<(i64, i64)>> = res.iter().zip(deltas2.iter()).map(|(r, d)| r.required.then_some(*d)).collect();
    let inferred = infer(&all2, ends, &explicit);
    let mut h = Fnv::new();
    h.str("half");
    h.u64(tol2 as u64);
    let mut nopt = 0u64;
    for i in 0..all2.len() {
        // OpenType rounding: floor(v + 0.5); in half units floor((d2 + 1) / 2)
        let rounded = ((deltas2[i].0 + 1).div_euclid(2), (deltas2[i].1 + 1).div_euclid(2));
        if (res[i].x as i64, res[i].y as i64) != rounded {
            run.violation(
                "iup_delta_optimize returns a delta that is not the rounded input (half-unit input)",
                &format!("point {i}: {:?} for input {:?}/2", (res[i].x, res[i].y), deltas2[i]),
                case(),
            );
            return;
        }
        if !res[i].required {
            nopt += 1;
            // exact comparison in half units: tolerance doubles; relative slack 1e-9 as designed
            let ex = inferred[i].0.sub(R::int(deltas2[i].0 as i128));
            let ey = inferred[i].1.sub(R::int(deltas2[i].1 as i128));
            let lhs = 4 * (ex.n * ex.n * ey.d * ey.d + ey.n * ey.n * ex.d * ex.d);
            let t = 2 * tol2 as i128;
            let rhs = t * t * ex.d * ex.d * ey.d * ey.d;
            if lhs * 1_000_000_000 > rhs * 1_000_000_001 {
                run.violation(
                    &format!("iup_delta_optimize marks a delta optional that inference does not reproduce within tolerance (half-unit input, tolerance {})", tol2 as f64 / 2.0),
                    &format!("point {i}: input {:?}/2, inferred ({}, {})/2", deltas2[i], inferred[i].0.to_f64(), inferred[i].1.to_f64()),
                    case(),
                );
                return;
            }
        }
        h.u64(res[i].required as u64);
        h.i64(deltas2[i].0);
        h.i64(deltas2[i].1);
    }
    l.deltas += all2.len() as u64;
    l.optional += nopt;
    let d = h.finish();
    l.all.insert(d);
    if nopt > 0 && nopt < all2.len() as u64 {
        l.nontrivial.insert(d);
    }
}

const XS_HALF2: [i64; 4] = [0, 1, 3, 20]; // 0, 0.5, 1.5, 10 in half units
const DS_HALF2: [i64; 5] = [-2, -1, 0, 1, 2]; // -1, -0.5, 0, 0.5, 1

fn half_unit_family(run: &Run) {
    let nmax = run.tier.pick(4usize, 5usize);
    run.bound("a4.half_unit_x", json!([0.0, 0.5, 1.5, 10.0]));
    run.bound("a4.half_unit_deltas", json!([-1.0, -0.5, 0.0, 0.5, 1.0]));
    run.bound("a4.tolerances", json!([0.0, 0.5, 1.0]));
    run.bound("a4.max_points", json!(nmax));
    for n in 1..=nmax {
        let fixed = n.min(2);
        let grain = 20usize.pow(fixed as u32);
        let locals: Vec<Local> = (0..grain)
            .into_par_iter()
            .map(|t| {
                let mut l = Local::new();
                let mut digits = vec![0usize; n];
                if fixed == 2 {
                    digits[0] = t / 20;
                    digits[1] = t % 20;
                } else {
                    digits[0] = t;
                }
                loop {
                    let xs: Vec<i64> = digits.iter().map(|d| XS_HALF2[d % 4]).collect();
                    let dx: Vec<i64> = digits.iter().map(|d| DS_HALF2[d / 4]).collect();
                    let coords: Vec<(i64, i64)> = (0..n).map(|i| (xs[i], xs[(i + 1) % n])).collect();
                    let mut deltas: Vec<(i64, i64)> = (0..n).map(|i| (dx[i], -dx[(i + 2) % n])).collect();
                    deltas.extend([(0, 0), (dx[0], 0), (0, 0), (0, 0)]);
                    for tol2 in [0i64, 1, 2] {
                        check_iup_half(run, &coords, &deltas, &[n - 1], tol2, &mut l);
                    }
                    if n == fixed || !next_digits(&mut digits[fixed..], 20) {
                        break;
                    }
                }
                l
            })
            .collect();
        for l in locals {
            l.merge(run, &format!("a.a4_half.n{n}"));
        }
    }
}

// ---------------------------------------------------------------------------
// (b) encoding round trip
// ---------------------------------------------------------------------------

/// One region: per axis (peak, optional (start, end)) in F2Dot14 bits
type Region = Vec<(i16, Option<(i16, i16)>)>;

#[derive(Clone, Debug)]
struct TupleSpec {
    region: Region,
    deltas: Vec<(i16, i16, bool)>, // per point incl. phantoms: x, y, required
}

#[derive(Clone, Debug)]
struct GlyphSpec {
    coords: Vec<(i64, i64)>, // real points
    ends: Vec<usize>,
    tuples: Vec<TupleSpec>,
    tol2: i64, // tolerance ×2 under which optional deltas were declared
}

fn region_json(r: &Region) -> Value {
    json!(r
        .iter()
        .map(|(p, i)| json!({"peak":p,"inter":i.map(|(a,b)| vec![a,b])}))
        .collect::<Vec<_>>())
}
fn region_from_json(v: &Value) -> Region {
    v.as_array()
        .unwrap()
        .iter()
        .map(|a| {
            (
                a["peak"].as_i64().unwrap() as i16,
                a["inter"]
                    .as_array()
                    .map(|x| (x[0].as_i64().unwrap() as i16, x[1].as_i64().unwrap() as i16)),
            )
        })
        .collect()
}
fn glyph_json(g: &GlyphSpec) -> Value {
    json!({
        "coords": g.coords, "ends": g.ends, "tol2": g.tol2,
        "tuples": g.tuples.iter().map(|t| json!({
            "region": region_json(&t.region),
            "deltas": t.deltas.iter().map(|d| json!([d.0,d.1,d.2 as u8])).collect::<Vec<_>>(),
        })).collect::<Vec<_>>(),
    })
}
fn glyph_from_json(v: &Value) -> GlyphSpec {
    GlyphSpec {
        coords: v["coords"]
            .as_array()
            .unwrap()
            .iter()
            .map(|p| (p[0].as_i64().unwrap(), p[1].as_i64().unwrap()))
            .collect(),
        ends: v["ends"].as_array().unwrap().iter().map(|e| e.as_u64().unwrap() as usize).collect(),
        tol2: v["tol2"].as_i64().unwrap(),
        tuples: v["tuples"]
            .as_array()
            .unwrap()
            .iter()
            .map(|t| TupleSpec {
                region: region_from_json(&t["region"]),
                deltas: t["deltas"]
                    .as_array()
                    .unwrap()
                    .iter()
                    .map(|d| {
                        (
                            d[0].as_i64().unwrap() as i16,
                            d[1].as_i64().unwrap() as i16,
                            d[2].as_i64().unwrap() != 0,
                        )
                    })
                    .collect(),
            })
            .collect(),
    }
}

fn tents_of(r: &Region) -> Vec<Tent> {
    r.iter()
        .map(|(p, i)| {
            Tent::new(
                F2Dot14::from_bits(*p),
                i.map(|(a, b)| (F2Dot14::from_bits(a), F2Dot14::from_bits(b))),
            )
        })
        .collect()
}

/// effective (start, peak, end) per axis
fn effective(r: &Region) -> Vec<(i16, i16, i16)> {
    r.iter()
        .map(|(p, i)| match i {
            Some((a, b)) => (*a, *p, *b),
            None => ((*p).min(0), *p, (*p).max(0)),
        })
        .collect()
}

fn build_gvar(glyphs: &[GlyphSpec], axis_count: u16) -> Result<Vec<u8>, String> {
    let vars: Vec<GlyphVariations> = glyphs
        .iter()
        .enumerate()
        .map(|(gid, g)| {
            GlyphVariations::new(
                GlyphId::new(gid as u32),
                g.tuples
                    .iter()
                    .map(|t| {
                        GlyphDeltas::new(
                            tents_of(&t.region),
                            t.deltas.iter().map(|d| GlyphDelta::new(d.0, d.1, d.2)).collect(),
                        )
                    })
                    .collect(),
            )
        })
        .collect();
    let gvar = Gvar::new(vars, axis_count).map_err(|e| format!("Gvar::new: {e}"))?;
    dump_table(&gvar).map_err(|e| format!("dump_table: {e}"))
}

/// Decoded tuple: region + explicit deltas per point
struct Decoded {
    eff: Vec<(i16, i16, i16)>,
    explicit: Vec<Option<(i64, i64)>>,
    all_points: bool,
}

fn decode_glyph(
    gvar: &rgvar::Gvar,
    gid: u32,
    npoints: usize,
    axis_count: usize,
) -> Result<Vec<Decoded>, String> {
    let Some(data) = gvar
        .glyph_variation_data(GlyphId::new(gid))
        .map_err(|e| format!("glyph_variation_data: {e}"))?
    else {
        return Ok(vec![]);
    };
    let mut out = vec![];
    for t in data.tuples() {
        let peak = t.peak();
        if peak.len() != axis_count {
            return Err(format!("peak tuple has {} axes", peak.len()));
        }
        let (s, e) = (t.intermediate_start(), t.intermediate_end());
        // every answer of the reader is checked before use: a missing or short tuple is a finding about
        // the library, never a reason for the harness to stop
        if s.is_some() != e.is_some() {
            return Err(format!(
                "intermediate {} tuple missing: start {}, end {}",
                if s.is_none() { "start" } else { "end" },
                s.as_ref().map_or("absent".to_string(), |t| format!("{} axes", t.len())),
                e.as_ref().map_or("absent".to_string(), |t| format!("{} axes", t.len()))
            ));
        }
        if let (Some(s), Some(e)) = (&s, &e) {
            if s.len() != axis_count || e.len() != axis_count {
                return Err(format!(
                    "intermediate {} tuple short: start has {} axes, end has {} axes, the table has {axis_count}",
                    if s.len() != axis_count { "start" } else { "end" },
                    s.len(),
                    e.len()
                ));
            }
        }
        let mut eff = Vec::with_capacity(axis_count);
        for i in 0..axis_count {
            let Some(p) = peak.get(i).map(|v| v.to_bits()) else {
                return Err(format!("peak tuple short: axis {i} unreadable"));
            };
            match (&s, &e) {
                (Some(s), Some(e)) => match (s.get(i), e.get(i)) {
                    (Some(a), Some(b)) => eff.push((a.to_bits(), p, b.to_bits())),
                    _ => return Err(format!("intermediate tuple short: axis {i} unreadable")),
                },
                _ => eff.push((p.min(0), p, p.max(0))),
            }
        }
        let mut explicit = vec![None; npoints];
        let mut count = 0usize;
        for d in t.deltas() {
            count += 1;
            if count > npoints + 8 {
                return Err("tuple yields more deltas than the glyph has points".into());
            }
            let pos = d.position as usize;
            if pos >= npoints {
                return Err(format!("delta for point {pos} of {npoints}"));
            }
            if explicit[pos].is_some() {
                return Err(format!("two deltas for point {pos}"));
            }
            explicit[pos] = Some((d.x_delta as i64, d.y_delta as i64));
        }
        out.push(Decoded { eff, explicit, all_points: t.has_deltas_for_all_points() });
    }
    Ok(out)
}

/// The statement for one glyph: tuples == regions; explicit + inference reproduces the input.
fn compare_glyph(g: &GlyphSpec, dec: &[Decoded]) -> Option<(String, String)> {
    if dec.len() != g.tuples.len() {
        return Some(("tuple count".into(), format!("{} read, {} written", dec.len(), g.tuples.len())));
    }
    let all = with_phantoms(&g.coords);
    for (ti, (t, d)) in g.tuples.iter().zip(dec.iter()).enumerate() {
        let want = effective(&t.region);
        if want != d.eff {
            let inter = t.region.iter().any(|a| a.1.is_some());
            return Some((
                format!("region ({})", if inter { "intermediate" } else { "peak only" }),
                format!("tuple {ti}: read {:?}, written {:?}", d.eff, want),
            ));
        }
        let inferred = infer(&all, &g.ends, &d.explicit);
        for (i, dl) in t.deltas.iter().enumerate() {
            let want = (dl.0 as i64, dl.1 as i64);
            let where_ = if i >= g.coords.len() { "phantom point" } else { "contour point" };
            if dl.2 {
                if d.explicit[i] != Some(want) {
                    return Some((
                        format!("required delta not read back exactly ({where_})"),
                        format!("tuple {ti} point {i}: read {:?}, written {:?}", d.explicit[i], want),
                    ));
                }
            } else if !within(inferred[i], want, g.tol2) {
                return Some((
                    format!(
                        "optional delta not reproduced within tolerance ({where_}, {})",
                        if d.explicit[i].is_some() { "explicitly encoded" } else { "inferred" }
                    ),
                    format!(
                        "tuple {ti} point {i}: got ({}, {}), declared {:?} tol {}",
                        inferred[i].0.to_f64(),
                        inferred[i].1.to_f64(),
                        want,
                        g.tol2 as f64 / 2.0
                    ),
                ));
            }
        }
    }
    None
}

fn check_gvar(run: &Run, family: &str, glyphs: &[GlyphSpec], axis_count: u16, l: &mut Local, case: &dyn Fn() -> Value) -> Option<Vec<u8>> {
    l.evals += 1;
    l.trans += 2;
    let bytes = match guard(|| build_gvar(glyphs, axis_count)) {
        Ok(Ok(b)) => b,
        Ok(Err(e)) => {
            run.violation(&format!("{family}: gvar builder rejects a well-formed input"), &e, case());
            return None;
        }
        Err(p) => {
            run.violation(
                &format!("{family}: gvar build panic: {} in {}", p.kind(), p.site()),
                &format!("{} ({}:{})", p.message, p.file, p.line),
                case(),
            );
            return None;
        }
    };
    let r = guard(|| {
        let gvar = match rgvar::Gvar::read(FontData::new(&bytes)) {
            Ok(g) => g,
            Err(e) => return Some(("compiled gvar does not parse".to_string(), format!("{e}"))),
        };
        if gvar.axis_count() != axis_count || gvar.glyph_count() as usize != glyphs.len() {
            return Some(("gvar header counts".into(), format!("{} axes, {} glyphs", gvar.axis_count(), gvar.glyph_count())));
        }
        let long = gvar.flags().contains(rgvar::GvarFlags::LONG_OFFSETS);
        if long {
            l.long_offsets += 1;
        }
        let mut h = Fnv::new();
        h.str(family);
        h.u64(long as u64);
        for (gid, g) in glyphs.iter().enumerate() {
            l.trans += 1;
            let dec = match decode_glyph(&gvar, gid as u32, g.coords.len() + 4, axis_count as usize) {
                Ok(d) => d,
                Err(e) => {
                    let id = match e.split(':').next() {
                        Some(head) if head.starts_with("intermediate") || head.starts_with("peak tuple") => head.to_string(),
                        _ => "glyph variation data unreadable".to_string(),
                    };
                    return Some((id, format!("glyph {gid}: {e}")));
                }
            };
            if let Some((id, detail)) = compare_glyph(g, &dec) {
                return Some((id, format!("glyph {gid}: {detail}")));
            }
            // the other public routes to the same deltas (the ones skrifa draws through) agree
            if let Some((id, detail)) = audit::reader_routes(&gvar, gid as u32, g.coords.len() + 4, &dec) {
                return Some((id, format!("glyph {gid}: {detail}")));
            }
            for d in &dec {
                if d.all_points {
                    l.dense += 1;
                } else {
                    l.sparse += 1;
                }
                h.u64(d.all_points as u64);
                for a in &d.eff {
                    h.i64(a.0 as i64);
                    h.i64(a.1 as i64);
                    h.i64(a.2 as i64);
                }
                for e in &d.explicit {
                    match e {
                        Some((x, y)) => {
                            h.i64(*x);
                            h.i64(*y);
                        }
                        None => h.u64(0x8000_0000_0000),
                    }
                }
            }
        }
        // shared point numbers in use?  (count via the raw header bit of each glyph)
        for gid in 0..glyphs.len() {
            if let Ok(Some(d)) = gvar.data_for_gid(GlyphId::new(gid as u32)) {
                if d.read_at::<u16>(0).map(|c| c & 0x8000 != 0).unwrap_or(false) {
                    l.shared_points += 1;
                }
            }
        }
        let dg = h.finish();
        l.all.insert(dg);
        if glyphs.iter().any(|g| g.tuples.iter().any(|t| t.deltas.iter().any(|d| d.0 != 0 || d.1 != 0))) {
            l.nontrivial.insert(dg);
        }
        None
    });
    match r {
        Ok(None) => Some(bytes),
        Ok(Some((id, detail))) => {
            run.violation(&format!("gvar round trip: {id}"), &detail, case());
            None
        }
        Err(p) => {
            run.violation(
                &format!("gvar reader panic: {} in {}", p.kind(), p.site()),
                &format!("{} ({}:{})", p.message, p.file, p.line),
                case(),
            );
            None
        }
    }
}

fn gvar_case_json(family: &str, glyphs: &[GlyphSpec], axis_count: u16) -> Value {
    json!({"kind":"gvar","family":family,"axis_count":axis_count,"glyphs":glyphs.iter().map(glyph_json).collect::<Vec<_>>()})
}

const ONE: i16 = 0x4000;
/// the four single-axis tents of the design: peak only, with intermediate, peak at -1, at 0x0001
fn tents_1axis() -> Vec<Region> {
    vec![
        vec![(ONE, None)],
        vec![(ONE / 2, Some((ONE / 4, ONE)))],
        vec![(-ONE, None)],
        vec![(1, None)],
        // intermediate regions whose start / end lie one ulp from the peak
        vec![(ONE / 2, Some((ONE / 2 - 1, ONE / 2 + 1)))],
        vec![(ONE, Some((ONE - 1, ONE)))],
        vec![(-ONE, Some((-ONE, -ONE + 1)))],
    ]
}
fn tents_2axis() -> Vec<Region> {
    vec![
        vec![(ONE, None), (0, None)],
        vec![(ONE / 2, Some((ONE / 4, ONE))), (-ONE, Some((-ONE, 0)))],
        vec![(-ONE, None), (ONE, None)],
        vec![(1, None), (0x2000, Some((0x1000, 0x3000)))],
    ]
}
fn tents_3axis() -> Vec<Region> {
    vec![
        vec![(ONE, None), (0, None), (-ONE, None)],
        vec![(0, None), (ONE / 2, Some((ONE / 2 - 1, ONE))), (ONE, None)],
        vec![(-ONE / 2, Some((-ONE, -1))), (ONE, None), (0x2000, Some((0x1000, 0x3000)))],
    ]
}
fn tents_for(axes: u16) -> Vec<Region> {
    match axes {
        1 => tents_1axis(),
        2 => tents_2axis(),
        _ => tents_3axis(),
    }
}

/// (b1) the optimiser's own output through the encoder
fn pipeline_family(run: &Run) {
    let tents = tents_1axis();
    run.bound("b1.source", json!("every a1 case with n <= 3 under 4 tents; n = 4 under tent 0"));
    for n in 1..=4usize {
        let grain = if n >= 2 { 400 } else { 20 };
        let locals: Vec<Local> = (0..grain)
            .into_par_iter()
            .map(|t| {
                let mut l = Local::new();
                let mut sink = Local::new();
                let mut digits = vec![0usize; n];
                let fixed = n.min(2);
                if n >= 2 {
                    digits[0] = t / 20;
                    digits[1] = t % 20;
                } else {
                    digits[0] = t;
                }
                loop {
                    for tol2 in TOLS2 {
                        let c = a1_case(&digits, tol2);
                        if let Some(res) = check_iup(run, &c, &mut sink) {
                            let ntents = if n <= 3 { 4 } else { 1 };
                            for region in tents.iter().take(ntents) {
                                let g = GlyphSpec {
                                    coords: c.coords.clone(),
                                    ends: c.ends.clone(),
                                    tol2,
                                    tuples: vec![TupleSpec {
                                        region: region.clone(),
                                        deltas: res.iter().map(|d| (d.x, d.y, d.required)).collect(),
                                    }],
                                };
                                let gs = [g];
                                let case = || gvar_case_json("b1", &gs, 1);
                                check_gvar(run, "b1", &gs, 1, &mut l, &case);
                            }
                        }
                    }
                    if n == fixed || !next_digits(&mut digits[fixed..], 20) {
                        break;
                    }
                }
                l
            })
            .collect();
        for l in locals {
            l.merge(run, &format!("b1.n{n}"));
        }
    }
}

/// coordinates of the structured glyphs: deterministic scatter, one contour
fn scatter(n: usize) -> Vec<(i64, i64)> {
    (0..n).map(|i| (((i * 37) % 211) as i64, ((i * 91) % 197) as i64 - 60)).collect()
}

const PATTERNS: usize = 7;
fn pattern_delta(p: usize, i: usize, n: usize) -> (i16, i16) {
    match p {
        0 => (0, 0),
        1 => (1, -1),
        2 => (if i % 2 == 0 { 127 } else { -128 }, 5),
        3 => (if i % 2 == 0 { 128 } else { -129 }, -300),
        4 => if i < n / 2 { (0, 0) } else { (7, 0) },
        5 => if i == n / 3 { (32767, -32768) } else { (0, 1) },
        _ => match i % 5 {
            0 => (0, 0),
            1 => (0, 0),
            2 => (100, 200),
            3 => (1000, -1),
            _ => (-3, 0),
        },
    }
}

const MASKS: usize = 11;
fn mask_required(m: usize, i: usize, n: usize) -> bool {
    match m {
        0 => true,
        1 => false,
        2 => i == 0,
        3 => i + 1 == n,
        4 => i % 2 == 0,
        5 => i % 3 == 1,
        6 => i == 0 || i + 1 == n,
        7 => i < 127.min(n),
        8 => i < 128.min(n),
        9 => i < 129.min(n),
        _ => i % 256 == 0 || i % 255 == 3 || i % 257 == 9, // point-number gaps 255 / 256 / 257 and shorter
    }
}

/// Build one tuple's deltas over `n` real points: required ones carry the pattern value; optional ones
/// are *declared* as the (rounded) value inference gives from the required ones, so the declaration
/// is consistent; tolerance 0.75 >= sqrt(0.5) covers the rounding of both axes.
fn structured_tuple(n: usize, pattern: usize, mask: usize, region: &Region) -> TupleSpec {
    let coords = with_phantoms(&scatter(n));
    let total = n + 4;
    let explicit: Vec<Option<(i64, i64)>> = (0..total)
        .map(|i| {
            // phantom point 2 (advance) is required under some masks; masks 7..9 must give exactly
            // 127 / 128 / 129 referenced points (the one-byte / two-byte point count switch)
            let req = if i < n { mask_required(mask, i, n) } else { matches!(mask, 0 | 2 | 4 | 6 | 10) && i == n + 1 };
            req.then(|| {
                let d = pattern_delta(pattern, i, total);
                (d.0 as i64, d.1 as i64)
            })
        })
        .collect();
    let inferred = infer(&coords, &[n - 1], &explicit);
    let round = |r: R| -> i16 { (r.to_f64() + 0.5).floor() as i16 };
    TupleSpec {
        region: region.clone(),
        deltas: (0..total)
            .map(|i| match explicit[i] {
                Some((x, y)) => (x as i16, y as i16, true),
                None => (round(inferred[i].0), round(inferred[i].1), false),
            })
            .collect(),
    }
}

fn structured_family(run: &Run) {
    let counts: Vec<usize> = match run.tier {
        Tier::Quick => vec![1, 2, 3, 63, 64, 65, 127, 128, 129, 130, 255, 256, 257, 520],
        Tier::Thorough => {
            let mut v: Vec<usize> = (1..=70).collect();
            v.extend(120..=135);
            v.extend(250..=262);
            v.extend([300, 511, 512, 513, 520, 600]);
            v
        }
    };
    run.bound("b2.point_counts", json!(counts));
    run.bound("b2.delta_patterns", json!(["zero", "byte ±1", "byte 127/-128", "word 128/-129,-300", "zero run then byte", "single 32767/-32768 spike", "mixed zero/byte/word"]));
    run.bound("b2.masks", json!(["all required", "none", "first", "last", "every 2nd", "every 3rd", "first+last", "first 127", "first 128", "first 129", "gaps 255/256/257"]));
    run.bound("b2.tents", json!({"1 axis": tents_1axis().iter().map(region_json).collect::<Vec<_>>(), "2 axes": tents_2axis().iter().map(region_json).collect::<Vec<_>>(), "3 axes": tents_3axis().iter().map(region_json).collect::<Vec<_>>()}));
    run.bound("b2.glyph_configs", json!(["one glyph one region", "one glyph two regions same mask (shared points candidate)", "one glyph two regions different masks", "two glyphs same region (shared tuple candidate)", "three glyphs, two regions in opposite orders", "empty variation data at start / middle x2 / end"]));
    let mut tasks = vec![];
    for &n in &counts {
        for p in 0..PATTERNS {
            for m in 0..MASKS {
                tasks.push((n, p, m));
            }
        }
    }
    run.count("b2.count_pattern_mask_triples", tasks.len() as u64);
    let locals: Vec<Local> = tasks
        .par_iter()
        .map(|&(n, p, m)| {
            let mut l = Local::new();
            for axes in [1u16, 2, 3] {
                let tents = tents_for(axes);
                for (ti, region) in tents.iter().enumerate() {
                    let other = &tents[(ti + 1) % tents.len()];
                    let base = |tuples: Vec<TupleSpec>| GlyphSpec {
                        coords: scatter(n),
                        ends: vec![n - 1],
                        tol2: 2, // 1.0 >= 0.75
                        tuples,
                    };
                    let t0 = structured_tuple(n, p, m, region);
                    let configs: Vec<Vec<GlyphSpec>> = vec![
                        vec![base(vec![t0.clone()])],
                        vec![base(vec![t0.clone(), structured_tuple(n, (p + 1) % PATTERNS, m, other)])],
                        vec![base(vec![t0.clone(), structured_tuple(n, p, (m + 1) % MASKS, other)])],
                        vec![
                            base(vec![t0.clone()]),
                            base(vec![structured_tuple(n, (p + 2) % PATTERNS, m, region), structured_tuple(n, p, m, other)]),
                        ],
                        // three glyphs using two regions in opposite orders and with different
                        // frequencies (order of the shared tuple table vs order of use)
                        vec![
                            base(vec![t0.clone(), structured_tuple(n, (p + 1) % PATTERNS, m, other)]),
                            base(vec![structured_tuple(n, p, m, other), structured_tuple(n, (p + 3) % PATTERNS, m, region)]),
                            base(vec![structured_tuple(n, (p + 4) % PATTERNS, (m + 2) % MASKS, other)]),
                        ],
                        // glyphs without any variation data at the start, in the middle (twice) and at
                        // the end: equal consecutive offsets
                        vec![
                            base(vec![]),
                            base(vec![t0.clone()]),
                            base(vec![]),
                            base(vec![]),
                            base(vec![structured_tuple(n, (p + 1) % PATTERNS, m, other)]),
                            base(vec![]),
                        ],
                    ];
                    for gs in &configs {
                        let case = || gvar_case_json("b2", gs, axes);
                        check_gvar(run, "b2", gs, axes, &mut l, &case);
                    }
                }
            }
            l
        })
        .collect();
    for l in locals {
        l.merge(run, "b2");
    }
    let gs = vec![GlyphSpec { coords: scatter(3), ends: vec![2], tol2: 2, tuples: vec![structured_tuple(3, 6, 4, &tents_1axis()[1])] }];
    run.sample(gvar_case_json("b2", &gs, 1));
}

/// glyph list of the (b3) family: big glyphs interleaved with glyphs that have no variation data
/// (equal consecutive offsets before, between and after the big ones); the point count of the fourth
/// big glyph is swept.
fn offsets_glyphs(n: usize) -> Vec<GlyphSpec> {
    offsets_glyphs_with(n, 0)
}

/// `filler` > 0 replaces the small glyph by one whose data grows by one byte per point (byte x
/// deltas, zero y deltas), so that the total size can be stepped through every value
fn offsets_glyphs_with(n: usize, filler: usize) -> Vec<GlyphSpec> {
    let region = tents_1axis()[0].clone();
    let big = |n: usize, salt: i16| -> GlyphSpec {
        GlyphSpec {
            coords: scatter(n),
            ends: vec![n - 1],
            tol2: 0,
            tuples: vec![TupleSpec {
                region: region.clone(),
                // word x deltas (2 bytes) + byte y deltas (1 byte) + run headers: ~3.03 bytes per point
                deltas: (0..n + 4)
                    .map(|i| (((i % 250) as i16) + 130 + salt, -(((i * 7) % 90) as i16) - 1, true))
                    .collect(),
            }],
        }
    };
    let empty = || GlyphSpec { coords: scatter(2), ends: vec![1], tol2: 0, tuples: vec![] };
    let small = if filler == 0 {
        big(3, 4)
    } else {
        GlyphSpec {
            coords: scatter(filler),
            ends: vec![filler - 1],
            tol2: 0,
            tuples: vec![TupleSpec { region: region.clone(), deltas: (0..filler + 4).map(|i| ((i % 100) as i16 + 1, 0, true)).collect() }],
        }
    };
    vec![empty(), big(14000, 0), empty(), empty(), big(14000, 1), big(14000, 2), empty(), big(n, 3), empty(), small, empty()]
}

/// (b3) total data size swept across the short/long offsets switch (131070 / 131072 bytes)
fn offsets_family(run: &Run) {
    // find the first point count that needs long offsets by measuring, not by formula
    let is_long = |n: usize| -> bool {
        guard(|| {
            build_gvar(&offsets_glyphs(n), 1)
                .ok()
                .and_then(|b| rgvar::Gvar::read(FontData::new(&b)).ok().map(|g| g.flags().contains(rgvar::GvarFlags::LONG_OFFSETS)))
        })
        .ok()
        .flatten()
        .unwrap_or(true)
    };
    let (mut lo, mut hi) = (100usize, 6000usize);
    if is_long(lo) || !is_long(hi) {
        if run.violations() == 0 {
            run.machinery_error("b3: sweep bracket does not straddle the offset switch");
        }
        return;
    }
    while lo + 1 < hi {
        let mid = (lo + hi) / 2;
        if is_long(mid) {
            hi = mid;
        } else {
            lo = mid;
        }
    }
    let window: Vec<usize> = (hi - 13..hi + 13).collect();
    run.bound("b3.swept_point_counts_of_last_big_glyph", json!([window[0], window[window.len() - 1]]));
    run.bound("b3.glyph_list", json!("empty, big, empty, empty, big, big, empty, swept, empty, small, empty"));
    // every point count of the window x small-glyph sizes 0 (the original word-delta glyph), 1..=6
    // bytes apart: the summed data sizes step through every even value around 131070
    run.bound("b3.filler_glyph_points", json!([0, 6]));
    let grid: Vec<(usize, usize)> = window.iter().flat_map(|&n| (0..=6usize).map(move |f| (n, f))).collect();
    let results: Vec<(Local, usize, bool)> = grid
        .par_iter()
        .map(|&(n, filler)| {
            let mut l = Local::new();
            let gs = offsets_glyphs_with(n, filler);
            let case = || json!({"kind":"offsets","last_glyph_points":n,"filler":filler});
            let bytes = check_gvar(run, "b3", &gs, 1, &mut l, &case);
            let len = bytes.as_ref().map(|b| b.len()).unwrap_or(0);
            let long = l.long_offsets > 0;
            (l, len, long)
        })
        .collect();
    let mut shorts = 0;
    let mut longs = 0;
    let mut sizes = vec![];
    for (l, len, long) in results {
        if long {
            longs += 1;
        } else {
            shorts += 1;
        }
        sizes.push(json!([len, long]));
        l.merge(run, "b3");
    }
    {
        // which total table sizes were produced with short / long offsets (distinct, sorted)
        let mut v: Vec<(u64, bool)> = sizes.iter().map(|s: &Value| (s[0].as_u64().unwrap_or(0), s[1].as_bool().unwrap_or(false))).collect();
        v.sort();
        v.dedup();
        run.count("b3.distinct_table_sizes", v.len() as u64);
        if let Some(max_short) = v.iter().filter(|x| !x.1).map(|x| x.0).max() {
            run.extra("b3.largest_table_with_short_offsets", json!(max_short));
        }
        if let Some(min_long) = v.iter().filter(|x| x.1).map(|x| x.0).min() {
            run.extra("b3.smallest_table_with_long_offsets", json!(min_long));
        }
        sizes = v.iter().map(|x| json!([x.0, x.1])).collect();
    }
    run.extra("b3.table_sizes_and_long_flag", json!(sizes));
    if (shorts == 0 || longs == 0) && run.violations() == 0 {
        run.machinery_error(&format!("b3 sweep does not straddle the offset switch (short {shorts}, long {longs})"));
    }
}


// ---------------------------------------------------------------------------
// (c) application through skrifa
// ---------------------------------------------------------------------------

#[derive(Default)]
struct PtsPen(Vec<(f32, f32)>, bool);
impl OutlinePen for PtsPen {
    fn move_to(&mut self, x: f32, y: f32) {
        self.0.push((x, y));
    }
    fn line_to(&mut self, x: f32, y: f32) {
        self.0.push((x, y));
    }
    fn quad_to(&mut self, _: f32, _: f32, _: f32, _: f32) {
        self.1 = true;
    }
    fn curve_to(&mut self, _: f32, _: f32, _: f32, _: f32, _: f32, _: f32) {
        self.1 = true;
    }
    fn close(&mut self) {}
}

/// exact tuple scalar per the specification, F2Dot14 bits in, rational out
fn exact_scalar(eff: &[(i16, i16, i16)], region: &Region, loc: &[i16]) -> R {
    let mut s = R::int(1);
    for (i, &(start, peak, end)) in eff.iter().enumerate() {
        let (start, peak, end, c) = (start as i128, peak as i128, end as i128, loc[i] as i128);
        if peak == 0 {
            continue;
        }
        if start > peak || peak > end || (start < 0 && end > 0) {
            continue;
        }
        if c == peak {
            continue;
        }
        let explicit_inter = region[i].1.is_some();
        let _ = explicit_inter;
        if c <= start || c >= end {
            return R::int(0);
        }
        s = s.mul(if c < peak { R::new(c - start, peak - start) } else { R::new(end - c, end - peak) });
    }
    s
}

#[derive(Clone, Debug)]
struct FontSpec {
    glyph: GlyphSpec, // glyph 0 (all points on-curve, polygon contours)
    axis_count: u16,
    advance: u16,
}

fn build_var_font(f: &FontSpec) -> Result<Vec<u8>, String> {
    build_var_font_with(f, None)
}

/// `on`: on-curve flag per point (all on-curve when absent)
fn build_var_font_with(f: &FontSpec, on: Option<&[bool]>) -> Result<Vec<u8>, String> {
    let g = &f.glyph;
    let mut contours = vec![];
    let mut start = 0;
    for &e in &g.ends {
        contours.push(Contour::from(
            (start..=e)
                .map(|i| {
                    let p = g.coords[i];
                    read_fonts::tables::glyf::CurvePoint::new(p.0 as i16, p.1 as i16, on.map_or(true, |o| o[i]))
                })
                .collect::<Vec<_>>(),
        ));
        start = e + 1;
    }
    let xs = g.coords.iter().map(|p| p.0 as i16);
    let ys = g.coords.iter().map(|p| p.1 as i16);
    let bbox = Bbox {
        x_min: xs.clone().min().unwrap(),
        x_max: xs.max().unwrap(),
        y_min: ys.clone().min().unwrap(),
        y_max: ys.max().unwrap(),
    };
    let glyph = SimpleGlyph { bbox, contours, instructions: vec![] };
    let mut b = GlyfLocaBuilder::new();
    b.add_glyph(&glyph).map_err(|e| format!("{e}"))?;
    let (glyf, loca, fmt) = b.build();
    let gvar = build_gvar(std::slice::from_ref(g), f.axis_count)?;
    let head = Head { units_per_em: 1000, index_to_loc_format: fmt as i16, ..Default::default() };
    let hhea = Hhea { number_of_h_metrics: 1, ..Default::default() };
    // lsb = xMin, so phantom point 1 sits at x = 0 (with_phantoms assumes (0,0) and (advance,0))
    let hmtx = Hmtx::new(vec![LongMetric::new(f.advance, bbox.x_min)], vec![]);
    let mut fb = FontBuilder::new();
    fb.add_table(&head).map_err(|e| format!("{e}"))?;
    fb.add_table(&hhea).map_err(|e| format!("{e}"))?;
    fb.add_table(&hmtx).map_err(|e| format!("{e}"))?;
    fb.add_table(&Maxp::new(1)).map_err(|e| format!("{e}"))?;
    fb.add_table(&glyf).map_err(|e| format!("{e}"))?;
    fb.add_table(&loca).map_err(|e| format!("{e}"))?;
    fb.add_raw(Tag::new(b"gvar"), gvar);
    Ok(fb.build())
}

fn axis_locations(regions: &[Region], axis: usize) -> Vec<i16> {
    let mut v: Vec<i32> = vec![0, ONE as i32, -(ONE as i32), 1, -1];
    for r in regions {
        let (s, p, e) = effective(r)[axis];
        let (s, p, e) = (s as i32, p as i32, e as i32);
        v.extend([s - 1, s, s + 1, (s + p) / 2, p - 1, p, p + 1, (p + e) / 2, e - 1, e, e + 1, -p]);
    }
    let mut v: Vec<i16> = v.into_iter().filter(|x| (-(ONE as i32)..=ONE as i32).contains(x)).map(|x| x as i16).collect();
    v.sort();
    v.dedup();
    v
}

fn font_json(f: &FontSpec, loc: &[i16], style: &str) -> Value {
    json!({"kind":"draw","axis_count":f.axis_count,"advance":f.advance,"glyph":glyph_json(&f.glyph),"location":loc,"style":style})
}

/// Draw glyph 0 at every location in `locs` and compare with the exact reference.
fn check_font(run: &Run, f: &FontSpec, locs: &[Vec<i16>], l: &mut Local) {
    // safety net: whatever the library answers, a case ends in a verdict, not in a harness stop
    if let Err(p) = guard(|| check_font_inner(run, f, locs, l)) {
        run.violation(
            &format!("c: panic while reading / drawing a built font: {} in {}", p.kind(), p.site()),
            &format!("{} ({}:{})", p.message, p.file, p.line),
            font_json(f, &[], "panic"),
        );
    }
}

fn check_font_inner(run: &Run, f: &FontSpec, locs: &[Vec<i16>], l: &mut Local) {
    let bytes = match guard(|| build_var_font(f)) {
        Ok(Ok(b)) => b,
        Ok(Err(e)) => {
            run.violation("c: variable font cannot be built", &e, font_json(f, &[], "build"));
            return;
        }
        Err(p) => {
            run.violation(
                &format!("c: font build panic: {} in {}", p.kind(), p.site()),
                &p.message,
                font_json(f, &[], "build"),
            );
            return;
        }
    };
    let g = &f.glyph;
    let mut all = g.coords.clone();
    all.extend([(0, 0), (f.advance as i64, 0), (0, 0), (0, 0)]);
    let n = g.coords.len();
    // per tuple: exact inferred deltas from what the table carries (verified against the input in (b))
    let Ok(gv) = build_gvar(std::slice::from_ref(g), f.axis_count) else {
        run.violation("c: gvar cannot be built a second time", "", font_json(f, &[], "build"));
        return;
    };
    let rg = match rgvar::Gvar::read(FontData::new(&gv)) {
        Ok(g) => g,
        Err(e) => {
            run.violation("c: compiled gvar does not parse", &format!("{e}"), font_json(f, &[], "parse"));
            return;
        }
    };
    let dec = match decode_glyph(&rg, 0, n + 4, f.axis_count as usize) {
        Ok(d) => d,
        Err(e) => {
            run.violation("c: glyph variation data unreadable", &e, font_json(f, &[], "decode"));
            return;
        }
    };
    // what was read back is what was given to the builder (the (b) statement, on the drawn fonts too)
    if let Some((id, detail)) = compare_glyph(g, &dec) {
        run.violation(&format!("gvar round trip: {id}"), &detail, font_json(f, &[], "gvar"));
        return;
    }
    let inferred: Vec<Vec<(R, R)>> = dec.iter().map(|d| infer(&all, &g.ends, &d.explicit)).collect();
    let max_abs: Vec<i128> = dec
        .iter()
        .map(|d| d.explicit.iter().flatten().map(|e| e.0.abs().max(e.1.abs())).max().unwrap_or(0) as i128)
        .collect();
    let font = match FontRef::new(&bytes) {
        Ok(f) => f,
        Err(e) => {
            run.violation("c: built font does not parse", &format!("{e}"), font_json(f, &[], "parse"));
            return;
        }
    };
    let Some(og) = font.outline_glyphs().get(GlyphId::new(0)) else {
        run.violation("c: no outline for glyph 0", "", font_json(f, &[], "parse"));
        return;
    };
    for loc in locs {
        l.evals += 1;
        l.trans += 2;
        let coords: Vec<F2Dot14> = loc.iter().map(|b| F2Dot14::from_bits(*b)).collect();
        // exact expectation per point
        let scalars: Vec<R> = g
            .tuples
            .iter()
            .zip(dec.iter())
            .map(|(t, d)| exact_scalar(&d.eff, &t.region, loc))
            .collect();
        let active = scalars.iter().filter(|s| s.n != 0).count();
        // error bound of the 16.16 pipeline: per active tuple the scalar carries <= A roundings of
        // 2^-17 each (scaled by |delta|), the product one more, interpolation two more
        let eps_num: i128 = scalars
            .iter()
            .zip(max_abs.iter())
            .filter(|(s, _)| s.n != 0)
            .map(|(_, m)| m * f.axis_count as i128 + 3)
            .sum::<i128>();
        let eps = R::new(eps_num, 1 << 16);
        let mut expect: Vec<(R, R)> = vec![];
        // index n = phantom point 1 (the origin): the scaler shifts the outline so that it lies at x = 0
        // indices n, n + 1 = phantom points 1 and 2 (origin and advance)
        for i in 0..=n + 1 {
            let mut ex = R::int(all[i].0 as i128);
            let mut ey = R::int(all[i].1 as i128);
            for (t, s) in scalars.iter().enumerate() {
                if s.n != 0 {
                    ex = ex.add(s.mul(inferred[t][i].0));
                    ey = ey.add(s.mul(inferred[t][i].1));
                }
            }
            expect.push((ex, ey));
        }
        for (style_name, style) in [
            ("freetype", skrifa::outline::pen::PathStyle::FreeType),
            ("harfbuzz", skrifa::outline::pen::PathStyle::HarfBuzz),
        ] {
            let mut pen = PtsPen::default();
            let settings = DrawSettings::unhinted(Size::unscaled(), LocationRef::new(&coords)).with_path_style(style);
            let r = guard(|| og.draw(settings, &mut pen));
            let metrics = match r {
                Ok(Ok(m)) => m,
                Ok(Err(e)) => {
                    run.violation(&format!("c: draw fails ({style_name})"), &format!("{e}"), font_json(f, loc, style_name));
                    continue;
                }
                Err(p) => {
                    run.violation(
                        &format!("c: draw panic: {} in {}", p.kind(), p.site()),
                        &p.message,
                        font_json(f, loc, style_name),
                    );
                    continue;
                }
            };
            // the length of the coordinate array: trailing zeros may be omitted, extra entries are ignored
            if let Some(detail) = audit::coords_length_check(&og, &coords, style, &pen.0) {
                run.violation(
                    &format!("drawing depends on the length of the coordinate array ({style_name})"),
                    &format!("location {loc:?}: {detail}; full-length draw {:?}", &pen.0[..pen.0.len().min(4)]),
                    font_json(f, loc, style_name),
                );
            }
            // reported metrics = varied phantom points, each rounded on its own (FreeType style)
            if style_name == "freetype" {
                if let (Some(adv), Some(lsb)) = (metrics.advance_width, metrics.lsb) {
                    let half = R::new(1, 2);
                    let iv = |e: R| (floor_r(e.sub(eps).add(half)), floor_r(e.add(eps).add(half)));
                    let (p1, p2) = (iv(expect[n].0), iv(expect[n + 1].0));
                    let ok_a = adv.fract() == 0.0 && (p2.0 - p1.1..=p2.1 - p1.0).contains(&(adv as i128));
                    let ok_l = lsb.fract() == 0.0 && (p1.0..=p1.1).contains(&(lsb as i128));
                    if !(ok_a && ok_l) {
                        run.violation(
                            "advance / left side bearing reported by draw differ from the varied phantom points (freetype; simple glyph)",
                            &format!("location {loc:?}: advance {adv}, lsb {lsb}; exact pp1 {}, pp2 {}", expect[n].0.to_f64(), expect[n + 1].0.to_f64()),
                            font_json(f, loc, style_name),
                        );
                    }
                }
            }
            if pen.1 || pen.0.len() != n {
                run.violation(
                    &format!("c: drawn outline has the wrong structure ({style_name})"),
                    &format!("{} points, curves: {}", pen.0.len(), pen.1),
                    font_json(f, loc, style_name),
                );
                continue;
            }
            // contours are polygons of on-curve points: the pen sees them in order (move, line…)
            let mut bad = None;
            // HarfBuzz-style drawing: the statement read literally (no origin shift) and the FreeType
            // reading (relative to the varied phantom point 1) are both accepted, consistently for the
            // whole outline; which one was taken is counted.
            let mut bad_unshifted = None;
            for i in 0..n {
                for (axis, (got, want)) in [(pen.0[i].0, expect[i].0), (pen.0[i].1, expect[i].1)].into_iter().enumerate() {
                    // origin = varied phantom point 1 (x only)
                    let origin = if axis == 0 { expect[n].0 } else { R::int(0) };
                    let ok = if style_name == "freetype" {
                        // each of point and origin is rounded half up after the 16.16 accumulation;
                        // either neighbour when an exact value is within eps of a half
                        let lo = floor_r(want.sub(eps).add(R::new(1, 2)));
                        let hi = floor_r(want.add(eps).add(R::new(1, 2)));
                        let olo = floor_r(origin.sub(eps).add(R::new(1, 2)));
                        let ohi = floor_r(origin.add(eps).add(R::new(1, 2)));
                        if lo != hi || olo != ohi {
                            l.halfway += 1;
                        }
                        got.fract() == 0.0 && (lo - ohi..=hi - olo).contains(&(got as i128))
                    } else {
                        // no rounding step: f32 arithmetic
                        let w = want.sub(origin).to_f64();
                        // the tuple scalar is 16.16 here too: same error bound, plus f32 arithmetic
                        let slack = 2.0 * eps.to_f64() + 0.01 + (want.to_f64().abs() + origin.to_f64().abs()) * 1e-5;
                        if (got as f64 - want.to_f64()).abs() > slack && bad_unshifted.is_none() {
                            bad_unshifted = Some(i);
                        }
                        (got as f64 - w).abs() <= slack
                    };
                    if !ok && bad.is_none() {
                        bad = Some((i, axis, got, want));
                    }
                }
            }
            if style_name == "harfbuzz" && bad.is_some() && bad_unshifted.is_none() {
                // literal reading holds
                bad = None;
                l.hb_unshifted += 1;
            }
            if let Some((i, axis, got, want)) = bad {
                let kinds: Vec<&str> = g
                    .tuples
                    .iter()
                    .zip(scalars.iter())
                    .filter(|(_, s)| s.n != 0)
                    .map(|(t, _)| if t.region.iter().any(|a| a.1.is_some()) { "intermediate" } else { "peak-only" })
                    .collect();
                let sparse = dec.iter().zip(scalars.iter()).any(|(d, s)| s.n != 0 && !d.all_points);
                run.violation(
                    &format!(
                        "drawn outline differs from default + Σ scalar·delta ({style_name}; {} active {:?} tuple(s); {})",
                        active,
                        kinds,
                        if sparse { "inferred deltas" } else { "dense deltas" }
                    ),
                    &format!(
                        "location {:?}: point {i} axis {axis}: drawn {got}, exact {} minus origin {} (scalars {:?})",
                        loc,
                        want.to_f64(),
                        if axis == 0 { expect[n].0.to_f64() } else { 0.0 },
                        scalars.iter().map(|s| s.to_f64()).collect::<Vec<_>>()
                    ),
                    font_json(f, loc, style_name),
                );
            }
            let mut h = Fnv::new();
            h.str(style_name);
            for p in &pen.0 {
                h.u64(p.0.to_bits() as u64);
                h.u64(p.1.to_bits() as u64);
            }
            l.all.insert(h.finish());
            if active > 0 {
                l.nontrivial.insert(h.finish());
            }
        }
    }
}

fn floor_r(r: R) -> i128 {
    r.n.div_euclid(r.d)
}

fn application_family(run: &Run) {
    // glyphs: a triangle + a second contour; delta sets from the structured generator (dense & sparse)
    let coords: Vec<(i64, i64)> = vec![(10, 0), (110, 7), (60, 93), (200, 10), (260, 10), (260, 70), (200, 70)];
    let ends = vec![2usize, 6];
    let n = coords.len();
    let delta_sets: Vec<Vec<(i16, i16, bool)>> = {
        let mut v = vec![];
        // dense: all required, values of mixed size
        v.push((0..n + 4).map(|i| ((i as i16 * 13) % 31 - 15, (i as i16 * 7) % 23 - 11, true)).collect());
        // sparse: one point per contour required (others inferred = same delta)
        v.push((0..n + 4).map(|i| if i == 1 || i == 4 { (33, -17, true) } else if i == n + 1 { (5, 0, true) } else { (0, 0, false) }).collect());
        // sparse: two per contour (interpolation / clamping), odd values to hit halves
        v.push((0..n + 4).map(|i| match i { 0 => (1, 3, true), 2 => (-7, 1, true), 3 => (101, -3, true), 5 => (-100, 51, true), _ => (0, 0, false) }).collect());
        // big deltas
        v.push((0..n + 4).map(|i| if i < n { (3001 - 1000 * i as i16, -2999 + 500 * i as i16, true) } else { (0, 0, true) }).collect());
        v
    };
    // optional values must be declared consistently: recompute them by inference
    let fix = |d: &Vec<(i16, i16, bool)>| -> Vec<(i16, i16, bool)> {
        let mut all = coords.clone();
        all.extend([(0, 0), (300, 0), (0, 0), (0, 0)]);
        let explicit: Vec<Option<(i64, i64)>> = d.iter().map(|x| x.2.then_some((x.0 as i64, x.1 as i64))).collect();
        let inf = infer(&all, &ends, &explicit);
        d.iter()
            .enumerate()
            .map(|(i, x)| if x.2 { *x } else { ((inf[i].0.to_f64() + 0.5).floor() as i16, (inf[i].1.to_f64() + 0.5).floor() as i16, false) })
            .collect()
    };
    let delta_sets: Vec<Vec<(i16, i16, bool)>> = delta_sets.iter().map(fix).collect();
    let t1 = tents_1axis();
    let t2 = tents_2axis();
    run.bound("c.delta_sets", json!(["dense mixed", "sparse 1 per contour", "sparse 2 per contour", "dense large"]));
    run.bound("c.region_lists", json!("1 axis: each of 7 tents alone (3 with start/end one ulp from the peak), every ordered pair of the first 4, one triple, one ulp pair; 2 axes: each of 4 alone, every ordered pair; 3 axes: each of 3 alone, one pair"));
    run.bound("c.locations_per_axis", json!("0, ±1.0, ±1 ulp, and for every region start-1..start+1, mid, peak-1..peak+1, mid, end-1..end+1, -peak"));
    // region lists
    let mut fonts: Vec<FontSpec> = vec![];
    let t3 = tents_3axis();
    for (axes, tents) in [(1u16, &t1), (2u16, &t2), (3u16, &t3)] {
        let mut lists: Vec<Vec<usize>> = (0..tents.len()).map(|i| vec![i]).collect();
        // ordered pairs over the first four tents (1 and 2 axes); one pair for 3 axes
        let np = if axes == 3 { 0 } else { 4 };
        for i in 0..np {
            for j in 0..np {
                if i != j {
                    lists.push(vec![i, j]);
                }
            }
        }
        if axes == 1 {
            lists.push(vec![0, 1, 3]);
            lists.push(vec![1, 4]);
        }
        if axes == 3 {
            lists.push(vec![1, 2]);
        }
        for list in &lists {
            // delta set choice: every set for single regions; rotating assignment for lists
            let set_choices: Vec<Vec<usize>> = if list.len() == 1 {
                (0..delta_sets.len()).map(|s| vec![s]).collect()
            } else {
                (0..delta_sets.len()).map(|s| (0..list.len()).map(|k| (s + k) % delta_sets.len()).collect()).collect()
            };
            for sc in set_choices {
                fonts.push(FontSpec {
                    axis_count: axes,
                    advance: 300,
                    glyph: GlyphSpec {
                        coords: coords.clone(),
                        ends: ends.clone(),
                        tol2: 2,
                        tuples: list
                            .iter()
                            .zip(sc.iter())
                            .map(|(r, s)| TupleSpec { region: tents[*r].clone(), deltas: delta_sets[*s].clone() })
                            .collect(),
                    },
                });
            }
        }
    }
    run.count("c.fonts", fonts.len() as u64);
    let locals: Vec<Local> = fonts
        .par_iter()
        .map(|f| {
            let mut l = Local::new();
            let regions: Vec<Region> = f.glyph.tuples.iter().map(|t| t.region.clone()).collect();
            let per_axis: Vec<Vec<i16>> = (0..f.axis_count as usize).map(|a| axis_locations(&regions, a)).collect();
            // cartesian product of the per-axis boundary locations
            let mut locs: Vec<Vec<i16>> = vec![vec![]];
            for axis in &per_axis {
                let mut next = Vec::with_capacity(locs.len() * axis.len());
                for l0 in &locs {
                    for x in axis {
                        let mut v = l0.clone();
                        v.push(*x);
                        next.push(v);
                    }
                }
                locs = next;
            }
            check_font(run, f, &locs, &mut l);
            l
        })
        .collect();
    for l in locals {
        l.merge(run, "c");
    }
    run.sample(font_json(&fonts[5], &[0x2000], "freetype"));
}

// ---------------------------------------------------------------------------
// (b4) tents at builder level: every combination of peaks and intermediates
// ---------------------------------------------------------------------------

/// per-axis tent options: peak in {-1, -0.5, 0, 0.5, 1} x intermediates {None, explicit proper
/// sub-region, explicit equal to the implied region}
fn tent_axis_options() -> Vec<(i16, Option<(i16, i16)>)> {
    let mut v = vec![];
    for p in [-ONE, -ONE / 2, 0, ONE / 2, ONE] {
        v.push((p, None));
        // explicit, equal to what None implies
        v.push((p, Some((p.min(0), p.max(0)))));
        if p != 0 {
            // explicit proper sub-region around the peak (same sign, start <= peak <= end)
            let (lo, hi) = if p > 0 { (p / 2, (p + (ONE - p) / 2).min(ONE)) } else { ((p - (ONE + p) / 2).max(-ONE), p / 2) };
            v.push((p, Some((lo, hi))));
        }
    }
    v
}

/// One region through the real builder; read back; scalars on the quarter-step grid against the exact
/// tent model of the INPUT tents.
fn check_tent(run: &Run, region: &Region, l: &mut Local) {
    let axes = region.len();
    let coords = vec![(0i64, 0i64), (50, 0), (20, 40)];
    let g = GlyphSpec {
        coords: coords.clone(),
        ends: vec![2],
        tol2: 0,
        tuples: vec![TupleSpec {
            region: region.clone(),
            deltas: (0..7).map(|i| (10 + i as i16, -3 * i as i16 + 1, true)).collect(),
        }],
    };
    let gs = [g];
    let case = || json!({"kind":"tent","region":region_json(region)});
    // regions + deltas read back as written (uses the input model: None = (min(peak,0), max(peak,0)))
    let Some(bytes) = check_gvar(run, "b4", &gs, axes as u16, l, &case) else {
        return;
    };
    let want_eff = effective(region);
    let r = guard(|| {
        let gvar = rgvar::Gvar::read(FontData::new(&bytes)).ok()?;
        let data = gvar.glyph_variation_data(GlyphId::new(0)).ok()??;
        let tuple = data.tuples().next()?;
        // quarter-step grid
        let steps: Vec<i16> = (-4..=4).map(|k| (k * (ONE as i32 / 4)) as i16).collect();
        let mut loc = vec![0usize; axes];
        let mut bad: Option<String> = None;
        let mut nonzero = 0u64;
        loop {
            let l16: Vec<i16> = loc.iter().map(|i| steps[*i]).collect();
            let c: Vec<F2Dot14> = l16.iter().map(|b| F2Dot14::from_bits(*b)).collect();
            let exact = exact_scalar(&want_eff, region, &l16);
            if exact.n != 0 {
                nonzero += 1;
            }
            let fixed = tuple.compute_scalar(&c).map(|f| f.to_bits() as f64 / 65536.0).unwrap_or(0.0);
            let float = tuple.compute_scalar_f32(&c).unwrap_or(0.0) as f64;
            let tol = axes as f64 / 65536.0;
            if ((fixed - exact.to_f64()).abs() > tol || (float - exact.to_f64()).abs() > 1e-5) && bad.is_none() {
                bad = Some(format!("location {l16:?}: compute_scalar {fixed}, compute_scalar_f32 {float}, exact {}", exact.to_f64()));
            }
            // the tuple must be active (Some) exactly when the scalar is non-zero (this is what
            // active_tuples_at filters on)
            let active = usize::from(tuple.compute_scalar(&c).is_some());
            if (active == 1) != (exact.n != 0) && bad.is_none() {
                // a scalar that rounds to zero in 16.16 may legitimately drop out
                if !(exact.n != 0 && exact.to_f64().abs() < 1.0 / 65536.0) {
                    bad = Some(format!("location {l16:?}: tuple active = {active}, exact scalar {}", exact.to_f64()));
                }
            }
            if !next_digits(&mut loc, steps.len()) {
                break;
            }
        }
        Some((bad, nonzero))
    });
    l.trans += 3 * 9u64.pow(axes as u32);
    match r {
        Ok(Some((None, nonzero))) => {
            let mut h = Fnv::new();
            h.str("tent");
            h.u64(nonzero);
            for a in &want_eff {
                h.i64(a.0 as i64);
                h.i64(a.1 as i64);
                h.i64(a.2 as i64);
            }
            l.all.insert(h.finish());
            if nonzero > 0 {
                l.nontrivial.insert(h.finish());
            }
        }
        Ok(Some((Some(detail), _))) => {
            let neg_none = region.iter().any(|a| a.0 < 0 && a.1.is_none());
            let mixed = region.iter().any(|a| a.1.is_some()) && region.iter().any(|a| a.1.is_none() && a.0 != 0);
            run.violation(
                &format!(
                    "tuple scalar of a compiled tent differs from the tent given to the builder ({} axes{}{})",
                    axes,
                    if mixed { "; explicit and implied intermediates mixed" } else { "" },
                    if neg_none { "; negative peak with implied intermediates" } else { "" }
                ),
                &format!("{}: {detail}", region_json(region)),
                case(),
            );
        }
        Ok(None) => run.violation("b4: compiled tent cannot be read back", &format!("{}", region_json(region)), case()),
        Err(p) => run.violation(&format!("tuple scalar panic: {} in {}", p.kind(), p.site()), &p.message, case()),
    }
}

fn tent_family(run: &Run) {
    let opts = tent_axis_options();
    run.bound("b4.per_axis_options", json!(opts.len()));
    run.bound("b4.peaks", json!([-1.0, -0.5, 0.0, 0.5, 1.0]));
    run.bound("b4.intermediates", json!(["None (implied)", "explicit, equal to the implied region", "explicit proper sub-region (not for peak 0)"]));
    run.bound("b4.axes", json!([2, 3]));
    run.bound("b4.location_grid", json!("every axis in -1..=1 step 1/4 (9^axes locations)"));
    for axes in [2usize, 3] {
        let total = opts.len().pow(axes as u32);
        let locals: Vec<Local> = (0..total)
            .into_par_iter()
            .map(|t| {
                let mut l = Local::new();
                let mut k = t;
                let region: Region = (0..axes)
                    .map(|_| {
                        let o = opts[k % opts.len()];
                        k /= opts.len();
                        o
                    })
                    .collect();
                check_tent(run, &region, &mut l);
                l
            })
            .collect();
        for l in locals {
            l.merge(run, &format!("b4.axes{axes}"));
        }
    }
    run.sample(json!({"kind":"tent","region":region_json(&vec![(ONE / 2, Some((ONE / 4, 3 * (ONE / 4)))), (-ONE, None)])}));
}

// ---------------------------------------------------------------------------
// (c5) contours with off-curve points: start rule x sparse tuples
// ---------------------------------------------------------------------------

#[derive(Clone, Copy, Debug)]
enum PEl {
    M(f64, f64),
    L(f64, f64),
    Q(f64, f64, f64, f64),
    C,
    Z,
}
#[derive(Default)]
struct PathPen(Vec<PEl>);
impl OutlinePen for PathPen {
    fn move_to(&mut self, x: f32, y: f32) {
        self.0.push(PEl::M(x as f64, y as f64));
    }
    fn line_to(&mut self, x: f32, y: f32) {
        self.0.push(PEl::L(x as f64, y as f64));
    }
    fn quad_to(&mut self, a: f32, b: f32, x: f32, y: f32) {
        self.0.push(PEl::Q(a as f64, b as f64, x as f64, y as f64));
    }
    fn curve_to(&mut self, _: f32, _: f32, _: f32, _: f32, _: f32, _: f32) {
        self.0.push(PEl::C);
    }
    fn close(&mut self) {
        self.0.push(PEl::Z);
    }
}

#[derive(Clone, Copy, Debug)]
enum Sg {
    L([f64; 4]),
    Q([f64; 6]),
}

/// drawn elements -> per contour cyclic segment list (closing line added when needed, zero-length lines
/// dropped); None for a malformed stream
fn drawn_segments(els: &[PEl]) -> Option<Vec<Vec<Sg>>> {
    let mut out = vec![];
    let mut cur: Vec<Sg> = vec![];
    let (mut start, mut at, mut open) = ((0.0, 0.0), (0.0, 0.0), false);
    let close = |cur: &mut Vec<Sg>, out: &mut Vec<Vec<Sg>>, at: (f64, f64), start: (f64, f64)| {
        if at != start {
            cur.push(Sg::L([at.0, at.1, start.0, start.1]));
        }
        out.push(std::mem::take(cur));
    };
    for e in els {
        match *e {
            PEl::M(x, y) => {
                if open {
                    close(&mut cur, &mut out, at, start);
                }
                start = (x, y);
                at = start;
                open = true;
            }
            PEl::L(x, y) => {
                if !open {
                    return None;
                }
                if (x, y) != at {
                    cur.push(Sg::L([at.0, at.1, x, y]));
                }
                at = (x, y);
            }
            PEl::Q(a, b, x, y) => {
                if !open {
                    return None;
                }
                cur.push(Sg::Q([at.0, at.1, a, b, x, y]));
                at = (x, y);
            }
            PEl::C => return None,
            PEl::Z => {
                if open {
                    close(&mut cur, &mut out, at, start);
                    open = false;
                }
            }
        }
    }
    if open {
        close(&mut cur, &mut out, at, start);
    }
    Some(out)
}

/// TrueType contour -> cyclic segment list, from the ORIGINAL on/off flags: implied on-curve points
/// between two off-curve points, then lines between on-curve neighbours and quads around each off-curve.
fn model_segments(pts: &[(f64, f64)], on: &[bool]) -> Vec<Sg> {
    let n = pts.len();
    let mut anchors: Vec<((f64, f64), bool)> = vec![];
    for i in 0..n {
        anchors.push((pts[i], on[i]));
        let j = (i + 1) % n;
        if !on[i] && !on[j] && n > 1 {
            anchors.push((((pts[i].0 + pts[j].0) / 2.0, (pts[i].1 + pts[j].1) / 2.0), true));
        }
    }
    let m = anchors.len();
    let Some(first_on) = anchors.iter().position(|a| a.1) else {
        return vec![];
    };
    let mut segs = vec![];
    let mut i = 0;
    while i < m {
        let a = anchors[(first_on + i) % m];
        let b = anchors[(first_on + i + 1) % m];
        if b.1 {
            if a.0 != b.0 {
                segs.push(Sg::L([a.0 .0, a.0 .1, b.0 .0, b.0 .1]));
            }
            i += 1;
        } else {
            let c = anchors[(first_on + i + 2) % m];
            segs.push(Sg::Q([a.0 .0, a.0 .1, b.0 .0, b.0 .1, c.0 .0, c.0 .1]));
            i += 2;
        }
    }
    segs
}

fn sg_close(a: &Sg, b: &Sg, tol: f64) -> bool {
    match (a, b) {
        (Sg::L(x), Sg::L(y)) => x.iter().zip(y).all(|(p, q)| (p - q).abs() <= tol),
        (Sg::Q(x), Sg::Q(y)) => x.iter().zip(y).all(|(p, q)| (p - q).abs() <= tol),
        _ => false,
    }
}
fn sg_cyclic_equal(a: &[Sg], b: &[Sg], tol: f64) -> bool {
    a.len() == b.len() && (a.is_empty() || (0..a.len()).any(|r| (0..a.len()).all(|i| sg_close(&a[i], &b[(i + r) % b.len()], tol))))
}

fn curve_json(f: &FontSpec, on: &[bool], loc: &[i16], style: &str) -> Value {
    let mut v = font_json(f, loc, style);
    v["kind"] = json!("curve");
    v["on"] = json!(on);
    v
}

fn check_curve_font(run: &Run, f: &FontSpec, on: &[bool], locs: &[Vec<i16>], l: &mut Local) {
    if let Err(p) = guard(|| check_curve_font_inner(run, f, on, locs, l)) {
        run.violation(
            &format!("c5: panic while reading / drawing a built font: {} in {}", p.kind(), p.site()),
            &format!("{} ({}:{})", p.message, p.file, p.line),
            curve_json(f, on, &[], "panic"),
        );
    }
}

fn check_curve_font_inner(run: &Run, f: &FontSpec, on: &[bool], locs: &[Vec<i16>], l: &mut Local) {
    let g = &f.glyph;
    let n = g.coords.len();
    let bytes = match build_var_font_with(f, Some(on)) {
        Ok(b) => b,
        Err(e) => {
            run.violation("c5: variable font cannot be built", &e, curve_json(f, on, &[], "build"));
            return;
        }
    };
    let mut all = g.coords.clone();
    all.extend([(0, 0), (f.advance as i64, 0), (0, 0), (0, 0)]);
    let Ok(gv) = build_gvar(std::slice::from_ref(g), f.axis_count) else { return };
    let Ok(rg) = rgvar::Gvar::read(FontData::new(&gv)) else {
        run.violation("c5: compiled gvar does not parse", "", curve_json(f, on, &[], "parse"));
        return;
    };
    let dec = match decode_glyph(&rg, 0, n + 4, f.axis_count as usize) {
        Ok(d) => d,
        Err(e) => {
            run.violation("c5: glyph variation data unreadable", &e, curve_json(f, on, &[], "decode"));
            return;
        }
    };
    let inferred: Vec<Vec<(R, R)>> = dec.iter().map(|d| infer(&all, &g.ends, &d.explicit)).collect();
    let Ok(font) = FontRef::new(&bytes) else {
        run.violation("c5: built font does not parse", "", curve_json(f, on, &[], "parse"));
        return;
    };
    let Some(og) = font.outline_glyphs().get(GlyphId::new(0)) else {
        run.violation("c5: no outline for glyph 0", "", curve_json(f, on, &[], "parse"));
        return;
    };
    for loc in locs {
        l.evals += 1;
        l.trans += 2;
        let coords: Vec<F2Dot14> = loc.iter().map(|b| F2Dot14::from_bits(*b)).collect();
        let scalars: Vec<R> = g.tuples.iter().zip(dec.iter()).map(|(t, d)| exact_scalar(&d.eff, &t.region, loc)).collect();
        let active = scalars.iter().filter(|s| s.n != 0).count();
        // model: default + sum(scalar x full delta) per point; contour structure from the original flags
        let pts: Vec<(f64, f64)> = (0..n)
            .map(|i| {
                let mut ex = R::int(all[i].0 as i128);
                let mut ey = R::int(all[i].1 as i128);
                for (t, s) in scalars.iter().enumerate() {
                    if s.n != 0 {
                        ex = ex.add(s.mul(inferred[t][i].0));
                        ey = ey.add(s.mul(inferred[t][i].1));
                    }
                }
                (ex.to_f64(), ey.to_f64())
            })
            .collect();
        let mut want: Vec<Vec<Sg>> = vec![];
        let mut start = 0;
        for &e in &g.ends {
            want.push(model_segments(&pts[start..=e], &on[start..=e]));
            start = e + 1;
        }
        for (style_name, style) in [
            ("freetype", skrifa::outline::pen::PathStyle::FreeType),
            ("harfbuzz", skrifa::outline::pen::PathStyle::HarfBuzz),
        ] {
            let mut pen = PathPen::default();
            let settings = DrawSettings::unhinted(Size::unscaled(), LocationRef::new(&coords)).with_path_style(style);
            match guard(|| og.draw(settings, &mut pen)) {
                Ok(Ok(_)) => {}
                Ok(Err(e)) => {
                    run.violation(&format!("c5: draw fails ({style_name})"), &format!("{e}"), curve_json(f, on, loc, style_name));
                    continue;
                }
                Err(p) => {
                    run.violation(&format!("c5: draw panic: {} in {}", p.kind(), p.site()), &p.message, curve_json(f, on, loc, style_name));
                    continue;
                }
            }
            // whole-unit rounding of every point (FreeType style) moves a coordinate, and therefore an
            // implied midpoint, by at most half a unit; a wrong start rule changes segment kinds
            let tol = 0.5 + 0.01;
            let ok = match drawn_segments(&pen.0) {
                Some(got) => got.len() == want.len() && got.iter().zip(want.iter()).all(|(a, b)| sg_cyclic_equal(a, b, tol)),
                None => false,
            };
            if !ok {
                let first_off = !on[0];
                let last_on = on[g.ends[0]];
                let sparse = dec.iter().zip(scalars.iter()).any(|(d, s)| s.n != 0 && !d.all_points);
                run.violation(
                    &format!(
                        "drawn curved outline differs from default + Σ scalar·delta with the contour structure of the original flags ({style_name}; contour starts {}-curve and ends {}-curve; {})",
                        if first_off { "off" } else { "on" },
                        if last_on { "on" } else { "off" },
                        if sparse { "sparse tuple active" } else if active > 0 { "dense tuples only" } else { "default location" }
                    ),
                    &format!("location {loc:?}: drawn {:?}; model points {:?}", pen.0, pts),
                    curve_json(f, on, loc, style_name),
                );
            }
            let mut h = Fnv::new();
            h.str("c5");
            h.str(style_name);
            for e in &pen.0 {
                match e {
                    PEl::M(x, y) | PEl::L(x, y) => {
                        h.u64(x.to_bits());
                        h.u64(y.to_bits());
                    }
                    PEl::Q(a, b, x, y) => {
                        h.u64(a.to_bits());
                        h.u64(b.to_bits());
                        h.u64(x.to_bits());
                        h.u64(y.to_bits());
                    }
                    _ => h.u64(7),
                }
            }
            l.all.insert(h.finish());
            if active > 0 {
                l.nontrivial.insert(h.finish());
            }
        }
    }
}

fn curve_family(run: &Run) {
    let ring: Vec<(i64, i64)> = vec![(200, 100), (150, 187), (50, 187), (0, 100), (50, 13), (150, 13)];
    // first / last flag patterns: off..on, off..off, on..off, on..on
    let patterns: Vec<(&str, Vec<bool>)> = vec![
        ("off..on", vec![false, true, false, true, false, true]),
        ("off..off", vec![false, true, true, false, true, false]),
        ("on..off", vec![true, false, true, false, true, false]),
        ("on..on", vec![true, false, true, true, false, true]),
    ];
    let tents = tents_1axis();
    // explicit-delta sets over the 6 points of a contour
    let sets: Vec<(&str, Vec<usize>)> = vec![
        ("all (dense)", vec![0, 1, 2, 3, 4, 5]),
        ("last only", vec![5]),
        ("first only", vec![0]),
        ("first and last", vec![0, 5]),
        ("middle only", vec![2, 3]),
        ("all but the last", vec![0, 1, 2, 3, 4]),
        ("all but the first", vec![1, 2, 3, 4, 5]),
    ];
    run.bound("c5.flag_patterns", json!(patterns.iter().map(|p| p.0).collect::<Vec<_>>()));
    run.bound("c5.explicit_delta_sets", json!(sets.iter().map(|p| p.0).collect::<Vec<_>>()));
    run.bound("c5.tuple_lists", json!("one tuple over each set; (set, dense), (dense, set), (set, last only), (set, middle only)"));
    run.bound("c5.locations", json!([0.0, 0.25, 0.5, 1.0]));
    let mut glyphs: Vec<(Vec<(i64, i64)>, Vec<usize>, Vec<bool>)> = vec![];
    for (_, on) in &patterns {
        glyphs.push((ring.clone(), vec![5], on.clone()));
    }
    // two contours: off..on followed by on..off (point numbers of the second contour are shifted)
    {
        let mut c = ring.clone();
        c.extend(ring.iter().map(|p| (p.0 + 300, p.1 + 20)));
        let mut on = patterns[0].1.clone();
        on.extend(patterns[2].1.iter());
        glyphs.push((c, vec![5, 11], on));
    }
    let mut fonts: Vec<(FontSpec, Vec<bool>)> = vec![];
    for (coords, ends, on) in &glyphs {
        let n = coords.len();
        let mut all = coords.clone();
        all.extend([(0, 0), (600, 0), (0, 0), (0, 0)]);
        let make = |set: &Vec<usize>, region: &Region, salt: i16| -> TupleSpec {
            let mut explicit: Vec<Option<(i64, i64)>> = vec![None; n + 4];
            for c in 0..ends.len() {
                for &p in set {
                    let i = 6 * c + p;
                    explicit[i] = Some(((8 * i as i16 + 4 + salt) as i64, (4 * i as i16 - 12 - salt) as i64));
                }
            }
            let inf = infer(&all, ends, &explicit);
            TupleSpec {
                region: region.clone(),
                deltas: (0..n + 4)
                    .map(|i| match explicit[i] {
                        Some((x, y)) => (x as i16, y as i16, true),
                        None => ((inf[i].0.to_f64() + 0.5).floor() as i16, (inf[i].1.to_f64() + 0.5).floor() as i16, false),
                    })
                    .collect(),
            }
        };
        let mut lists: Vec<Vec<TupleSpec>> = vec![];
        for (_, s) in &sets {
            lists.push(vec![make(s, &tents[0], 0)]);
            lists.push(vec![make(s, &tents[0], 0), make(&sets[0].1, &tents[1], 40)]);
            lists.push(vec![make(&sets[0].1, &tents[0], 40), make(s, &tents[1], 0)]);
            lists.push(vec![make(s, &tents[0], 0), make(&sets[1].1, &tents[1], 16)]);
            lists.push(vec![make(s, &tents[0], 0), make(&sets[4].1, &tents[1], 16)]);
        }
        for tuples in lists {
            fonts.push((
                FontSpec { axis_count: 1, advance: 600, glyph: GlyphSpec { coords: coords.clone(), ends: ends.clone(), tol2: 2, tuples } },
                on.clone(),
            ));
        }
    }
    run.count("c5.fonts", fonts.len() as u64);
    let locs: Vec<Vec<i16>> = vec![vec![0], vec![ONE / 4], vec![ONE / 2], vec![ONE]];
    let locals: Vec<Local> = fonts
        .par_iter()
        .map(|(f, on)| {
            let mut l = Local::new();
            check_curve_font(run, f, on, &locs, &mut l);
            l
        })
        .collect();
    for l in locals {
        l.merge(run, "c5");
    }
}

// ---------------------------------------------------------------------------
// (c3) sparse tuples whose x deltas contain zero runs, drawn
// ---------------------------------------------------------------------------

/// x delta of the j-th referenced point (of k): a zero run of length `z` at `pos` (0 start, 1 middle,
/// 2 end), every other value a byte (5 / -6) or a word (300 / -301) delta
fn zero_run_x(j: usize, k: usize, z: usize, pos: u8, word: bool) -> i16 {
    let z = z.min(k);
    let start = match pos {
        0 => 0,
        1 => (k - z) / 2,
        _ => k - z,
    };
    if j >= start && j < start + z {
        0
    } else if word {
        if j % 2 == 0 { 300 } else { -301 }
    } else if j % 2 == 0 {
        5
    } else {
        -6
    }
}

fn sparse_run_family(run: &Run) {
    // two polygon contours of 75 points each
    let per = 75usize;
    let mut coords: Vec<(i64, i64)> = (0..per).map(|i| (((i * 37) % 211) as i64, ((i * 91) % 197) as i64 - 60)).collect();
    coords.extend((0..per).map(|i| (300 + ((i * 53) % 199) as i64, ((i * 29) % 173) as i64)));
    let ends = vec![per - 1, 2 * per - 1];
    let n = coords.len();
    let advance = 600u16;
    let mut all = coords.clone();
    all.extend([(0, 0), (advance as i64, 0), (0, 0), (0, 0)]);
    // referenced point sets
    let point_sets: Vec<(&str, Vec<usize>)> = vec![
        ("first only", vec![0]),
        ("last only", vec![n - 1]),
        ("every other", (0..n).step_by(2).collect()),
        ("a whole contour except one point", (0..per).filter(|i| *i != 40).collect()),
        ("points in two contours", (0..40).chain(per..per + 40).collect()),
    ];
    run.bound("c3.point_sets", json!(point_sets.iter().map(|p| format!("{} ({} points)", p.0, p.1.len())).collect::<Vec<_>>()));
    run.bound("c3.x_zero_runs", json!("length {1, 2, 63, 64, 65} (clamped to the set size) at start / middle / end of the referenced x deltas; other x deltas byte (5/-6) or word (300/-301); y deltas always non-zero (byte or word)"));
    run.bound("c3.tuple_configs", json!(["one tuple (private point numbers)", "two tuples over the same point set (shared point numbers)"]));
    let tents = tents_1axis();
    let make = |set: &Vec<usize>, z: usize, pos: u8, word: bool, region: &Region, salt: i16| -> TupleSpec {
        let k = set.len();
        let mut explicit: Vec<Option<(i64, i64)>> = vec![None; n + 4];
        for (j, &p) in set.iter().enumerate() {
            let y = if word { 200 + 3 * j as i16 + salt } else { 7 + (j % 50) as i16 + salt };
            explicit[p] = Some((zero_run_x(j, k, z, pos, word) as i64, y as i64));
        }
        let inf = infer(&all, &ends, &explicit);
        TupleSpec {
            region: region.clone(),
            deltas: (0..n + 4)
                .map(|i| match explicit[i] {
                    Some((x, y)) => (x as i16, y as i16, true),
                    None => ((inf[i].0.to_f64() + 0.5).floor() as i16, (inf[i].1.to_f64() + 0.5).floor() as i16, false),
                })
                .collect(),
        }
    };
    let mut fonts: Vec<FontSpec> = vec![];
    let mut seen: HashSet<(usize, usize, u8, bool)> = HashSet::new();
    for (si, (_, set)) in point_sets.iter().enumerate() {
        for z in [1usize, 2, 63, 64, 65] {
            for pos in 0..3u8 {
                for word in [false, true] {
                    // a run longer than the set is the whole set; position then makes no difference
                    let zc = z.min(set.len());
                    let key = (si, zc, if zc == set.len() { 0 } else { pos }, word);
                    if !seen.insert(key) {
                        continue;
                    }
                    for shared in [false, true] {
                        let mut tuples = vec![make(set, z, pos, word, &tents[0], 0)];
                        if shared {
                            tuples.push(make(set, (z + 1).min(65), (pos + 1) % 3, !word, &tents[1], 11));
                        }
                        fonts.push(FontSpec {
                            axis_count: 1,
                            advance,
                            glyph: GlyphSpec { coords: coords.clone(), ends: ends.clone(), tol2: 2, tuples },
                        });
                    }
                }
            }
        }
    }
    run.count("c3.fonts", fonts.len() as u64);
    let sparse_seen = std::sync::atomic::AtomicU64::new(0);
    let locals: Vec<Local> = fonts
        .par_iter()
        .map(|f| {
            let mut l = Local::new();
            // the point of the family is the sparse encoding: count how many tuples really are sparse
            let _ = guard(|| {
                if let Ok(gv) = build_gvar(std::slice::from_ref(&f.glyph), 1) {
                    if let Ok(rg) = rgvar::Gvar::read(FontData::new(&gv)) {
                        if let Ok(dec) = decode_glyph(&rg, 0, n + 4, 1) {
                            sparse_seen.fetch_add(dec.iter().filter(|d| !d.all_points).count() as u64, std::sync::atomic::Ordering::Relaxed);
                        }
                    }
                }
            });
            let regions: Vec<Region> = f.glyph.tuples.iter().map(|t| t.region.clone()).collect();
            let locs: Vec<Vec<i16>> = axis_locations(&regions, 0).iter().map(|x| vec![*x]).collect();
            check_font(run, f, &locs, &mut l);
            l
        })
        .collect();
    for l in locals {
        l.merge(run, "c3");
    }
    let sparse = sparse_seen.load(std::sync::atomic::Ordering::Relaxed);
    run.count("c3.tuples_stored_sparse", sparse);
    if sparse == 0 && run.violations() == 0 {
        run.machinery_error("c3: no tuple of the zero-run family was stored with explicit point numbers");
    }
}

// ---------------------------------------------------------------------------
// (c2) variable composites
// ---------------------------------------------------------------------------

#[derive(Clone, Debug)]
struct CompSpec {
    gid: u16,
    ox: i16,
    oy: i16,
    xf: [i16; 4], // F2Dot14 bits: xx, yx, xy, yy
    use_my_metrics: bool,
    round_xy: bool,
    unscaled_offset: bool,
}

#[derive(Clone, Debug)]
enum VGlyph {
    Simple(GlyphSpec),
    /// one delta per component offset + 4 phantoms in every tuple; all required
    Composite { comps: Vec<CompSpec>, tuples: Vec<TupleSpec> },
}

#[derive(Clone, Debug)]
struct CFont {
    glyphs: Vec<VGlyph>,
    axis_count: u16,
}

const IDENTITY: [i16; 4] = [ONE, 0, 0, ONE];
const C_ADVANCE: u16 = 700;

fn vglyph_gvar_spec(g: &VGlyph) -> GlyphSpec {
    match g {
        VGlyph::Simple(s) => s.clone(),
        VGlyph::Composite { comps, tuples } => {
            GlyphSpec { coords: vec![(0, 0); comps.len()], ends: vec![], tuples: tuples.clone(), tol2: 0 }
        }
    }
}

fn cfont_json(f: &CFont, gid: u32, loc: &[i16], style: &str) -> Value {
    // a simple glyph draws the same whatever else is in the font: keep only that glyph (fonts of the
    // c6 family hold hundreds)
    if f.glyphs.len() > 8 {
        if let Some(VGlyph::Simple(s)) = f.glyphs.get(gid as usize) {
            return json!({
                "kind": "cdraw", "axis_count": f.axis_count, "draw_glyph": 0, "location": loc, "style": style,
                "glyphs": [json!({"simple": glyph_json(s)})],
            });
        }
    }
    json!({
        "kind": "cdraw", "axis_count": f.axis_count, "draw_glyph": gid, "location": loc, "style": style,
        "glyphs": f.glyphs.iter().map(|g| match g {
            VGlyph::Simple(s) => json!({"simple": glyph_json(s)}),
            VGlyph::Composite { comps, tuples } => json!({
                "comps": comps.iter().map(|c| json!({"gid":c.gid,"ox":c.ox,"oy":c.oy,"xf":c.xf,"mm":c.use_my_metrics,"round":c.round_xy,"unscaled":c.unscaled_offset})).collect::<Vec<_>>(),
                "tuples": tuples.iter().map(|t| json!({"region": region_json(&t.region), "deltas": t.deltas.iter().map(|d| json!([d.0,d.1,d.2 as u8])).collect::<Vec<_>>()})).collect::<Vec<_>>(),
            }),
        }).collect::<Vec<_>>(),
    })
}

fn cfont_from_json(v: &Value) -> CFont {
    let tuples = |t: &Value| -> Vec<TupleSpec> {
        t.as_array()
            .unwrap()
            .iter()
            .map(|t| TupleSpec {
                region: region_from_json(&t["region"]),
                deltas: t["deltas"]
                    .as_array()
                    .unwrap()
                    .iter()
                    .map(|d| (d[0].as_i64().unwrap() as i16, d[1].as_i64().unwrap() as i16, d[2].as_i64().unwrap() != 0))
                    .collect(),
            })
            .collect()
    };
    CFont {
        axis_count: v["axis_count"].as_u64().unwrap() as u16,
        glyphs: v["glyphs"]
            .as_array()
            .unwrap()
            .iter()
            .map(|g| {
                if g.get("simple").is_some() {
                    VGlyph::Simple(glyph_from_json(&g["simple"]))
                } else {
                    VGlyph::Composite {
                        comps: g["comps"]
                            .as_array()
                            .unwrap()
                            .iter()
                            .map(|c| CompSpec {
                                gid: c["gid"].as_u64().unwrap() as u16,
                                ox: c["ox"].as_i64().unwrap() as i16,
                                oy: c["oy"].as_i64().unwrap() as i16,
                                xf: {
                                    let a = c["xf"].as_array().unwrap();
                                    [0, 1, 2, 3].map(|i| a[i].as_i64().unwrap() as i16)
                                },
                                use_my_metrics: c["mm"].as_bool().unwrap(),
                                round_xy: c["round"].as_bool().unwrap(),
                                unscaled_offset: c["unscaled"].as_bool().unwrap(),
                            })
                            .collect(),
                        tuples: tuples(&g["tuples"]),
                    }
                }
            })
            .collect(),
    }
}

fn simple_write_glyph(g: &GlyphSpec) -> (SimpleGlyph, Bbox) {
    let mut contours = vec![];
    let mut start = 0;
    for &e in &g.ends {
        contours.push(Contour::from(
            g.coords[start..=e]
                .iter()
                .map(|p| read_fonts::tables::glyf::CurvePoint::new(p.0 as i16, p.1 as i16, true))
                .collect::<Vec<_>>(),
        ));
        start = e + 1;
    }
    let xs = g.coords.iter().map(|p| p.0 as i16);
    let ys = g.coords.iter().map(|p| p.1 as i16);
    let bbox = Bbox {
        x_min: xs.clone().min().unwrap(),
        x_max: xs.max().unwrap(),
        y_min: ys.clone().min().unwrap(),
        y_max: ys.max().unwrap(),
    };
    (SimpleGlyph { bbox, contours, instructions: vec![] }, bbox)
}

fn build_cfont(f: &CFont) -> Result<Vec<u8>, String> {
    let mut b = GlyfLocaBuilder::new();
    let mut metrics = vec![];
    for g in &f.glyphs {
        match g {
            VGlyph::Simple(s) if s.coords.is_empty() => {
                // a glyph without an outline (its variation data moves the phantom points only)
                b.add_glyph(&Glyph::Empty).map_err(|e| format!("{e}"))?;
                metrics.push(LongMetric::new(C_ADVANCE, 0));
            }
            VGlyph::Simple(s) => {
                let (glyph, bbox) = simple_write_glyph(s);
                b.add_glyph(&glyph).map_err(|e| format!("{e}"))?;
                metrics.push(LongMetric::new(C_ADVANCE, bbox.x_min));
            }
            VGlyph::Composite { comps, .. } => {
                // xMin = 0 and lsb = 0: phantom point 1 of the composite is at the origin
                let bbox = Bbox { x_min: 0, y_min: -100, x_max: 900, y_max: 900 };
                let mk = |c: &CompSpec| {
                    Component::new(
                        GlyphId16::new(c.gid),
                        Anchor::Offset { x: c.ox, y: c.oy },
                        Transform {
                            xx: F2Dot14::from_bits(c.xf[0]),
                            yx: F2Dot14::from_bits(c.xf[1]),
                            xy: F2Dot14::from_bits(c.xf[2]),
                            yy: F2Dot14::from_bits(c.xf[3]),
                        },
                        ComponentFlags {
                            round_xy_to_grid: c.round_xy,
                            use_my_metrics: c.use_my_metrics,
                            unscaled_component_offset: c.unscaled_offset,
                            ..Default::default()
                        },
                    )
                };
                let mut cg = CompositeGlyph::new(mk(&comps[0]), bbox);
                for c in &comps[1..] {
                    cg.add_component(mk(c), bbox);
                }
                b.add_glyph(&Glyph::Composite(cg)).map_err(|e| format!("{e}"))?;
                metrics.push(LongMetric::new(C_ADVANCE, 0));
            }
        }
    }
    let (glyf, loca, fmt) = b.build();
    let specs: Vec<GlyphSpec> = f.glyphs.iter().map(vglyph_gvar_spec).collect();
    let gvar = build_gvar(&specs, f.axis_count)?;
    let n = f.glyphs.len() as u16;
    let head = Head { units_per_em: 1000, index_to_loc_format: fmt as i16, ..Default::default() };
    let hhea = Hhea { number_of_h_metrics: n, ..Default::default() };
    let hmtx = Hmtx::new(metrics, vec![]);
    let mut fb = FontBuilder::new();
    fb.add_table(&head).map_err(|e| format!("{e}"))?;
    fb.add_table(&hhea).map_err(|e| format!("{e}"))?;
    fb.add_table(&hmtx).map_err(|e| format!("{e}"))?;
    fb.add_table(&Maxp::new(n)).map_err(|e| format!("{e}"))?;
    fb.add_table(&glyf).map_err(|e| format!("{e}"))?;
    fb.add_table(&loca).map_err(|e| format!("{e}"))?;
    fb.add_raw(Tag::new(b"gvar"), gvar);
    Ok(fb.build())
}

/// inclusive integer interval of acceptable drawn values
#[derive(Clone, Copy, Debug)]
struct Iv {
    lo: i128,
    hi: i128,
}
fn round_iv(e: R, eps: R) -> Iv {
    Iv { lo: floor_r(e.sub(eps).add(R::new(1, 2))), hi: floor_r(e.add(eps).add(R::new(1, 2))) }
}
fn ceil_r(r: R) -> i128 {
    -floor_r(R { n: -r.n, d: r.d })
}

/// what the reference knows about one glyph at one location
struct Eval {
    /// FreeType-style: integer interval per coordinate (before the origin shift)
    iv: Vec<(Iv, Iv)>,
    /// exact values (HarfBuzz-style has no rounding step)
    exact: Vec<(R, R)>,
    /// phantom point 1 x: interval and exact
    pp1: (Iv, R),
    /// phantom point 2 x (advance + its delta): interval and exact
    pp2: (Iv, R),
    /// accumulated fixed-point error bound of everything below
    eps: R,
    /// number of active tuples in the whole tree
    active: usize,
}

struct CRef<'a> {
    font: &'a CFont,
    dec: &'a [Vec<Decoded>], // per glyph, read back from the compiled gvar
    loc: &'a [i16],
}

impl CRef<'_> {
    /// exact deltas Σ scalar·delta for every point (incl. phantoms) of glyph `gid`, error bound, active count
    fn deltas(&self, gid: usize, all: &[(i64, i64)], ends: &[usize], tuples: &[TupleSpec]) -> (Vec<(R, R)>, R, usize) {
        let mut out = vec![(R::int(0), R::int(0)); all.len()];
        let mut eps_num: i128 = 0;
        let mut active = 0;
        for (t, d) in tuples.iter().zip(self.dec[gid].iter()) {
            let s = exact_scalar(&d.eff, &t.region, self.loc);
            if s.n == 0 {
                continue;
            }
            active += 1;
            let m = d.explicit.iter().flatten().map(|e| e.0.abs().max(e.1.abs())).max().unwrap_or(0) as i128;
            eps_num += m * self.font.axis_count as i128 + 3;
            if !d.all_points && !ends.is_empty() {
                // inference in 16.16: the slope (out2 - out1) / (in2 - in1) carries one rounding of up to
                // 2^-16 and is multiplied by a coordinate difference of at most the glyph's extent
                let ext = |f: &dyn Fn(&(i64, i64)) -> i64| all.iter().map(f).max().unwrap_or(0) - all.iter().map(f).min().unwrap_or(0);
                eps_num += (ext(&|p| p.0).max(ext(&|p| p.1)) + 1) as i128;
            }
            let inf = infer(all, ends, &d.explicit);
            for i in 0..all.len() {
                out[i] = (out[i].0.add(s.mul(inf[i].0)), out[i].1.add(s.mul(inf[i].1)));
            }
        }
        (out, R::new(eps_num, 1 << 16), active)
    }

    fn eval(&self, gid: usize) -> Eval {
        match &self.font.glyphs[gid] {
            VGlyph::Simple(g) => {
                let mut all = g.coords.clone();
                all.extend([(0, 0), (C_ADVANCE as i64, 0), (0, 0), (0, 0)]);
                let (d, eps, active) = self.deltas(gid, &all, &g.ends, &g.tuples);
                let n = g.coords.len();
                let mut iv = vec![];
                let mut exact = vec![];
                for i in 0..n {
                    let (rx, ry) = (round_iv(d[i].0, eps), round_iv(d[i].1, eps));
                    let (x, y) = (all[i].0 as i128, all[i].1 as i128);
                    iv.push((Iv { lo: x + rx.lo, hi: x + rx.hi }, Iv { lo: y + ry.lo, hi: y + ry.hi }));
                    exact.push((R::int(x).add(d[i].0), R::int(y).add(d[i].1)));
                }
                let r2 = round_iv(d[n + 1].0, eps);
                let adv = C_ADVANCE as i128;
                Eval { iv, exact, pp1: (round_iv(d[n].0, eps), d[n].0), pp2: (Iv { lo: adv + r2.lo, hi: adv + r2.hi }, R::int(adv).add(d[n + 1].0)), eps, active }
            }
            VGlyph::Composite { comps, tuples } => {
                let nc = comps.len();
                let all = vec![(0i64, 0i64); nc + 4];
                // composites: no inference, an unreferenced component has no delta
                let (d, eps, mut active) = self.deltas(gid, &all, &[], tuples);
                let mut total_eps = eps;
                let mut pp1 = (round_iv(d[nc].0, eps), d[nc].0);
                let r2 = round_iv(d[nc + 1].0, eps);
                let adv = C_ADVANCE as i128;
                let mut pp2 = (Iv { lo: adv + r2.lo, hi: adv + r2.hi }, R::int(adv).add(d[nc + 1].0));
                let mut iv = vec![];
                let mut exact = vec![];
                for (i, c) in comps.iter().enumerate() {
                    let child = self.eval(c.gid as usize);
                    active += child.active;
                    total_eps = total_eps.add(child.eps);
                    if c.use_my_metrics {
                        pp1 = child.pp1;
                        pp2 = child.pp2;
                    }
                    let m = [c.xf[0], c.xf[1], c.xf[2], c.xf[3]].map(|b| R::new(b as i128, 1 << 14));
                    let have_xform = c.xf != IDENTITY;
                    let off_iv = (round_iv(d[i].0, eps), round_iv(d[i].1, eps));
                    let (ox, oy) = (c.ox as i128, c.oy as i128);
                    for (p_iv, p_ex) in child.iv.iter().zip(child.exact.iter()) {
                        // exact: M p + o + delta
                        let ex = m[0].mul(p_ex.0).add(m[2].mul(p_ex.1)).add(R::int(ox)).add(d[i].0);
                        let ey = m[1].mul(p_ex.0).add(m[3].mul(p_ex.1)).add(R::int(oy)).add(d[i].1);
                        exact.push((ex, ey));
                        // interval: the transform of an integer point is two 16.16 products, each rounded
                        // to a whole unit -> the result lies within one unit of the exact linear form
                        let lin = |a: R, b: R| -> Iv {
                            if !have_xform {
                                return Iv { lo: 0, hi: 0 }; // handled below
                            }
                            let corners = [
                                a.mul(R::int(p_iv.0.lo)).add(b.mul(R::int(p_iv.1.lo))),
                                a.mul(R::int(p_iv.0.lo)).add(b.mul(R::int(p_iv.1.hi))),
                                a.mul(R::int(p_iv.0.hi)).add(b.mul(R::int(p_iv.1.lo))),
                                a.mul(R::int(p_iv.0.hi)).add(b.mul(R::int(p_iv.1.hi))),
                            ];
                            let mn = corners.iter().copied().fold(corners[0], |m, c| if c.sub(m).n < 0 { c } else { m });
                            let mx = corners.iter().copied().fold(corners[0], |m, c| if c.sub(m).n > 0 { c } else { m });
                            Iv { lo: ceil_r(mn.sub(R::int(1))), hi: floor_r(mx.add(R::int(1))) }
                        };
                        let (tx, ty) = if have_xform { (lin(m[0], m[2]), lin(m[1], m[3])) } else { (p_iv.0, p_iv.1) };
                        iv.push((
                            Iv { lo: tx.lo + ox + off_iv.0.lo, hi: tx.hi + ox + off_iv.0.hi },
                            Iv { lo: ty.lo + oy + off_iv.1.lo, hi: ty.hi + oy + off_iv.1.hi },
                        ));
                    }
                }
                Eval { iv, exact, pp1, pp2, eps: total_eps, active }
            }
        }
    }
}

fn check_cfont(run: &Run, f: &CFont, draw: &[u32], locs: &[Vec<i16>], reuse: bool, l: &mut Local) {
    if let Err(p) = guard(|| check_cfont_inner(run, f, draw, locs, reuse, l)) {
        run.violation(
            &format!("c2: panic while reading / drawing a built font: {} in {}", p.kind(), p.site()),
            &format!("{} ({}:{})", p.message, p.file, p.line),
            cfont_json(f, 0, &[], "panic"),
        );
    }
}

fn check_cfont_inner(run: &Run, f: &CFont, draw: &[u32], locs: &[Vec<i16>], reuse: bool, l: &mut Local) {
    let bytes = match guard(|| build_cfont(f)) {
        Ok(Ok(b)) => b,
        Ok(Err(e)) => {
            run.violation("c2: variable composite font cannot be built", &e, cfont_json(f, 0, &[], "build"));
            return;
        }
        Err(p) => {
            run.violation(&format!("c2: font build panic: {} in {}", p.kind(), p.site()), &p.message, cfont_json(f, 0, &[], "build"));
            return;
        }
    };
    // (b) for composites: the compiled gvar reads back as written (component deltas are all required)
    let specs: Vec<GlyphSpec> = f.glyphs.iter().map(vglyph_gvar_spec).collect();
    {
        let case = || cfont_json(f, 0, &[], "gvar");
        if check_gvar(run, "c2", &specs, f.axis_count, l, &case).is_none() {
            return;
        }
    }
    let Ok(gv) = build_gvar(&specs, f.axis_count) else {
        run.violation("c2: gvar cannot be built a second time", "", cfont_json(f, 0, &[], "build"));
        return;
    };
    let rg = match rgvar::Gvar::read(FontData::new(&gv)) {
        Ok(g) => g,
        Err(e) => {
            run.violation("c2: compiled gvar does not parse", &format!("{e}"), cfont_json(f, 0, &[], "parse"));
            return;
        }
    };
    let mut dec = vec![];
    for (gid, s) in specs.iter().enumerate() {
        match decode_glyph(&rg, gid as u32, s.coords.len() + 4, f.axis_count as usize) {
            Ok(d) => dec.push(d),
            Err(e) => {
                run.violation("c2: glyph variation data unreadable", &e, cfont_json(f, gid as u32, &[], "decode"));
                return;
            }
        }
    }
    let font = match FontRef::new(&bytes) {
        Ok(f) => f,
        Err(e) => {
            run.violation("c2: built font does not parse", &format!("{e}"), cfont_json(f, 0, &[], "parse"));
            return;
        }
    };
    let outlines = font.outline_glyphs();
    let n = f.glyphs.len() as u32;
    let mut ogs = vec![];
    for gid in 0..n {
        let Some(og) = outlines.get(GlyphId::new(gid)) else {
            run.violation("c2: no outline for a glyph", "", cfont_json(f, gid, &[], "parse"));
            return;
        };
        ogs.push(og);
    }
    let mem_size = ogs.iter().map(|og| og.draw_memory_size(skrifa::outline::Hinting::None)).max().unwrap_or(0);
    for loc in locs {
        let coords: Vec<F2Dot14> = loc.iter().map(|b| F2Dot14::from_bits(*b)).collect();
        let reference = CRef { font: f, dec: &dec, loc };
        // fresh scaler memory for every draw
        for &gid in draw {
            l.evals += 1;
            l.trans += 2;
            let ev = reference.eval(gid as usize);
            draw_check(run, f, &ogs[gid as usize], gid, loc, &coords, &ev, None, "", l);
            if matches!(&f.glyphs[gid as usize], VGlyph::Simple(s) if !s.coords.is_empty()) {
                audit::scaled_check(run, f, &ogs[gid as usize], gid, loc, &coords, &ev, l);
            }
        }
        audit::phantom_api_check(run, f, &font, &dec, loc, &coords, l);
        // one caller-provided buffer reused for every glyph of the font, in both orders: what a glyph
        // draws as must not depend on what was drawn before it
        if reuse {
            let evs: Vec<Eval> = (0..n).map(|g| reference.eval(g as usize)).collect();
            let mut buf = vec![0u8; mem_size + 64];
            let forward: Vec<u32> = (0..n).collect();
            let backward: Vec<u32> = (0..n).rev().collect();
            for order in [forward, backward] {
                for &gid in &order {
                    l.evals += 1;
                    l.trans += 2;
                    draw_check(run, f, &ogs[gid as usize], gid, loc, &coords, &evs[gid as usize], Some(&mut buf), "; reused buffer", l);
                }
            }
        }
    }
}

/// identity prefix for glyphs that hold a tuple in which no delta is required (nothing referenced):
/// the builder stores such a tuple as "all points" without any delta, which readers cannot apply
/// (recorded defect; a separate identity keeps it apart from every other finding)
fn allopt_prefix(g: &VGlyph) -> &'static str {
    let ts = match g {
        VGlyph::Simple(s) => &s.tuples,
        VGlyph::Composite { tuples, .. } => tuples,
    };
    if ts.iter().any(|t| !t.deltas.is_empty() && t.deltas.iter().all(|d| !d.2)) {
        "glyph with a tuple that references no point: "
    } else {
        ""
    }
}

fn glyph_is_static(g: &VGlyph) -> bool {
    match g {
        VGlyph::Simple(s) => s.tuples.is_empty(),
        VGlyph::Composite { tuples, .. } => tuples.is_empty(),
    }
}

/// draw glyph `gid` in both path styles (optionally into a caller-provided, reused buffer) and compare
#[allow(clippy::too_many_arguments)]
fn draw_check(
    run: &Run,
    f: &CFont,
    og: &skrifa::outline::OutlineGlyph,
    gid: u32,
    loc: &[i16],
    coords: &[F2Dot14],
    ev: &Eval,
    mut mem: Option<&mut Vec<u8>>,
    label: &str,
    l: &mut Local,
) {
    for (style_name, style) in [
        ("freetype", skrifa::outline::pen::PathStyle::FreeType),
        ("harfbuzz", skrifa::outline::pen::PathStyle::HarfBuzz),
    ] {
        let mut pen = PtsPen::default();
        let settings = DrawSettings::unhinted(Size::unscaled(), LocationRef::new(coords)).with_path_style(style);
        let settings = match mem.as_mut() {
            Some(m) => settings.with_memory(Some(&mut m[..])),
            None => settings,
        };
        let metrics = match guard(|| og.draw(settings, &mut pen)) {
            Ok(Ok(m)) => m,
            Ok(Err(e)) => {
                run.violation(&format!("c2: draw of a variable glyph fails ({style_name}{label})"), &format!("{e}"), cfont_json(f, gid, loc, style_name));
                continue;
            }
            Err(p) => {
                run.violation(&format!("c2: draw panic: {} in {}", p.kind(), p.site()), &p.message, cfont_json(f, gid, loc, style_name));
                continue;
            }
        };
        if pen.1 || pen.0.len() != ev.iv.len() {
            run.violation(
                &format!("c2: drawn glyph has the wrong structure ({style_name}{label})"),
                &format!("{} points drawn, {} expected", pen.0.len(), ev.iv.len()),
                cfont_json(f, gid, loc, style_name),
            );
            continue;
        }
        let mut bad: Option<String> = None;
        // the metrics the draw call reports are the varied phantom points: advance = pp2 - pp1, each
        // rounded to a whole unit on its own (FreeType style; the HarfBuzz style does not carry the
        // varied phantom points of simple glyphs and is not judged here)
        if style_name == "freetype" {
            if let (Some(adv), Some(lsb)) = (metrics.advance_width, metrics.lsb) {
                let a = Iv { lo: ev.pp2.0.lo - ev.pp1.0.hi, hi: ev.pp2.0.hi - ev.pp1.0.lo };
                let ok_a = adv.fract() == 0.0 && (a.lo..=a.hi).contains(&(adv as i128));
                let ok_l = lsb.fract() == 0.0 && (ev.pp1.0.lo..=ev.pp1.0.hi).contains(&(lsb as i128));
                if !(ok_a && ok_l) {
                    let kind = match &f.glyphs[gid as usize] {
                        VGlyph::Composite { comps, .. } => if comps.iter().any(|c| c.use_my_metrics) { "composite; USE_MY_METRICS" } else { "composite" },
                        VGlyph::Simple(s) => if s.coords.is_empty() { "glyph without outline" } else { "simple glyph" },
                    };
                    run.violation(
                        &format!("{}advance / left side bearing reported by draw differ from the varied phantom points ({style_name}{label}; {kind})", allopt_prefix(&f.glyphs[gid as usize])),
                        &format!(
                            "location {loc:?}: advance {adv} (accepted {}..={}), lsb {lsb} (accepted {}..={}); exact pp1 {}, pp2 {}",
                            a.lo, a.hi, ev.pp1.0.lo, ev.pp1.0.hi, ev.pp1.1.to_f64(), ev.pp2.1.to_f64()
                        ),
                        cfont_json(f, gid, loc, style_name),
                    );
                }
            }
        }
        if style_name == "freetype" {
            for (i, (got, want)) in pen.0.iter().zip(ev.iv.iter()).enumerate() {
                let xi = Iv { lo: want.0.lo - ev.pp1.0.hi, hi: want.0.hi - ev.pp1.0.lo };
                let okx = got.0.fract() == 0.0 && (xi.lo..=xi.hi).contains(&(got.0 as i128));
                let oky = got.1.fract() == 0.0 && (want.1.lo..=want.1.hi).contains(&(got.1 as i128));
                if xi.lo != xi.hi || want.1.lo != want.1.hi {
                    l.halfway += 1;
                }
                if !(okx && oky) && bad.is_none() {
                    bad = Some(format!(
                        "point {i}: drawn {:?}, accepted x {}..={} y {}..={} (exact {}, {}; origin {})",
                        got, xi.lo, xi.hi, want.1.lo, want.1.hi, ev.exact[i].0.to_f64(), ev.exact[i].1.to_f64(), ev.pp1.1.to_f64()
                    ));
                }
            }
        } else {
            // no rounding step; the origin may or may not be the varied phantom point 1
            let slack = |v: f64| 4.0 * ev.eps.to_f64() + 0.05 + v.abs() * 1e-5;
            let mut ok_any = false;
            let mut first_bad = String::new();
            for origin in [0.0, ev.pp1.1.to_f64()] {
                let mut ok = true;
                for (i, (got, want)) in pen.0.iter().zip(ev.exact.iter()).enumerate() {
                    let (wx, wy) = (want.0.to_f64() - origin, want.1.to_f64());
                    if (got.0 as f64 - wx).abs() > slack(wx) || (got.1 as f64 - wy).abs() > slack(wy) {
                        ok = false;
                        if first_bad.is_empty() {
                            first_bad = format!("point {i}: drawn {:?}, exact ({wx}, {wy}) with origin {origin}", got);
                        }
                        break;
                    }
                }
                if ok {
                    ok_any = true;
                    if origin == 0.0 && ev.pp1.1.n != 0 {
                        l.hb_unshifted += 1;
                    }
                    break;
                }
            }
            if !ok_any {
                bad = Some(first_bad);
            }
        }
        if let Some(detail) = bad {
            let (kind, xf, mm, nested, has_static) = match &f.glyphs[gid as usize] {
                VGlyph::Composite { comps, .. } => (
                    "composite",
                    comps.iter().any(|c| c.xf != IDENTITY),
                    comps.iter().any(|c| c.use_my_metrics),
                    comps.iter().any(|c| matches!(f.glyphs[c.gid as usize], VGlyph::Composite { .. })),
                    comps.iter().any(|c| glyph_is_static(&f.glyphs[c.gid as usize])),
                ),
                VGlyph::Simple(_) => ("simple glyph", false, false, false, false),
            };
            let own_static = glyph_is_static(&f.glyphs[gid as usize]);
            run.violation(
                &format!(
                    "{}drawn variable {kind} differs from components + Σ scalar·delta ({style_name}{label}{}{}{}{}{})",
                    allopt_prefix(&f.glyphs[gid as usize]),
                    if own_static { "; glyph without variation data" } else { "" },
                    if has_static { "; component without variation data" } else { "" },
                    if nested { "; nested" } else { "" },
                    if xf { "; transformed component" } else { "" },
                    if mm { "; USE_MY_METRICS" } else { "" },
                ),
                &format!("location {loc:?} ({} active tuples): {detail}", ev.active),
                cfont_json(f, gid, loc, style_name),
            );
        }
        let mut h = Fnv::new();
        h.str("c2");
        h.str(style_name);
        for p in &pen.0 {
            h.u64(p.0.to_bits() as u64);
            h.u64(p.1.to_bits() as u64);
        }
        l.all.insert(h.finish());
        if ev.active > 0 {
            l.nontrivial.insert(h.finish());
        }
    }
}

/// (c4) chains of nested composites: root composite -> composite -> ... -> simple glyph, depth 2..4,
/// every level with 1 or 2 components (the nested one first or second) and with component-offset
/// deltas that are absent / dense / sparse, distinct per level.
fn nested_family(run: &Run) {
    let tents = tents_1axis();
    let tri: Vec<(i64, i64)> = vec![(10, 0), (110, 7), (60, 93)];
    let sq: Vec<(i64, i64)> = vec![(20, 10), (80, 10), (80, 70), (20, 70)];
    let g0 = VGlyph::Simple(GlyphSpec {
        coords: tri,
        ends: vec![2],
        tol2: 0,
        tuples: vec![TupleSpec {
            region: tents[0].clone(),
            deltas: (0..7).map(|i| if i < 3 { (6 * i as i16 - 5, 9 - 4 * i as i16, true) } else if i == 3 { (3, 0, true) } else { (0, 0, true) }).collect(),
        }],
    });
    let g1 = VGlyph::Simple(GlyphSpec { coords: sq, ends: vec![3], tol2: 0, tuples: vec![] });
    let plain = |gid: u16, ox: i16, oy: i16| CompSpec { gid, ox, oy, xf: IDENTITY, use_my_metrics: false, round_xy: false, unscaled_offset: false };
    let mut fonts: Vec<CFont> = vec![];
    for depth in 2usize..=4 {
        // per level: shape in 0..3 (1 component / nested first of 2 / nested second of 2),
        //            delta kind in 0..3 (none / dense / sparse)
        let mut digits = vec![0usize; depth];
        loop {
            let mut glyphs = vec![g0.clone(), g1.clone()];
            for (lvl, d) in digits.iter().enumerate() {
                let (shape, kind) = (d % 3, d / 3);
                let child = if lvl == 0 { 0u16 } else { (1 + lvl) as u16 };
                let nested = plain(child, 30 + 100 * lvl as i16, 10 - 7 * lvl as i16);
                let other = plain(if lvl % 2 == 0 { 1 } else { 0 }, 400 + 50 * lvl as i16, -20);
                let comps = match shape {
                    0 => vec![nested],
                    1 => vec![nested, other],
                    _ => vec![other, nested],
                };
                let nc = comps.len();
                let nested_ix = if shape == 2 { 1 } else { 0 };
                let k = 5 + 4 * lvl as i16;
                let region = tents[lvl % 2].clone();
                let tuples = match kind {
                    0 => vec![],
                    // every entry carried
                    1 => vec![TupleSpec {
                        region,
                        deltas: (0..nc + 4).map(|i| if i < nc { (7 * k + 2 * i as i16, -3 * k - i as i16, true) } else if i == nc { (k, 0, true) } else { (0, 0, true) }).collect(),
                    }],
                    // only the nested component carries a delta; the rest is zero and optional
                    _ => vec![TupleSpec {
                        region,
                        deltas: (0..nc + 4).map(|i| if i == nested_ix { (-9 * k, 5 * k + 1, true) } else { (0, 0, false) }).collect(),
                    }],
                };
                glyphs.push(VGlyph::Composite { comps, tuples });
            }
            fonts.push(CFont { glyphs, axis_count: 1 });
            if !next_digits(&mut digits, 9) {
                break;
            }
        }
    }
    run.count("c4.fonts", fonts.len() as u64);
    run.bound("c4.chain_depths", json!([2, 3, 4]));
    run.bound("c4.per_level", json!("components {1, 2 with the nested one first, 2 with it second} x component-offset deltas {none, dense, sparse (nested component only)}; values distinct per level; regions alternate peak-only 1.0 / intermediate (0.25, 0.5, 1.0)"));
    run.bound("c4.locations", json!([0.0, 0.5, 1.0]));
    let locs: Vec<Vec<i16>> = vec![vec![0], vec![ONE / 2], vec![ONE]];
    let locals: Vec<Local> = fonts
        .par_iter()
        .map(|f| {
            let mut l = Local::new();
            // every composite of the chain is drawn as a root of its own
            let draw: Vec<u32> = (2..f.glyphs.len() as u32).collect();
            check_cfont(run, f, &draw, &locs, false, &mut l);
            l
        })
        .collect();
    for l in locals {
        l.merge(run, "c4");
    }
}

fn composite_family(run: &Run) {
    // glyph 0: triangle, glyph 1: square (simple, each with its own variations);
    // glyph 2: composite of 0 and 1; glyph 3: composite of 2 (nested) and 0
    let tri: Vec<(i64, i64)> = vec![(10, 0), (110, 7), (60, 93)];
    let sq: Vec<(i64, i64)> = vec![(20, 10), (80, 10), (80, 70), (20, 70)];
    let xforms: Vec<[i16; 4]> = vec![
        IDENTITY,
        [0x2000, 0, 0, 0x2000],       // scale 0.5
        [0x6000, 0, 0, 0x3000],       // x 1.5, y 0.75
        [0x2000, 0x1000, -0x1000, ONE], // 2x2
    ];
    // flag sets for (component 0, component 1) of glyph 2
    let flag_sets: Vec<[(bool, bool, bool); 2]> = vec![
        [(false, false, false), (false, false, false)],
        [(false, true, false), (false, true, true)], // ROUND_XY_TO_GRID, UNSCALED_COMPONENT_OFFSET
        [(true, false, false), (false, false, false)], // USE_MY_METRICS on the first
        [(false, false, false), (true, false, false)], // USE_MY_METRICS on the second
    ];
    run.bound("c2.transforms_of_second_component", json!(["identity", "scale 0.5", "x 1.5 / y 0.75", "2x2 (0.5, 0.25, -0.25, 1)"]));
    run.bound("c2.flag_sets", json!(["none", "ROUND_XY_TO_GRID + UNSCALED_COMPONENT_OFFSET", "USE_MY_METRICS on component 0", "USE_MY_METRICS on component 1"]));
    run.bound("c2.glyphs", json!("0 triangle, 1 square (both varied), 2 = composite(0, 1), 3 = composite(2, 0 scaled 0.5)"));
    run.assume("(c2) FreeType-style composites: every delta (point, component offset, phantom) is rounded half up to a whole unit after 16.16 accumulation (either neighbour inside the same error bound); a transformed component point lies within one unit of the exact linear form (two 16.16 products, each rounded to a unit); HarfBuzz-style: no rounding, compared within 4·bound + 0.05 + 1e-5·|value|, origin either reading; SCALED_COMPONENT_OFFSET and point-anchored components are not exercised");
    let mut fonts: Vec<CFont> = vec![];
    for axes in [1u16, 2] {
        let tents = tents_for(axes);
        // region lists for the composite glyphs and the simple glyphs
        let lists: Vec<(Vec<usize>, Vec<usize>)> = if axes == 1 {
            vec![(vec![0], vec![0]), (vec![1], vec![0, 1]), (vec![0, 1], vec![2]), (vec![3, 4], vec![1])]
        } else {
            vec![(vec![0], vec![1]), (vec![1, 3], vec![0])]
        };
        for (clist, slist) in &lists {
            for xf in &xforms {
                for fs in &flag_sets {
                    let stuple = |n: usize, k: i16, r: usize| TupleSpec {
                        region: tents[r].clone(),
                        deltas: (0..n + 4)
                            .map(|i| if i < n { (k * (2 * i as i16 + 1) - 7, 5 - k * i as i16, true) } else if i == n { (3 * k, 0, true) } else if i == n + 1 { (-k, 0, true) } else { (0, 0, true) })
                            .collect(),
                    };
                    let ctuple = |k: i16, r: usize| TupleSpec {
                        region: tents[r].clone(),
                        // component offsets, then phantoms (left, right, top, bottom).
                        // even k: every entry carried (dense tuple); odd multiples of 3..: only the
                        // second component and the right phantom carry a delta, the rest are zero and
                        // optional, so the tuple is stored with explicit point numbers (sparse)
                        deltas: if k.rem_euclid(4) == 3 {
                            vec![(0, 0, false), (-25 * k, 9 * k, true), (0, 0, false), (k, 0, true), (0, 0, false), (0, 0, false)]
                        } else {
                            vec![(11 * k, -3 * k, true), (-25 * k, 9 * k, true), (5 * k, 0, true), (k, 0, true), (0, 0, true), (0, 0, true)]
                        },
                    };
                    let g0 = VGlyph::Simple(GlyphSpec { coords: tri.clone(), ends: vec![2], tol2: 0, tuples: slist.iter().enumerate().map(|(j, r)| stuple(3, 3 + 2 * j as i16, *r)).collect() });
                    let g1 = VGlyph::Simple(GlyphSpec { coords: sq.clone(), ends: vec![3], tol2: 0, tuples: slist.iter().rev().enumerate().map(|(j, r)| stuple(4, -5 + 4 * j as i16, *r)).collect() });
                    let g2 = VGlyph::Composite {
                        comps: vec![
                            CompSpec { gid: 0, ox: 20, oy: -10, xf: IDENTITY, use_my_metrics: fs[0].0, round_xy: fs[0].1, unscaled_offset: fs[0].2 },
                            CompSpec { gid: 1, ox: 300, oy: 50, xf: *xf, use_my_metrics: fs[1].0, round_xy: fs[1].1, unscaled_offset: fs[1].2 },
                        ],
                        tuples: clist.iter().enumerate().map(|(j, r)| ctuple(3 + 4 * j as i16, *r)).collect(),
                    };
                    let g3 = VGlyph::Composite {
                        comps: vec![
                            CompSpec { gid: 2, ox: 5, oy: 5, xf: IDENTITY, use_my_metrics: fs[1].0, round_xy: false, unscaled_offset: false },
                            CompSpec { gid: 0, ox: 500, oy: 0, xf: [0x2000, 0, 0, 0x2000], use_my_metrics: false, round_xy: fs[0].1, unscaled_offset: false },
                        ],
                        tuples: clist.iter().rev().enumerate().map(|(j, r)| ctuple(-7 + 6 * j as i16, *r)).collect(),
                    };
                    fonts.push(CFont { glyphs: vec![g0, g1, g2, g3], axis_count: axes });
                }
            }
        }
    }
    run.count("c2.fonts", fonts.len() as u64);
    // fonts in which some glyphs have no variation data at all, in every combination:
    // 0 triangle, 1 square, 2 second triangle, 3 = composite(0, 1, 2), 4 = composite(3, 1);
    // bit g of `mask` = glyph g is varied. Every glyph is drawn with fresh memory and through one reused
    // caller buffer in both glyph orders.
    let n_plain = fonts.len();
    {
        let tents = tents_for(1);
        let tri2: Vec<(i64, i64)> = vec![(0, 0), (90, 20), (30, 80)];
        for mask in 0u32..32 {
            for (r_simple, r_comp) in [(0usize, 0usize), (1, 0)] {
                let varied = |g: u32| mask >> g & 1 == 1;
                let stuple = |n: usize, k: i16| TupleSpec {
                    region: tents[r_simple].clone(),
                    deltas: (0..n + 4)
                        .map(|i| if i < n { (k * (2 * i as i16 + 1) - 7, 5 - k * i as i16, true) } else if i == n { (3 * k, 0, true) } else if i == n + 1 { (-k, 0, true) } else { (0, 0, true) })
                        .collect(),
                };
                let ctuple = |nc: usize, k: i16| TupleSpec {
                    region: tents[r_comp].clone(),
                    deltas: (0..nc + 4).map(|i| if i < nc { (11 * k + 4 * i as i16, -3 * k - i as i16, true) } else if i == nc { (5 * k, 0, true) } else { (0, 0, true) }).collect(),
                };
                let simple = |coords: &Vec<(i64, i64)>, g: u32, k: i16| {
                    VGlyph::Simple(GlyphSpec {
                        coords: coords.clone(),
                        ends: vec![coords.len() - 1],
                        tol2: 0,
                        tuples: if varied(g) { vec![stuple(coords.len(), k)] } else { vec![] },
                    })
                };
                let plain = |gid: u16, ox: i16, oy: i16| CompSpec { gid, ox, oy, xf: IDENTITY, use_my_metrics: false, round_xy: false, unscaled_offset: false };
                let g3 = VGlyph::Composite {
                    comps: vec![plain(0, 20, -10), plain(1, 300, 50), plain(2, 500, 5)],
                    tuples: if varied(3) { vec![ctuple(3, 3)] } else { vec![] },
                };
                let g4 = VGlyph::Composite {
                    comps: vec![plain(3, 5, 5), CompSpec { xf: [0x2000, 0, 0, 0x2000], ..plain(1, 700, 0) }],
                    tuples: if varied(4) { vec![ctuple(2, -5)] } else { vec![] },
                };
                fonts.push(CFont { glyphs: vec![simple(&tri, 0, 5), simple(&sq, 1, -3), simple(&tri2, 2, 7), g3, g4], axis_count: 1 });
            }
        }
    }
    run.count("c2.fonts_with_static_glyphs", (fonts.len() - n_plain) as u64);
    run.bound("c2.static_mix", json!("5 glyphs (3 simple, composite of the 3, nested composite), every subset of glyphs without variation data, 2 region assignments; each glyph drawn fresh and through one reused buffer forwards and backwards"));
    let fonts_indexed: Vec<(usize, &CFont)> = fonts.iter().enumerate().collect();
    let locals: Vec<Local> = fonts_indexed
        .par_iter()
        .map(|&(fi, f)| {
            let mut l = Local::new();
            let mut regions: Vec<Region> = vec![];
            for g in &f.glyphs {
                let ts = match g {
                    VGlyph::Simple(s) => &s.tuples,
                    VGlyph::Composite { tuples, .. } => tuples,
                };
                regions.extend(ts.iter().map(|t| t.region.clone()));
            }
            let per_axis: Vec<Vec<i16>> = (0..f.axis_count as usize).map(|a| axis_locations(&regions, a)).collect();
            let mut locs: Vec<Vec<i16>> = vec![vec![]];
            for axis in &per_axis {
                let mut next = vec![];
                for l0 in &locs {
                    for x in axis {
                        let mut v = l0.clone();
                        v.push(*x);
                        next.push(v);
                    }
                }
                locs = next;
            }
            if fi < n_plain {
                check_cfont(run, f, &[2, 3], &locs, false, &mut l);
            } else {
                check_cfont(run, f, &[0, 1, 2, 3, 4], &locs, true, &mut l);
            }
            l
        })
        .collect();
    for l in locals {
        l.merge(run, "c2");
    }
    run.sample(cfont_json(&fonts[5], 2, &[0x2000], "freetype"));
}

// ---------------------------------------------------------------------------

/// Safety net around a whole family: every per-case call into the library is already guarded, but if
/// anything still panics (also inside worker threads) the run must end with a verdict (exit 1), never
/// with a harness stop.
fn family(run: &Run, name: &str, f: impl FnOnce()) {
    // development aid: C10_FAMILIES=a,b restricts the run to the named families; such a run is reported
    // as capped, never as exhaustive
    if let Ok(only) = std::env::var("C10_FAMILIES") {
        if !only.split(',').any(|x| x == name) {
            run.cap_hit(&format!("family {name} skipped by C10_FAMILIES"));
            return;
        }
    }
    let t0 = std::time::Instant::now();
    let r = guard(f);
    // wall time per family: information only (never influences what is explored)
    run.extra(&format!("wall_s.{name}"), json!((t0.elapsed().as_secs_f64() * 100.0).round() / 100.0));
    if let Err(p) = r {
        run.violation(
            &format!("panic outside the per-case guards (family {name}): {} in {}", p.kind(), p.site()),
            &format!("{} ({}:{})", p.message, p.file, p.line),
            json!({"kind": "family", "family": name}),
        );
    }
}

fn body(run: &Run, replay: Option<&Value>) {
    run.rule("(a) a case is (contour coordinates, deltas, tolerance) given to iup_delta_optimize; non-trivial = some but not all deltas marked optional; (b) a case is one list of glyph variation inputs compiled to gvar; observation = read-back regions + explicit deltas + packing; non-trivial = a non-zero delta present; (c) a case is (font, location, path style); observation = drawn points; non-trivial = at least one active region");
    run.assume("oracle: the OpenType text for inferred deltas and tuple scalars, implemented in exact i128 rationals");
    run.assume("optional deltas of structured (b2)/(c) inputs are declared consistently (value = rounded inference from the required ones, tolerance 1.0); (b1) uses the optimiser's own flags and its tolerance");
    run.assume("(c) FreeType-style drawing rounds half up after 16.16 accumulation: the drawn integer may be either neighbour when the exact value lies within Σ_active(|delta|max·axes+3)·2^-16 of a half; HarfBuzz-style drawing (no rounding step, 16.16 scalars, f32 sums) is compared within twice that bound + 0.01 + 1e-5·|value|, and may or may not be relative to the varied phantom point 1");
    run.assume("hmtx.lsb = xMin so that phantom point 1 is at the origin; phantom points belong to no contour and infer zero; the drawn outline is relative to the (varied, rounded) phantom point 1, as in FreeType");
    if let Some(case) = replay {
        let mut l = Local::new();
        match case["kind"].as_str() {
            Some("iup") => {
                check_iup(run, &iup_from_json(case), &mut l);
            }
            Some("iup_half") => {
                let pairs = |a: &Value| -> Vec<(i64, i64)> {
                    a.as_array().unwrap().iter().map(|p| (p[0].as_i64().unwrap(), p[1].as_i64().unwrap())).collect()
                };
                let ends: Vec<usize> = case["ends"].as_array().unwrap().iter().map(|e| e.as_u64().unwrap() as usize).collect();
                check_iup_half(run, &pairs(&case["coords_x2"]), &pairs(&case["deltas_x2"]), &ends, case["tol2"].as_i64().unwrap(), &mut l);
            }
            Some("gvar") => {
                let gs: Vec<GlyphSpec> = case["glyphs"].as_array().unwrap().iter().map(glyph_from_json).collect();
                let axes = case["axis_count"].as_u64().unwrap() as u16;
                let c = || case.clone();
                check_gvar(run, case["family"].as_str().unwrap_or("b"), &gs, axes, &mut l, &c);
            }
            Some("gvar_order") => {
                let gs: Vec<GlyphSpec> = case["glyphs"].as_array().unwrap().iter().map(glyph_from_json).collect();
                let order: Vec<usize> = case["order"].as_array().unwrap().iter().map(|x| x.as_u64().unwrap() as usize).collect();
                audit::check_order(run, &gs, &order, &mut l);
            }
            Some("tent") => check_tent(run, &region_from_json(&case["region"]), &mut l),
            Some("offsets") => {
                let gs = offsets_glyphs_with(case["last_glyph_points"].as_u64().unwrap() as usize, case["filler"].as_u64().unwrap_or(0) as usize);
                let c = || case.clone();
                check_gvar(run, "b3", &gs, 1, &mut l, &c);
            }
            Some("cdraw") => {
                let f = cfont_from_json(case);
                let loc: Vec<i16> = case["location"].as_array().unwrap().iter().map(|x| x.as_i64().unwrap() as i16).collect();
                let gid = case["draw_glyph"].as_u64().unwrap_or(2) as u32;
                check_cfont(run, &f, &[gid], &[loc], true, &mut l);
            }
            Some("curve") => {
                let f = FontSpec {
                    axis_count: case["axis_count"].as_u64().unwrap() as u16,
                    advance: case["advance"].as_u64().unwrap() as u16,
                    glyph: glyph_from_json(&case["glyph"]),
                };
                let on: Vec<bool> = case["on"].as_array().unwrap().iter().map(|b| b.as_bool().unwrap()).collect();
                let loc: Vec<i16> = case["location"].as_array().unwrap().iter().map(|x| x.as_i64().unwrap() as i16).collect();
                check_curve_font(run, &f, &on, &[loc], &mut l);
            }
            Some("draw") => {
                let f = FontSpec {
                    axis_count: case["axis_count"].as_u64().unwrap() as u16,
                    advance: case["advance"].as_u64().unwrap() as u16,
                    glyph: glyph_from_json(&case["glyph"]),
                };
                let loc: Vec<i16> = case["location"].as_array().unwrap().iter().map(|x| x.as_i64().unwrap() as i16).collect();
                check_font(run, &f, &[loc], &mut l);
            }
            _ => run.machinery_error("unknown replay kind"),
        }
        return;
    }
    // conformance gate of the reference inference: the worked example of the specification's rules
    {
        // contour of 4 points on a line: deltas at the ends, two unreferenced points between / outside
        let coords = with_phantoms(&[(0, 0), (10, 0), (20, 0), (40, 5)]);
        let ex = vec![Some((10, 0)), None, Some((30, 4)), None, None, None, None, None];
        let inf = infer(&coords, &[3], &ex);
        // point 1: x between 0 and 20 -> 10 + 10*(20/20) = 20 ; y: coords equal (0,0), deltas differ -> 0
        // point 3: x = 40 >= max(20, 0) -> delta of the larger-coordinate point = 30 ; y = 5 > 0 = both -> equal coords, deltas differ -> 0
        if inf[1] != (R::int(20), R::int(0)) || inf[3] != (R::int(30), R::int(0)) || inf[5] != (R::int(0), R::int(0)) {
            run.machinery_error(&format!("inference conformance gate failed: {:?} {:?}", inf[1], inf[3]));
            return;
        }
        if !within((R::new(1, 2), R::int(0)), (0, 0), 1) || within((R::new(1, 2), R::new(1, 100)), (0, 0), 1) {
            run.machinery_error("tolerance comparison gate failed");
            return;
        }
    }
    family(run, "optimiser_families", || optimiser_families(run));
    family(run, "half_unit_family", || half_unit_family(run));
    family(run, "pipeline_family", || pipeline_family(run));
    family(run, "structured_family", || structured_family(run));
    family(run, "offsets_family", || offsets_family(run));
    family(run, "point_grammar_family", || audit::point_grammar_family(run));
    family(run, "delta_grammar_family", || audit::delta_grammar_family(run));
    family(run, "builder_order_family", || audit::builder_order_family(run));
    family(run, "tuple_mix_family", || audit::tuple_mix_family(run));
    family(run, "tent_family", || tent_family(run));
    family(run, "application_family", || application_family(run));
    family(run, "sparse_run_family", || sparse_run_family(run));
    family(run, "curve_family", || curve_family(run));
    family(run, "composite_family", || composite_family(run));
    family(run, "nested_family", || nested_family(run));
    family(run, "drawn_inference_family", || audit::drawn_inference_family(run));
    family(run, "empty_glyph_family", || audit::empty_glyph_family(run));
}
