//! Families and oracle clauses added by the coverage-gap audit (see ../AUDIT.md).
//!
//!  * `reader_routes`  — oracle clause run on every tuple of every (b)/(c2) gvar: the three public routes
//!    by which read-fonts hands out the deltas of a tuple (`deltas()`, `point_numbers()`,
//!    `accumulate_dense_deltas` / `accumulate_sparse_deltas` — the routes skrifa draws through) agree.
//!  * b5 point-number packing grammar, b6 packed-delta run grammar, b7 builder input order / tuple-count
//!    and shared-tuple capacity, b8 three and four tuples per glyph with mixed shared / private sets.
//!  * c6 drawn inference on exhaustive small contours, c7 scaled drawing at ppem = unitsPerEm,
//!    p1 `Gvar::phantom_point_deltas` and glyphs without an outline.

use super::*;
use font_types::{Fixed, Point};
use read_fonts::tables::glyf::{PointFlags, PointMarker};

// ---------------------------------------------------------------------------
// reader routes
// ---------------------------------------------------------------------------

/// For every tuple of glyph `gid`: `point_numbers()` lists exactly the positions `deltas()` yields;
/// `accumulate_dense_deltas` (tuples for all points) / `accumulate_sparse_deltas` (others) add
/// scalar x delta to exactly those entries of a pre-filled buffer, leave the rest alone and mark
/// HAS_DELTA on exactly the referenced points. Scalars 1.0 (the unscaled fast path) and 0.5 (exact in
/// 16.16 and f32 for 16-bit deltas). `dec` is what `deltas()` gave (already compared with the input).
pub fn reader_routes(gvar: &rgvar::Gvar, gid: u32, npoints: usize, dec: &[Decoded]) -> Option<(String, String)> {
    let data = match gvar.glyph_variation_data(GlyphId::new(gid)) {
        Ok(Some(d)) => d,
        _ => return None,
    };
    for (ti, (t, d)) in data.tuples().zip(dec.iter()).enumerate() {
        let n_explicit = d.explicit.iter().filter(|e| e.is_some()).count();
        if !d.all_points {
            let pts: Vec<usize> = t.point_numbers().take(npoints + 8).map(|p| p as usize).collect();
            let want: Vec<usize> = (0..npoints).filter(|i| d.explicit[*i].is_some()).collect();
            if pts != want {
                return Some((
                    "point_numbers() differs from the positions deltas() yields".into(),
                    format!("tuple {ti}: {} numbers vs {} deltas; first numbers {:?}", pts.len(), want.len(), &pts[..pts.len().min(6)]),
                ));
            }
        } else if n_explicit == 0 {
            // "all points" with an empty delta stream: nothing to accumulate
            continue;
        }
        for (sname, sbits) in [("1.0", 0x10000i32), ("0.5", 0x8000)] {
            let scalar = Fixed::from_bits(sbits);
            // 16.16 accumulators, pre-filled with small non-zero fractions
            let pre = |i: usize| ((i % 7) as i32 + 1, (i % 5) as i32 + 1); // positive: i32::MIN + pre and (32767 << 16) + pre stay in range
            let mut buf: Vec<Point<Fixed>> = (0..npoints).map(|i| Point::new(Fixed::from_bits(pre(i).0), Fixed::from_bits(pre(i).1))).collect();
            let mut fbuf: Vec<Point<f32>> = (0..npoints).map(|i| Point::new(pre(i).0 as f32 / 8.0, pre(i).1 as f32 / 8.0)).collect();
            let mut flags = vec![PointFlags::default(); npoints];
            let mut fflags = vec![PointFlags::default(); npoints];
            let (r1, r2, route) = if d.all_points {
                (t.accumulate_dense_deltas(&mut buf, scalar), t.accumulate_dense_deltas(&mut fbuf, scalar), "accumulate_dense_deltas")
            } else {
                (
                    t.accumulate_sparse_deltas(&mut buf, &mut flags, scalar),
                    t.accumulate_sparse_deltas(&mut fbuf, &mut fflags, scalar),
                    "accumulate_sparse_deltas",
                )
            };
            if let Err(e) = r1.and(r2) {
                return Some((format!("{route} fails on a tuple deltas() reads"), format!("tuple {ti}, scalar {sname}: {e}")));
            }
            let shift = if sbits == 0x10000 { 16 } else { 15 };
            for i in 0..npoints {
                let (dx, dy) = d.explicit[i].unwrap_or((0, 0));
                let want = (pre(i).0 as i64 + (dx << shift), pre(i).1 as i64 + (dy << shift));
                let got = (buf[i].x.to_bits() as i64, buf[i].y.to_bits() as i64);
                let fwant = (pre(i).0 as f64 / 8.0 + dx as f64 * sbits as f64 / 65536.0, pre(i).1 as f64 / 8.0 + dy as f64 * sbits as f64 / 65536.0);
                let fgot = (fbuf[i].x as f64, fbuf[i].y as f64);
                let fok = (fgot.0 - fwant.0).abs() <= fwant.0.abs() * 1e-6 + 1e-6 && (fgot.1 - fwant.1).abs() <= fwant.1.abs() * 1e-6 + 1e-6;
                if got != want || !fok {
                    let axis = if got.0 != want.0 || (fgot.0 - fwant.0).abs() > fwant.0.abs() * 1e-6 + 1e-6 { "x" } else { "y" };
                    return Some((
                        format!("{route} disagrees with deltas() ({axis}, {})", if d.explicit[i].is_some() { "referenced point" } else { "unreferenced point" }),
                        format!("tuple {ti}, scalar {sname}, point {i}: 16.16 {:?} want {:?}; f32 {:?} want {:?}", got, want, fgot, fwant),
                    ));
                }
                if !d.all_points {
                    let marked = flags[i].has_marker(PointMarker::HAS_DELTA);
                    if marked != d.explicit[i].is_some() || fflags[i].has_marker(PointMarker::HAS_DELTA) != marked {
                        return Some((
                            "accumulate_sparse_deltas marks HAS_DELTA on the wrong points".into(),
                            format!("tuple {ti}, scalar {sname}, point {i}: marked {marked}, delta present {}", d.explicit[i].is_some()),
                        ));
                    }
                }
            }
        }
    }
    None
}

// ---------------------------------------------------------------------------
// helpers for the gvar families
// ---------------------------------------------------------------------------

/// One tuple over `coords` (one contour): the points in `required` carry `delta(j)` (j = rank in the
/// list); every other point is optional and declared as the rounded inference (tolerance 1.0).
pub fn tuple_over(coords: &[(i64, i64)], ends: &[usize], required: &[usize], region: &Region, delta: &dyn Fn(usize) -> (i16, i16)) -> TupleSpec {
    let all = with_phantoms(coords);
    let mut explicit: Vec<Option<(i64, i64)>> = vec![None; all.len()];
    for (j, &p) in required.iter().enumerate() {
        let d = delta(j);
        explicit[p] = Some((d.0 as i64, d.1 as i64));
    }
    let inf = infer(&all, ends, &explicit);
    let round = |r: R| -> i16 { (r.to_f64() + 0.5).floor() as i16 };
    TupleSpec {
        region: region.clone(),
        deltas: (0..all.len())
            .map(|i| match explicit[i] {
                Some((x, y)) => (x as i16, y as i16, true),
                None => (round(inf[i].0), round(inf[i].1), false),
            })
            .collect(),
    }
}

fn merge_all(run: &Run, locals: Vec<Local>, name: &str) {
    for l in locals {
        l.merge(run, name);
    }
}

// ---------------------------------------------------------------------------
// b5: point-number packing grammar
// ---------------------------------------------------------------------------

/// Referenced point sets described by their gaps. The writer packs point numbers as runs of byte or
/// word differences (a difference > 255 needs a word run), at most 128 per run, behind a one- or
/// two-byte count; the reader undoes it. Enumerated: first point in {0, 255, 256}, then every sequence
/// of up to `depth` further gaps over {1, 255, 256, 257}; plus long runs of 127..130 equal gaps
/// (1, 255, 256) with an optional leading word gap and an optional trailing gap of the other width.
pub fn point_grammar_family(run: &Run) {
    let depth = run.tier.pick(4usize, 6usize);
    let gaps = [1usize, 255, 256, 257];
    let firsts = [0usize, 255, 256];
    let mut sets: Vec<Vec<usize>> = vec![];
    for &f in &firsts {
        for len in 0..=depth {
            let mut digits = vec![0usize; len];
            loop {
                let mut pts = vec![f];
                for d in &digits {
                    pts.push(pts.last().unwrap() + gaps[*d]);
                }
                sets.push(pts);
                if len == 0 || !next_digits(&mut digits, gaps.len()) {
                    break;
                }
            }
        }
    }
    let n_short = sets.len();
    for k in [127usize, 128, 129, 130] {
        for g in [1usize, 255, 256] {
            for lead in [None, Some(300usize)] {
                for tail in [None, Some(1usize), Some(256)] {
                    let mut pts = vec![lead.unwrap_or(0)];
                    for _ in 1..k {
                        pts.push(pts.last().unwrap() + g);
                    }
                    if let Some(t) = tail {
                        pts.push(pts.last().unwrap() + t);
                        pts.push(pts.last().unwrap() + t);
                    }
                    sets.push(pts);
                }
            }
        }
    }
    run.bound("b5.first_point", json!(firsts));
    run.bound("b5.gap_alphabet", json!(gaps));
    run.bound("b5.max_further_gaps", json!(depth));
    run.bound("b5.long_runs", json!("127..=130 points with equal gaps {1, 255, 256}, first point {0, 300}, followed by {nothing, two gaps of 1, two gaps of 256}"));
    run.count("b5.point_sets", sets.len() as u64);
    run.count("b5.point_sets_short", n_short as u64);
    let tents = tents_1axis();
    let locals: Vec<Local> = sets
        .par_iter()
        .map(|pts| {
            let mut l = Local::new();
            let n = pts.last().unwrap() + 3;
            let coords = scatter(n);
            // Glyphs of more than ~16000 points cannot carry optional deltas at all (the builder sizes
            // the dense alternative in 16 bits), unless the unreferenced entries are zero: the long word
            // runs are therefore modelled on a composite glyph (entries = components, no contours, an
            // unreferenced entry has delta zero).
            let ends = if n > 4000 { vec![] } else { vec![n - 1] };
            let d1 = |j: usize| (((j * 5) % 23) as i16 - 11, if j % 3 == 0 { 300 } else { -4 });
            let d2 = |j: usize| (7 - (j % 3) as i16, ((j * 3) % 11) as i16 + 1);
            let t1 = tuple_over(&coords, &ends, pts, &tents[0], &d1);
            let t2 = tuple_over(&coords, &ends, pts, &tents[1], &d2);
            // a second, different set for the glyph in which the sets are not shared
            let other: Vec<usize> = pts.iter().map(|p| p + 1).collect();
            let t3 = tuple_over(&coords, &ends, &other, &tents[1], &d2);
            let g = |tuples: Vec<TupleSpec>| GlyphSpec { coords: coords.clone(), ends: ends.clone(), tol2: 2, tuples };
            let gs = vec![g(vec![t1.clone()]), g(vec![t1.clone(), t2]), g(vec![t1, t3])];
            let case = || gvar_case_json("b5", &gs, 1);
            check_gvar(run, "b5", &gs, 1, &mut l, &case);
            l
        })
        .collect();
    merge_all(run, locals, "b5");
}

// ---------------------------------------------------------------------------
// b6: packed-delta run grammar
// ---------------------------------------------------------------------------

const DELTA_ALPHABET: [i16; 3] = [0, 3, 300];

/// x deltas = every sequence over {0, byte, word} of total length 5..=tmax (dense tuple over
/// total-4 points, and the same values as the referenced deltas of a sparse tuple); y deltas = the
/// sequence reversed with byte and word exchanged. Plus run-length boundaries: 62..=65 equal values of
/// each kind followed by every sequence of up to 3 values.
pub fn delta_grammar_family(run: &Run) {
    let tmax = run.tier.pick(8usize, 10usize);
    run.bound("b6.value_alphabet", json!(DELTA_ALPHABET));
    run.bound("b6.sequence_lengths", json!([5, tmax]));
    run.bound("b6.long_prefixes", json!("62..=65 x {zero, byte, word} followed by every sequence of 0..=3 values"));
    let mut seqs: Vec<Vec<usize>> = vec![];
    for len in 5..=tmax {
        let mut digits = vec![0usize; len];
        loop {
            seqs.push(digits.clone());
            if !next_digits(&mut digits, 3) {
                break;
            }
        }
    }
    let n_short = seqs.len();
    for kind in 0..3usize {
        for plen in 62..=65usize {
            for tl in 0..=3usize {
                let mut digits = vec![0usize; tl];
                loop {
                    let mut s = vec![kind; plen];
                    s.extend(digits.iter());
                    seqs.push(s);
                    if tl == 0 || !next_digits(&mut digits, 3) {
                        break;
                    }
                }
            }
        }
    }
    run.count("b6.sequences", seqs.len() as u64);
    run.count("b6.sequences_short", n_short as u64);
    let tents = tents_1axis();
    let locals: Vec<Local> = seqs
        .par_chunks(64)
        .map(|chunk| {
            let mut l = Local::new();
            for s in chunk {
                let total = s.len();
                let xs: Vec<i16> = s.iter().enumerate().map(|(i, k)| if i % 2 == 1 { -DELTA_ALPHABET[*k] } else { DELTA_ALPHABET[*k] }).collect();
                let ys: Vec<i16> = s.iter().rev().map(|k| [0i16, -200, 5][*k]).collect();
                // dense: total - 4 real points, all required
                let n = total - 4;
                let dense = GlyphSpec {
                    coords: scatter(n),
                    ends: vec![n - 1],
                    tol2: 0,
                    tuples: vec![TupleSpec { region: tents[0].clone(), deltas: (0..total).map(|i| (xs[i], ys[i], true)).collect() }],
                };
                // sparse: the same values on the first `total` points of a larger contour
                let m = 2 * total + 8;
                let coords = scatter(m);
                let req: Vec<usize> = (0..total).collect();
                let sparse = GlyphSpec {
                    coords: coords.clone(),
                    ends: vec![m - 1],
                    tol2: 2,
                    tuples: vec![
                        tuple_over(&coords, &[m - 1], &req, &tents[0], &|j| (xs[j], ys[j])),
                        tuple_over(&coords, &[m - 1], &req, &tents[1], &|j| (ys[j], xs[j])),
                    ],
                };
                let gs = vec![dense, sparse];
                let case = || gvar_case_json("b6", &gs, 1);
                check_gvar(run, "b6", &gs, 1, &mut l, &case);
            }
            l
        })
        .collect();
    merge_all(run, locals, "b6");
}

// ---------------------------------------------------------------------------
// b7: builder input order, tuple count and shared tuple capacity
// ---------------------------------------------------------------------------

/// like `build_gvar`, but glyph `order[k]` is handed to the builder in position k
pub fn build_gvar_in_order(glyphs: &[GlyphSpec], order: &[usize], axis_count: u16) -> Result<Vec<u8>, String> {
    let vars: Vec<GlyphVariations> = order
        .iter()
        .map(|&gid| {
            let g = &glyphs[gid];
            GlyphVariations::new(
                GlyphId::new(gid as u32),
                g.tuples
                    .iter()
                    .map(|t| GlyphDeltas::new(tents_of(&t.region), t.deltas.iter().map(|d| GlyphDelta::new(d.0, d.1, d.2)).collect()))
                    .collect(),
            )
        })
        .collect();
    let gvar = Gvar::new(vars, axis_count).map_err(|e| format!("Gvar::new: {e}"))?;
    dump_table(&gvar).map_err(|e| format!("dump_table: {e}"))
}

pub fn check_order(run: &Run, glyphs: &[GlyphSpec], order: &[usize], l: &mut Local) {
    l.evals += 1;
    l.trans += 2;
    let case = || {
        let mut v = gvar_case_json("b7", glyphs, 1);
        v["kind"] = json!("gvar_order");
        v["order"] = json!(order);
        v
    };
    let bytes = match guard(|| build_gvar_in_order(glyphs, order, 1)) {
        Ok(Ok(b)) => b,
        Ok(Err(e)) => {
            run.violation("b7: gvar builder rejects glyph variations given out of glyph-id order", &e, case());
            return;
        }
        Err(p) => {
            run.violation(&format!("b7: gvar build panic: {} in {}", p.kind(), p.site()), &p.message, case());
            return;
        }
    };
    let r = guard(|| -> Option<(String, String)> {
        let gvar = match rgvar::Gvar::read(FontData::new(&bytes)) {
            Ok(g) => g,
            Err(e) => return Some(("compiled gvar does not parse".into(), format!("{e}"))),
        };
        for (gid, g) in glyphs.iter().enumerate() {
            let dec = match decode_glyph(&gvar, gid as u32, g.coords.len() + 4, 1) {
                Ok(d) => d,
                Err(e) => return Some(("glyph variation data unreadable".into(), format!("glyph {gid}: {e}"))),
            };
            if let Some((id, detail)) = compare_glyph(g, &dec) {
                return Some((id, format!("glyph {gid}: {detail}")));
            }
        }
        None
    });
    match r {
        Ok(None) => {
            let mut h = Fnv::new();
            h.str("b7");
            for o in order {
                h.u64(*o as u64);
            }
            h.u64(bytes.len() as u64);
            l.all.insert(h.finish());
            l.nontrivial.insert(h.finish());
        }
        Ok(Some((id, detail))) => run.violation(&format!("gvar round trip (glyph variations given in a different order than glyph ids): {id}"), &detail, case()),
        Err(p) => run.violation(&format!("gvar reader panic: {} in {}", p.kind(), p.site()), &p.message, case()),
    }
}

pub fn builder_order_family(run: &Run) {
    let tents = tents_1axis();
    // four glyphs that differ in point count, region, deltas and sparseness (one has no data)
    let mk = |n: usize, r: usize, k: i16, req: &[usize]| {
        let coords = scatter(n);
        GlyphSpec { coords: coords.clone(), ends: vec![n - 1], tol2: 2, tuples: vec![tuple_over(&coords, &[n - 1], req, &tents[r], &|j| (k + j as i16, -k))] }
    };
    let glyphs = vec![
        mk(3, 0, 5, &[0, 1, 2, 3, 4, 5, 6]),
        mk(9, 1, -40, &[2]),
        GlyphSpec { coords: scatter(2), ends: vec![1], tol2: 0, tuples: vec![] },
        mk(5, 0, 200, &[0, 4]),
    ];
    // every order of presentation
    let mut orders: Vec<Vec<usize>> = vec![];
    let mut perm = vec![0usize, 1, 2, 3];
    fn heap(k: usize, a: &mut Vec<usize>, out: &mut Vec<Vec<usize>>) {
        if k == 1 {
            out.push(a.clone());
            return;
        }
        for i in 0..k {
            heap(k - 1, a, out);
            if k % 2 == 0 {
                a.swap(i, k - 1);
            } else {
                a.swap(0, k - 1);
            }
        }
    }
    heap(4, &mut perm, &mut orders);
    orders.sort();
    run.bound("b7.presentation_orders", json!("all 24 orders of 4 glyphs (glyph ids attached)"));
    let mut l = Local::new();
    for o in &orders {
        check_order(run, &glyphs, o, &mut l);
    }
    l.merge(run, "b7.order");

    // capacity: tuple counts per glyph {1, 2, 4094, 4095}; 3000 + 2000 peak tuples each used by two
    // glyphs (more candidates than the 4095 shared-tuple slots)
    run.bound("b7.tuples_per_glyph", json!([1, 2, 4094, 4095]));
    run.bound("b7.shareable_peak_tuples", json!([1, 2, 4094, 4095, 4096, 4097, 5000]));
    let one_point = |peaks: std::ops::Range<usize>, salt: i16| -> GlyphSpec {
        GlyphSpec {
            coords: vec![(5, 5)],
            ends: vec![0],
            tol2: 0,
            tuples: peaks
                .map(|p| TupleSpec { region: vec![((p + 1) as i16, None)], deltas: (0..5).map(|i| ((p % 100) as i16 + salt, i as i16 - salt, true)).collect() })
                .collect(),
        }
    };
    let mut cases: Vec<Vec<GlyphSpec>> = vec![];
    for c in [1usize, 2, 4094, 4095] {
        cases.push(vec![one_point(0..c, 1)]);
    }
    for shared in [1usize, 2, 4094, 4095, 4096, 4097, 5000] {
        let a = shared.min(3000);
        let mut gs = vec![one_point(0..a, 1), one_point(0..a, 2)];
        if shared > a {
            gs.push(one_point(a..shared, 3));
            gs.push(one_point(a..shared, 4));
        }
        // one more user of the last few tuples, so that counts differ and the sort by count matters
        gs.push(one_point(shared.saturating_sub(3)..shared, 5));
        cases.push(gs);
    }
    let locals: Vec<Local> = cases
        .par_iter()
        .map(|gs| {
            let mut l = Local::new();
            let counts: Vec<usize> = gs.iter().map(|g| g.tuples.len()).collect();
            let _ = counts;
            let case = || gvar_case_json("b7", gs, 1);
            check_gvar(run, "b7", gs, 1, &mut l, &case);
            l
        })
        .collect();
    merge_all(run, locals, "b7.capacity");
}

// ---------------------------------------------------------------------------
// b8: several tuples per glyph, shared and private point sets mixed
// ---------------------------------------------------------------------------

/// Every list of 3 tuples (and the 4-lists that start with them in quick: all 4-lists in thorough) over
/// a menu of point sets {all, A, B, C (a subset of A), none}: which set is shared, which tuples carry
/// private numbers, ties between equally profitable sets.
pub fn tuple_mix_family(run: &Run) {
    let counts = [6usize, 140];
    run.bound("b8.point_sets", json!(["all points", "A: every 2nd", "B: every 3rd", "C: first and last", "none required"]));
    run.bound("b8.tuple_lists", json!("every list of 3 and of 4 tuples over the 5 sets"));
    run.bound("b8.point_counts", json!(counts));
    let mut tasks: Vec<(usize, Vec<usize>)> = vec![];
    for &n in &counts {
        for len in [3usize, 4] {
            let mut digits = vec![0usize; len];
            loop {
                tasks.push((n, digits.clone()));
                if !next_digits(&mut digits, 5) {
                    break;
                }
            }
        }
    }
    run.count("b8.lists", tasks.len() as u64);
    let locals: Vec<Local> = tasks
        .par_chunks(16)
        .map(|chunk| {
            let mut l = Local::new();
            for (n, sets) in chunk {
                let n = *n;
                let coords = scatter(n);
                let ends = vec![n - 1];
                let req = |s: usize| -> Vec<usize> {
                    match s {
                        0 => (0..n + 4).collect(),
                        1 => (0..n).step_by(2).collect(),
                        2 => (0..n).step_by(3).collect(),
                        3 => vec![0, n - 1],
                        _ => vec![],
                    }
                };
                let tuples: Vec<TupleSpec> = sets
                    .iter()
                    .enumerate()
                    .map(|(k, s)| {
                        let region: Region = vec![((k as i16 + 1) * 0x0800, None)];
                        tuple_over(&coords, &ends, &req(*s), &region, &|j| (10 * k as i16 + (j % 7) as i16 - 3, if j % 4 == 0 { 150 + k as i16 } else { -(k as i16) - 1 }))
                    })
                    .collect();
                let gs = vec![GlyphSpec { coords: coords.clone(), ends: ends.clone(), tol2: 2, tuples }];
                let case = || gvar_case_json("b8", &gs, 1);
                check_gvar(run, "b8", &gs, 1, &mut l, &case);
            }
            l
        })
        .collect();
    merge_all(run, locals, "b8");
}

// ---------------------------------------------------------------------------
// oracle clauses of the drawn families
// ---------------------------------------------------------------------------

/// (c7) scaled drawing: at ppem = unitsPerEm (scale 1) and half of it (scale 0.5) the drawn simple glyph is
/// scale x (default + sum(scalar x delta) - origin); deltas and products are rounded to 1/64 there
/// (not to whole units), so the comparison is within 2.5/64 + the fixed-point bound.
#[allow(clippy::too_many_arguments)]
pub fn scaled_check(run: &Run, f: &CFont, og: &skrifa::outline::OutlineGlyph, gid: u32, loc: &[i16], coords: &[F2Dot14], ev: &Eval, l: &mut Local) {
    for (ppem, s) in [(1000.0f32, 1.0f64), (500.0, 0.5)] {
        // FreeType style only: HarfBuzz-style *scaled* drawing is off by a constant factor for every glyph,
        // varied or not (the 16.16 scale factor is read as 26.6: see AUDIT.md), which is not a statement
        // about deltas
        for (style_name, style) in [("freetype", skrifa::outline::pen::PathStyle::FreeType)] {
            l.evals += 1;
            l.trans += 1;
            let mut pen = PtsPen::default();
            let settings = DrawSettings::unhinted(Size::new(ppem), LocationRef::new(coords)).with_path_style(style);
            let case = || {
                let mut v = cfont_json(f, gid, loc, style_name);
                v["ppem"] = json!(ppem);
                v
            };
            match guard(|| og.draw(settings, &mut pen)) {
                Ok(Ok(_)) => {}
                Ok(Err(e)) => {
                    run.violation(&format!("c7: scaled draw of a variable glyph fails ({style_name})"), &format!("{e}"), case());
                    continue;
                }
                Err(p) => {
                    run.violation(&format!("c7: draw panic: {} in {}", p.kind(), p.site()), &p.message, case());
                    continue;
                }
            }
            if pen.1 || pen.0.len() != ev.exact.len() {
                run.violation(&format!("c7: scaled glyph has the wrong structure ({style_name})"), &format!("{} points drawn, {} expected", pen.0.len(), ev.exact.len()), case());
                continue;
            }
            let tol = |v: f64| 2.5 / 64.0 + 4.0 * ev.eps.to_f64() + v.abs() * 1e-5;
            // FreeType style: relative to the varied phantom point 1; HarfBuzz style: either reading
            let origins: &[f64] = if style_name == "freetype" { &[1.0] } else { &[1.0, 0.0] };
            let mut first_bad = String::new();
            let mut ok_any = false;
            for &o in origins {
                let origin = o * ev.pp1.1.to_f64();
                let mut ok = true;
                for (i, (got, want)) in pen.0.iter().zip(ev.exact.iter()).enumerate() {
                    let (wx, wy) = (s * (want.0.to_f64() - origin), s * want.1.to_f64());
                    if (got.0 as f64 - wx).abs() > tol(wx) || (got.1 as f64 - wy).abs() > tol(wy) {
                        ok = false;
                        if first_bad.is_empty() {
                            first_bad = format!("point {i}: drawn {:?}, exact ({wx}, {wy})", got);
                        }
                        break;
                    }
                }
                if ok {
                    ok_any = true;
                    break;
                }
            }
            if !ok_any {
                run.violation(
                    &format!("{}scaled outline differs from scale x (default + Σ scalar·delta) ({style_name}; scale {s})", allopt_prefix(&f.glyphs[gid as usize])),
                    &format!("location {loc:?} ({} active tuples): {first_bad}", ev.active),
                    case(),
                );
            }
            let mut h = Fnv::new();
            h.str("c7");
            h.str(style_name);
            h.u64(ppem as u64);
            for p in &pen.0 {
                h.u64(p.0.to_bits() as u64);
                h.u64(p.1.to_bits() as u64);
            }
            l.all.insert(h.finish());
            if ev.active > 0 {
                l.nontrivial.insert(h.finish());
            }
        }
    }
}

/// the glyph whose phantom points give the metrics of `gid` (first USE_MY_METRICS component, recursively)
/// and the index at which its phantom entries start
fn metrics_glyph(f: &CFont, gid: usize, depth: usize) -> (usize, usize) {
    match &f.glyphs[gid] {
        VGlyph::Simple(s) => (gid, s.coords.len()),
        VGlyph::Composite { comps, .. } => {
            if depth < 16 {
                if let Some(c) = comps.iter().find(|c| c.use_my_metrics) {
                    return metrics_glyph(f, c.gid as usize, depth + 1);
                }
            }
            (gid, comps.len())
        }
    }
}

/// (p1) `Gvar::phantom_point_deltas` = sum over active tuples of scalar x the explicit phantom entries of
/// the glyph that provides the metrics (phantom points are never inferred)
pub fn phantom_api_check(run: &Run, f: &CFont, font: &FontRef, dec: &[Vec<Decoded>], loc: &[i16], coords: &[F2Dot14], l: &mut Local) {
    use read_fonts::TableProvider;
    let (Ok(gvar), Ok(glyf), Ok(loca)) = (font.gvar(), font.glyf(), font.loca(None)) else {
        run.violation("p1: gvar / glyf / loca of a built font cannot be read", "", cfont_json(f, 0, loc, "tables"));
        return;
    };
    for gid in 0..f.glyphs.len() {
        l.evals += 1;
        l.trans += 1;
        let (target, pc) = metrics_glyph(f, gid, 0);
        let tuples = match &f.glyphs[target] {
            VGlyph::Simple(s) => &s.tuples,
            VGlyph::Composite { tuples, .. } => tuples,
        };
        let mut want = [(R::int(0), R::int(0)); 4];
        let mut eps_num: i128 = 1;
        let mut active = 0;
        for (t, d) in tuples.iter().zip(dec[target].iter()) {
            let s = exact_scalar(&d.eff, &t.region, loc);
            if s.n == 0 {
                continue;
            }
            active += 1;
            let m = d.explicit.iter().flatten().map(|e| e.0.abs().max(e.1.abs())).max().unwrap_or(0) as i128;
            eps_num += m * f.axis_count as i128 + 3;
            for k in 0..4 {
                if let Some(Some((x, y))) = d.explicit.get(pc + k) {
                    want[k] = (want[k].0.add(s.mul(R::int(*x as i128))), want[k].1.add(s.mul(R::int(*y as i128))));
                }
            }
        }
        let eps = eps_num as f64 / 65536.0;
        let case = || cfont_json(f, gid as u32, loc, "phantom_point_deltas");
        let kind = match &f.glyphs[gid] {
            VGlyph::Composite { comps, .. } => if comps.iter().any(|c| c.use_my_metrics) { "composite; USE_MY_METRICS" } else { "composite" },
            VGlyph::Simple(s) => if s.coords.is_empty() { "glyph without outline" } else { "simple glyph" },
        };
        match guard(|| gvar.phantom_point_deltas(&glyf, &loca, coords, GlyphId::new(gid as u32))) {
            Ok(Ok(got)) => {
                let got: [(f64, f64); 4] = match got {
                    Some(p) => [0, 1, 2, 3].map(|k| (p[k].x.to_bits() as f64 / 65536.0, p[k].y.to_bits() as f64 / 65536.0)),
                    None => {
                        if !tuples.is_empty() {
                            run.violation(&format!("phantom_point_deltas reports no variation data for a varied glyph ({kind})"), &format!("location {loc:?}"), case());
                        }
                        continue;
                    }
                };
                for k in 0..4 {
                    if (got[k].0 - want[k].0.to_f64()).abs() > eps || (got[k].1 - want[k].1.to_f64()).abs() > eps {
                        run.violation(
                            &format!("phantom_point_deltas differs from Σ scalar·delta of the phantom entries ({kind}; phantom point {})", k + 1),
                            &format!("location {loc:?}: got {:?}, exact ({}, {}); metrics glyph {target}, phantom entries start at {pc}", got[k], want[k].0.to_f64(), want[k].1.to_f64()),
                            case(),
                        );
                        break;
                    }
                }
                let mut h = Fnv::new();
                h.str("p1");
                for g in &got {
                    h.u64(g.0.to_bits());
                    h.u64(g.1.to_bits());
                }
                l.all.insert(h.finish());
                if active > 0 {
                    l.nontrivial.insert(h.finish());
                }
            }
            Ok(Err(e)) => run.violation(&format!("phantom_point_deltas fails on a built font ({kind})"), &format!("location {loc:?}: {e}"), case()),
            Err(p) => run.violation(&format!("p1: phantom_point_deltas panic: {} in {}", p.kind(), p.site()), &p.message, case()),
        }
    }
}

/// Differential on the length of the coordinate array (documented on `LocationRef`): trailing zero
/// coordinates may be left out, and coordinates beyond the font's axes are ignored. Returns the
/// name of the variant that drew differently.
pub fn coords_length_check(og: &skrifa::outline::OutlineGlyph, coords: &[F2Dot14], style: skrifa::outline::pen::PathStyle, full: &[(f32, f32)]) -> Option<String> {
    let mut variants: Vec<(&str, Vec<F2Dot14>)> = vec![];
    let mut longer = coords.to_vec();
    longer.push(F2Dot14::from_bits(0x2000));
    variants.push(("one coordinate more than the font has axes", longer));
    if coords.last().map(|c| c.to_bits()) == Some(0) && coords.iter().any(|c| c.to_bits() != 0) {
        let keep = coords.iter().rposition(|c| c.to_bits() != 0).map_or(0, |p| p + 1);
        variants.push(("trailing zero coordinates left out", coords[..keep].to_vec()));
    }
    for (name, v) in variants {
        let mut pen = PtsPen::default();
        let settings = DrawSettings::unhinted(Size::unscaled(), LocationRef::new(&v)).with_path_style(style);
        match guard(|| og.draw(settings, &mut pen)) {
            Ok(Ok(_)) if pen.0 == full => {}
            Ok(Ok(_)) => return Some(format!("{name}: drawn {:?}", &pen.0[..pen.0.len().min(4)])),
            Ok(Err(e)) => return Some(format!("{name}: {e}")),
            Err(p) => return Some(format!("{name}: panic {}", p.message)),
        }
    }
    None
}

// ---------------------------------------------------------------------------
// c6: drawn inference on exhaustive small contours
// ---------------------------------------------------------------------------

/// Every triangle with per point (x, dx) from {0,10,20,100} x {-2..2} (y, dy rotated copies, as in
/// a1) x every subset of referenced points, packed 200 glyphs to a font; each glyph also once with an
/// all-optional first tuple in front of the real one. Drawn at {1/2, 1} in both styles, unscaled and
/// scaled, against exact inference from the explicit deltas. Quadrilaterals over the reduced alphabet
/// x {0,10,100} x dx {-2,0,1} in thorough.
pub fn drawn_inference_family(run: &Run) {
    let tents = tents_1axis();
    let mut glyphs: Vec<VGlyph> = vec![];
    let push = |glyphs: &mut Vec<VGlyph>, coords: Vec<(i64, i64)>, dx: Vec<i64>| {
        let n = coords.len();
        for mask in 0u32..(1 << n) {
            let req: Vec<usize> = (0..n).filter(|i| mask >> i & 1 == 1).chain((mask & 1 == 1).then_some(n + 1)).collect();
            let delta = |j: usize| -> (i16, i16) {
                let p = req[j];
                if p < n { (dx[p] as i16, -dx[(p + 2) % n] as i16) } else { (dx[0] as i16, 0) }
            };
            let real = {
                let all: Vec<(i64, i64)> = coords.iter().copied().chain([(0, 0), (C_ADVANCE as i64, 0), (0, 0), (0, 0)]).collect();
                let mut explicit: Vec<Option<(i64, i64)>> = vec![None; n + 4];
                for (j, &p) in req.iter().enumerate() {
                    let d = delta(j);
                    explicit[p] = Some((d.0 as i64, d.1 as i64));
                }
                let inf = infer(&all, &[n - 1], &explicit);
                TupleSpec {
                    region: tents[0].clone(),
                    deltas: (0..n + 4)
                        .map(|i| match explicit[i] {
                            Some((x, y)) => (x as i16, y as i16, true),
                            None => ((inf[i].0.to_f64() + 0.5).floor() as i16, (inf[i].1.to_f64() + 0.5).floor() as i16, false),
                        })
                        .collect(),
                }
            };
            glyphs.push(VGlyph::Simple(GlyphSpec { coords: coords.clone(), ends: vec![n - 1], tol2: 2, tuples: vec![real] }));
        }
    };
    const CX: [i64; 4] = [0, 10, 20, 100];
    let mut digits = vec![0usize; 3];
    loop {
        let xs: Vec<i64> = digits.iter().map(|d| CX[d % 4]).collect();
        let dx: Vec<i64> = digits.iter().map(|d| DS[d / 4]).collect();
        let coords: Vec<(i64, i64)> = (0..3).map(|i| (xs[i], xs[(i + 1) % 3])).collect();
        push(&mut glyphs, coords, dx);
        if !next_digits(&mut digits, 20) {
            break;
        }
    }
    run.bound("c6.triangles", json!("per point (x, dx) from {0,10,20,100} x {-2..2}, y / dy rotated copies; every subset of referenced points (the advance phantom with point 0)"));
    if run.tier == Tier::Thorough {
        const QX: [i64; 3] = [0, 10, 100];
        const QD: [i64; 3] = [-2, 0, 1];
        let mut digits = vec![0usize; 4];
        loop {
            let xs: Vec<i64> = digits.iter().map(|d| QX[d % 3]).collect();
            let dx: Vec<i64> = digits.iter().map(|d| QD[d / 3]).collect();
            let coords: Vec<(i64, i64)> = (0..4).map(|i| (xs[i], xs[(i + 1) % 4])).collect();
            push(&mut glyphs, coords, dx);
            if !next_digits(&mut digits, 9) {
                break;
            }
        }
        run.bound("c6.quadrilaterals", json!("per point (x, dx) from {0,10,100} x {-2,0,1}; every subset"));
    }
    run.count("c6.glyphs", glyphs.len() as u64);
    run.bound("c6.locations", json!([0.5, 1.0]));
    run.bound("c6.sizes", json!(["unscaled", "ppem = unitsPerEm", "ppem = unitsPerEm / 2"]));
    let fonts: Vec<CFont> = glyphs.chunks(200).map(|c| CFont { glyphs: c.to_vec(), axis_count: 1 }).collect();
    run.count("c6.fonts", fonts.len() as u64);
    let locs: Vec<Vec<i16>> = vec![vec![ONE / 2], vec![ONE]];
    let locals: Vec<Local> = fonts
        .par_iter()
        .map(|f| {
            let mut l = Local::new();
            let draw: Vec<u32> = (0..f.glyphs.len() as u32).collect();
            check_cfont(run, f, &draw, &locs, false, &mut l);
            l
        })
        .collect();
    merge_all(run, locals, "c6");
}

// ---------------------------------------------------------------------------
// c8: glyphs without an outline, all-optional tuples
// ---------------------------------------------------------------------------

/// Fonts around a glyph that has no outline but has variation data for its phantom points (dense, or
/// only the advance phantom referenced), alone and as a component (with and without USE_MY_METRICS),
/// and glyphs whose first / middle / last tuple declares every delta optional.
pub fn empty_glyph_family(run: &Run) {
    let tents = tents_1axis();
    let tri: Vec<(i64, i64)> = vec![(10, 0), (110, 7), (60, 93)];
    let plain = |gid: u16, ox: i16, oy: i16, mm: bool| CompSpec { gid, ox, oy, xf: IDENTITY, use_my_metrics: mm, round_xy: false, unscaled_offset: false };
    let mut fonts: Vec<CFont> = vec![];
    for kind in 0..3usize {
        for r in [0usize, 1] {
            let empty_tuples = match kind {
                0 => vec![],
                1 => vec![TupleSpec { region: tents[r].clone(), deltas: vec![(7, 0, true), (-31, 0, true), (0, 5, true), (0, -9, true)] }],
                _ => vec![TupleSpec { region: tents[r].clone(), deltas: vec![(0, 0, false), (45, 0, true), (0, 0, false), (0, 0, false)] }],
            };
            let g0 = VGlyph::Simple(GlyphSpec { coords: vec![], ends: vec![], tol2: 0, tuples: empty_tuples });
            let g1 = VGlyph::Simple(GlyphSpec {
                coords: tri.clone(),
                ends: vec![2],
                tol2: 0,
                tuples: vec![TupleSpec { region: tents[0].clone(), deltas: (0..7).map(|i| (3 * i as i16 - 4, 8 - i as i16, true)).collect() }],
            });
            for mm in [false, true] {
                for first in [false, true] {
                    let comps = if first { vec![plain(0, 40, 0, mm), plain(1, 100, 20, false)] } else { vec![plain(1, 100, 20, false), plain(0, 40, 0, mm)] };
                    let nc = comps.len();
                    let g2 = VGlyph::Composite {
                        comps,
                        tuples: vec![TupleSpec { region: tents[0].clone(), deltas: (0..nc + 4).map(|i| (5 + i as i16, -(i as i16), true)).collect() }],
                    };
                    fonts.push(CFont { glyphs: vec![g0.clone(), g1.clone(), g2], axis_count: 1 });
                }
            }
        }
    }
    // tuples that declare every delta optional (nothing referenced), in front of / behind / between
    // tuples that carry deltas
    {
        let real = |r: usize, k: i16| TupleSpec { region: tents[r].clone(), deltas: (0..7).map(|i| (k * (i as i16 + 1), 4 - k * i as i16, true)).collect() };
        let allopt = |r: usize| TupleSpec { region: tents[r].clone(), deltas: vec![(0, 0, false); 7] };
        let g = |tuples: Vec<TupleSpec>| VGlyph::Simple(GlyphSpec { coords: tri.clone(), ends: vec![2], tol2: 0, tuples });
        fonts.push(CFont {
            glyphs: vec![g(vec![allopt(0), real(1, 3)]), g(vec![real(0, 5), allopt(1)]), g(vec![real(0, -2), allopt(1), real(3, 7)])],
            axis_count: 1,
        });
    }
    run.bound("c8.all_optional_tuples", json!("a tuple with no referenced point first / last / between tuples with deltas"));
    run.count("c8.fonts", fonts.len() as u64);
    run.bound("c8.outline_less_glyph", json!(["no variation data", "dense phantom deltas", "advance phantom only (sparse)"]));
    run.bound("c8.use", json!("drawn alone, and as first / second component with and without USE_MY_METRICS"));
    let locals: Vec<Local> = fonts
        .par_iter()
        .map(|f| {
            let mut l = Local::new();
            let mut regions: Vec<Region> = vec![];
            for g in &f.glyphs {
                let ts = match g {
                    VGlyph::Simple(s) => &s.tuples,
                    VGlyph::Composite { tuples, .. } => tuples,
                };
                regions.extend(ts.iter().map(|t| t.region.clone()));
            }
            let locs: Vec<Vec<i16>> = axis_locations(&regions, 0).iter().map(|x| vec![*x]).collect();
            check_cfont(run, f, &[0, 1, 2], &locs, true, &mut l);
            l
        })
        .collect();
    merge_all(run, locals, "c8");
}
